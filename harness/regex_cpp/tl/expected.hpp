// Stand-in for <tl/expected.hpp> (TartanLlama/expected is not installed here).  The generated common.hpp only
// names tl::expected, tl::unexpected and tl::make_unexpected in using-declarations when compiled as C++17;
// revm.cpp, the only generated translation unit compiled by the C18 check, uses none of them.
#pragma once
#include <type_traits>
namespace tl {
template <class T, class E> class expected;
template <class E> class unexpected;
template <class E> unexpected<typename std::decay<E>::type> make_unexpected(E&& e);
}  // namespace tl
