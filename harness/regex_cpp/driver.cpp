// Driver of the C18 check: runs the *generated* revm::Match (revm.hpp / revm.cpp emitted by
// aas_core_codegen.cpp.lib for the namespace "vx") on programs and strings read from a text file.
//
// Input (whitespace separated tokens):
//   P <case id> <n instructions>          starts a program; then n instructions:
//     C <code point> | S <k> <lo hi>*k | N <k> <lo hi>*k | A | M | J <t> | X <t1> <t2> | E
//   T <n strings>                          then n strings, each: <len> <code point>*len
// Output: one line per program: "<case id> <verdicts>" where verdicts is a string over {0,1} ("-" if no strings), or
//   "<case id> HANG <index of the string>", "<case id> THROW <what>", "<case id> CRASH <signal>", "<case id> SKIP".
// Every program runs in forked children with CPU-time budgets, so that a non-terminating Match is an
// observation and not a hang of the check; a hang is reported only after the single string has been given the
// long budget as well.
#include <vx/revm.hpp>

#include <sys/resource.h>
#include <sys/time.h>
#include <sys/wait.h>
#include <unistd.h>

#include <cstdio>
#include <cstdlib>
#include <fstream>
#include <iostream>
#include <memory>
#include <sstream>
#include <stdexcept>
#include <string>
#include <vector>

namespace revm = vx::revm;

static std::vector<revm::Range> ReadRanges(std::istream& in) {
  size_t k;
  in >> k;
  std::vector<revm::Range> ranges;
  for (size_t i = 0; i < k; ++i) {
    unsigned long lo, hi;
    in >> lo >> hi;
    ranges.emplace_back(static_cast<wchar_t>(lo), static_cast<wchar_t>(hi));
  }
  return ranges;
}

int main(int argc, char** argv) {
  if (argc < 5) {
    std::cerr << "usage: driver <input> <cpu ms per program> <cpu ms for one string when confirming a hang> "
              << "<max confirmed hangs>" << std::endl;
    return 2;
  }
  std::ifstream in(argv[1]);
  const long cpu_ms = std::atol(argv[2]);
  const long long_cpu_ms = std::atol(argv[3]);
  const long max_hangs = std::atol(argv[4]);  // confirming a hang burns the long budget: after that many, suspects are skipped
  long hangs = 0;
  std::string tag;
  while (in >> tag) {
    if (tag != "P") {
      std::cerr << "expected P, got " << tag << std::endl;
      return 2;
    }
    std::string id;
    size_t n;
    in >> id >> n;
    // NOTE: the program is parsed in the parent (cheap) but *constructed* in the child, because the generated
    // constructors may throw (e.g. empty or unsorted ranges) and that is an observation, too.
    std::vector<std::string> ops(n);
    std::vector<std::vector<unsigned long> > args(n);
    for (size_t i = 0; i < n; ++i) {
      in >> ops[i];
      if (ops[i] == "C" || ops[i] == "J") {
        unsigned long a;
        in >> a;
        args[i].push_back(a);
      } else if (ops[i] == "X") {
        unsigned long a, b;
        in >> a >> b;
        args[i].push_back(a);
        args[i].push_back(b);
      } else if (ops[i] == "S" || ops[i] == "N") {
        size_t k;
        in >> k;
        args[i].push_back(k);
        for (size_t j = 0; j < 2 * k; ++j) {
          unsigned long a;
          in >> a;
          args[i].push_back(a);
        }
      }
    }
    in >> tag;
    if (tag != "T") {
      std::cerr << "expected T, got " << tag << std::endl;
      return 2;
    }
    size_t m;
    in >> m;
    std::vector<std::wstring> texts(m);
    for (size_t i = 0; i < m; ++i) {
      size_t len;
      in >> len;
      for (size_t j = 0; j < len; ++j) {
        unsigned long c;
        in >> c;
        texts[i].push_back(static_cast<wchar_t>(c));
      }
    }

    // Run the strings in forked children.  A child that exceeds its CPU budget is only a *suspect*: the string it
    // was working on is run again, alone, with the long budget; only if that run does not return either, the
    // program is reported as hanging (on that string).  This keeps a slow, overloaded machine from producing hangs.
    std::string verdicts;
    std::string failure;
    size_t start = 0;
    bool confirming = false;
    while (start < m && failure.empty()) {
      const size_t stop = confirming ? start + 1 : m;
      const long budget_raw = confirming ? long_cpu_ms : cpu_ms;
      const long budget_ms = budget_raw > 0 ? budget_raw : 1;  // a zero timer would mean no limit at all
      int fds[2];
      if (pipe(fds) != 0) return 2;
      std::cout.flush();
      const pid_t pid = fork();
      if (pid < 0) return 2;
      if (pid == 0) {
        close(fds[0]);
        struct itimerval timer;
        timer.it_interval.tv_sec = 0;
        timer.it_interval.tv_usec = 0;
        timer.it_value.tv_sec = budget_ms / 1000;
        timer.it_value.tv_usec = (budget_ms % 1000) * 1000;
        setitimer(ITIMER_PROF, &timer, nullptr);  // SIGPROF after the CPU budget: default action terminates
        std::string out;
        try {
          std::vector<std::unique_ptr<revm::Instruction> > program;
          for (size_t i = 0; i < n; ++i) {
            const std::string& op = ops[i];
            const std::vector<unsigned long>& a = args[i];
            if (op == "C") {
              program.emplace_back(new revm::InstructionChar(static_cast<wchar_t>(a[0])));
            } else if (op == "S" || op == "N") {
              std::vector<revm::Range> ranges;
              for (size_t j = 0; j < a[0]; ++j) {
                ranges.emplace_back(static_cast<wchar_t>(a[1 + 2 * j]), static_cast<wchar_t>(a[2 + 2 * j]));
              }
              if (op == "S") {
                program.emplace_back(new revm::InstructionSet(std::move(ranges)));
              } else {
                program.emplace_back(new revm::InstructionNotSet(std::move(ranges)));
              }
            } else if (op == "A") {
              program.emplace_back(new revm::InstructionAny());
            } else if (op == "M") {
              program.emplace_back(new revm::InstructionMatch());
            } else if (op == "J") {
              program.emplace_back(new revm::InstructionJump(a[0]));
            } else if (op == "X") {
              program.emplace_back(new revm::InstructionSplit(a[0], a[1]));
            } else if (op == "E") {
              program.emplace_back(new revm::InstructionEnd());
            } else {
              throw std::invalid_argument("unknown-op");
            }
          }
          for (size_t k = start; k < stop; ++k) {
            const char verdict = revm::Match(program, texts[k]) ? '1' : '0';
            const ssize_t ignored = write(fds[1], &verdict, 1);  // one by one: the parent sees where a child got stuck
            (void)ignored;
          }
        } catch (const std::exception& ex) {
          out = std::string("!THROW ") + ex.what();
          for (char& ch : out) {
            if (ch == '\n') ch = ' ';
          }
          const ssize_t ignored = write(fds[1], out.data(), out.size());
          (void)ignored;
        }
        close(fds[1]);
        _exit(0);
      }
      close(fds[1]);
      std::string got;
      char buf[4096];
      ssize_t r;
      while ((r = read(fds[0], buf, sizeof(buf))) > 0) got.append(buf, static_cast<size_t>(r));
      close(fds[0]);
      int status = 0;
      waitpid(pid, &status, 0);
      const size_t bang = got.find('!');
      if (bang != std::string::npos) {
        failure = got.substr(bang + 1);
        break;
      }
      verdicts += got;
      start += got.size();
      if (WIFSIGNALED(status)) {
        const int sig = WTERMSIG(status);
        if (sig != SIGPROF) {
          failure = "CRASH " + std::to_string(sig);
        } else if (confirming) {
          failure = "HANG " + std::to_string(start);
          ++hangs;
        } else if (hangs >= max_hangs) {
          failure = "SKIP";  // neither a verdict nor a hang: this program is not judged
        } else {
          confirming = true;  // run string number `start` alone with the long budget
        }
      } else {
        confirming = false;
      }
    }
    if (!failure.empty()) {
      std::cout << id << " " << failure << std::endl;
    } else {
      std::cout << id << " " << (verdicts.empty() ? std::string("-") : verdicts) << std::endl;
    }
  }
  return 0;
}
