"""C22 — generation is deterministic.

M: Determinism.tla — the plan of run configurations (seed, output dir location, pre-existing files, snippet listing
   order, process, cache state) is feasible, and exposes EVERY non-empty set of configuration dimensions an abstract
   generator could depend on (TLC checks all 63 leak sets); the thorough plan is a pairwise covering array.
G: DeterminismGen.tla — the plan as JSON; histories = plan x (meta-models with many hash-ordered containers, one model
   that fails with several errors, the repository's common meta-models) x targets.
R: harness.run_c22 — every run is the real command line (`python -m aas_core_codegen ...`, or the same entry point
   called inside a process that generated something else before), PYTHONPATH bound to the tree under test, private
   TMPDIR; written files are observed through an audit hook installed by harness/c22_shim/sitecustomize.py.
V: DeterminismTrace.tla — per history the digests of files / stdout (masked) / stderr / status are all equal; the
   history is the plan and the environment was really established (self-checks).
"""
import json
import os
import pathlib
import re

from harness import core

FIELDS = ("cfg", "files", "nfiles", "stdout", "stderr", "rc", "pre_count", "cache_before", "cache_after")
CLAUSE_FIELD = {"Inv_SameFiles": "files", "Inv_SameStdout": "stdout", "Inv_SameStderr": "stderr", "Inv_SameStatus": "rc"}


def varies_with(runs, field):
    """Diagnostic only: the configuration dimensions whose value alone determines the observed value in this history."""
    dims = []
    for d in sorted(runs[0]["cfg"]):
        by = {}
        for r in runs:
            by.setdefault(r["cfg"][d], set()).add(json.dumps(r[field]))
        if all(len(v) == 1 for v in by.values()) and len({next(iter(v)) for v in by.values()}) > 1:
            dims.append(d)
    return dims


def main() -> int:
    ck = core.Check("C22", "exploration")
    replay = os.environ.get("VERIF_REPLAY")
    suffix = "" if ck.quick else "_thorough"
    nproc = int(os.environ.get("VERIF_NPROC", "8"))

    # M
    ck.model_check("MC_Determinism", "MC_Determinism%s.cfg" % suffix, "the plan is feasible and exposes every dependence on the configuration", workers=2, timeout=900)

    # G
    plan_p = ck.work / "plan.json"
    ck.tlc("DeterminismGen", "DeterminismGen%s.cfg" % suffix, what="G: the plan of run configurations", env={"VERIF_OUT": str(plan_p)}, count=False, timeout=300)
    plan = core.read_json(plan_p)

    # R
    obs_p = ck.work / "obs.json"
    extra = {}
    if replay:
        rp = json.loads(pathlib.Path(replay).read_text())
        extra["VERIF_C22_ONLY"] = "%s:%s" % (rp["case"]["model"], rp["case"]["target"])
    ck.impl("harness.run_c22", [str(plan_p), str(obs_p), str(ck.work / "scratch"), str(nproc), ck.tier], timeout=3300, extra_env=extra)
    hist = core.read_json(obs_p)
    bad = [h for h in hist if "harness_error" in h]
    if bad:
        raise core.MachineryFailure("runner failed on %s/%s: %s" % (bad[0]["model"], bad[0]["target"], bad[0]["harness_error"]))
    if not hist:
        raise core.MachineryFailure("vacuous run: no history")

    # V
    pp = ck.work / "obs_v.json"
    core.write_json(pp, [{"model": h["model"], "target": h["target"], "runs": [{k: r[k] for k in FIELDS} for r in h["runs"]]} for h in hist])
    res = ck.tlc("DeterminismTrace", "DeterminismTrace%s.cfg" % suffix, what="V: one digest per history", env={"VERIF_OBS": str(pp)}, cont=True, workers=1, timeout=900)
    for v in res.violations:
        mi = re.search(r"\bi = (\d+)", v["state"])
        if not mi:
            raise core.MachineryFailure("cannot read the history index from TLC's output: %r" % v["state"][:200])
        h = hist[int(mi.group(1)) - 1]
        if v["invariant"].startswith("Chk_"):
            raise core.MachineryFailure("binding self-check %s failed for %s/%s: %s" % (v["invariant"], h["model"], h["target"], [(r["cfg"], r["pre_count"], r["cache_before"]) for r in h["runs"]][:8]))
        field = CLAUSE_FIELD[v["invariant"]]
        dims = varies_with(h["runs"], field)
        key = {"target": h["target"], "clause": v["invariant"], "model": h["model"]}
        first = h["runs"][0]
        other = next(r for r in h["runs"] if r[field] != first[field])
        detail = "%s/%s: %s differs between %s and %s (explained by: %s)" % (h["model"], h["target"], field, first["cfg"], other["cfg"], "|".join(dims) or "no single dimension")
        if field == "files":
            a, b = dict(map(tuple, first["entries"])), dict(map(tuple, other["entries"]))
            diff = sorted(k for k in set(a) | set(b) if a.get(k) != b.get(k))
            detail += "; files that differ: %s" % diff[:6]
        elif field == "stderr":
            detail += "; stderr: %r vs %r" % (first["stderr_text"][:200], other["stderr_text"][:200])
        elif field == "stdout":
            detail += "; stdout: %r vs %r" % (first["stdout_text"][:200], other["stdout_text"][:200])
        ck.violation(key, v["invariant"], {"model": h["model"], "target": h["target"]}, {"runs": [{k: r[k] for k in FIELDS} for r in h["runs"]]}, detail)

    n_runs = sum(len(h["runs"]) for h in hist)
    n_failing = sum(1 for h in hist if h["runs"][0]["rc"] != 0)
    n_multi = sum(1 for h in hist if len(h["runs"]) >= 2)
    if n_multi == 0:
        raise core.MachineryFailure("vacuous run: no history with two runs")
    ck.cov["evaluations"] = n_runs
    ck.cov["traces_validated_against_impl"] = len(hist)
    ck.cov["distinct_nontrivial"] = len({(h["model"], h["target"]) for h in hist if len(h["runs"]) >= 2})
    ck.cov["rule"] = (
        "one evaluation = one run of the real command line; a history = the %d runs of the plan for one (meta-model, target); "
        "non-trivial = a distinct history with at least two runs (every pair of runs of a history is compared); "
        "%d histories, %d runs, %d histories of failing generations (rc != 0); models: %s"
        % (len(plan), len(hist), n_runs, n_failing, sorted({h["model"] for h in hist}))
    )
    ck.cov["exhaustive"] = False
    ck.cov["samples"] = [{"model": h["model"], "target": h["target"], "rc": h["runs"][0]["rc"], "nfiles": h["runs"][0]["nfiles"], "digest": h["runs"][0]["files"]} for h in (hist[0], hist[len(hist) // 2], hist[-1])]
    ck.assumptions += [
        "TLC, SANY, CommunityModules Json",
        "written files are those opened for writing below the output directory (audit hook 'open'), digested by relative path + bytes after the run",
        "snippet listing order is varied by wrapping pathlib.Path.glob in the child interpreter (sitecustomize), the code under test is not modified",
        "PYTHONHASHSEED=random is one sample per run; the in-process configuration is a fresh interpreter that first generates a different model for a different target",
    ]
    return ck.finish()
