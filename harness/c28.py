"""C28 — the smoke check agrees with the real generators.

M: Pipeline (Smoke composition, SmokeAgrees).  G: PipeSyntaxGen items + models of PipeConfig + the repository's
meta-models and the recorded smoke cases.  R: smoke.main.execute traced, and — independently — run.load_model,
infer_constraints_by_class, C# verify_for_types / generate_types / generate_verification.
V: PipelineTrace_C28.cfg: exit 0 only if all succeed, any fails => exit 1 with a report, recorded cases match.
"""
import json
import random

from harness import core, pipe_check, pipe_render


def recorded_cases():
    root = core.REPO / "dev" / "test_data" / "smoke" / "test_main"
    out = []
    for exp in sorted(root.rglob("expected_stderr.txt")):
        mp = exp.parent / "meta_model.py"
        if mp.exists():
            out.append((str(exp.parent.relative_to(core.REPO)), mp.read_text(encoding="utf-8"), exp.read_text(encoding="utf-8")))
    return out


def build_cases(ck: core.Check, rnd: random.Random):
    g = pipe_check.gen_syntax(ck)
    cases = []

    def add(desc, text, **kw):
        c = {"id": len(cases), "t": "smoke", "text": text, "components": True, "desc": desc}
        c.update(kw)
        cases.append(c)

    rec = recorded_cases()
    for rel, text, want in rec:
        add({"src": "recorded", "dir": rel}, text, recorded=want)
    add({"src": "items", "items": []}, pipe_render.render_module({"items": []}))
    for it in g["items1"]:
        add({"src": "items", "items": [it]}, pipe_render.render_module({"items": [it]}))
    items1_keys = {pipe_check.item_key(i) for i in g["items1"]}
    # a constrained primitive as the only carrier of an invariant (no class invariant, no verification function)
    n_bare = 0
    for it in g["items"]:
        if it["k"] == "cprim" and it.get("base") == "bare" and pipe_check.item_key(it) not in items1_keys:
            add({"src": "items", "items": [it]}, pipe_render.render_module({"items": [it]}))
            n_bare += 1
    n2 = 0
    if not ck.quick:
        items2 = [i for i in g["items"] if pipe_check.item_key(i) not in items1_keys and i["k"] in ("invariant", "func", "class", "constset", "enum")]
        rnd.shuffle(items2)
        for it in items2[:3000]:
            add({"src": "items", "items": [it]}, pipe_render.render_module({"items": [it]}))
            n2 += 1
    for m in sorted(pipe_render.MODEL_EXTRAS):
        add({"src": "model", "model": m}, pipe_render.render_config_model(m), surrogatepass=True)
    corpus = pipe_check.corpus_texts(rnd, n_lines=0 if ck.quick else 300, n_bytes=0, n_big=0 if ck.quick else 1, whole=True)
    for desc, text in corpus:
        add(desc, text)
    counts = {"recorded": len(rec), "cprim_bare": n_bare, "items_dev1": len(g["items1"]), "items_dev2": n2, "models": len(pipe_render.MODEL_EXTRAS), "corpus": len(corpus)}
    return cases, counts


def main() -> int:
    ck = core.Check("C28", "model_checking")
    rnd = random.Random(ck.seed)
    rp = pipe_check.replay_case()
    built = {}

    def build():
        built["v"] = build_cases(ck, rnd)

    jobs = [lambda: ck.model_check("Pipeline", "MC_Pipeline.cfg", "Smoke composition: exit 0 => all components ok; any fails => exit 1 and a report", workers=2, timeout=900)]
    if rp is None:
        jobs.append(build)
    pipe_check.in_parallel(jobs)
    if rp is not None:
        cases, counts = [dict(rp, desc=rp.get("desc", {"src": "replay"}))], {"replay": 1}
    else:
        cases, counts = built["v"]
    traces, meta, installed = pipe_check.run_cases(ck, cases, "harness.run_c28", "c28")
    viols, counters = pipe_check.validate(ck, traces, "PipelineTrace_C28.cfg", "smoke exit status agrees with the components; recorded cases")
    by_id = {c["id"]: c for c in cases}
    for v in viols:
        if v["invariant"] == "Inv_RecordedMatches":
            d = by_id[meta[v["index"]]["id"]]["desc"]
            tr = traces[v["index"]]
            got = core.from_cps(tr["obs"]["recGot"])
            want = core.from_cps(tr["obs"]["recWant"])
            ck.violation({"clause": "Inv_RecordedMatches", "dir": d.get("dir")}, "Inv_RecordedMatches", {"runner_case": by_id[meta[v["index"]]["id"]]}, {"got": got, "want": want}, detail="%s: got %r want %r" % (d.get("dir"), got[:200], want[:200]))
    pipe_check.record_violations(ck, [v for v in viols if v["invariant"] != "Inv_RecordedMatches"], traces, meta, by_id, "SmokeNeitherZeroNorReport")
    verdicts = {}
    for t, m in zip(traces, meta):
        comps = m.get("components") or {}
        failed = tuple(sorted(c for c, v in comps.items() if v == "failed"))
        verdicts.setdefault((pipe_check.text_digest(by_id[m["id"]].get("text"))), (t["obs"]["rc"], failed))
    n_fail_after_front = sum(1 for rc, f in verdicts.values() if f and "frontend" not in f)
    n_front = sum(1 for rc, f in verdicts.values() if "frontend" in f)
    n_ok = sum(1 for rc, f in verdicts.values() if rc == 0)
    n_rec = sum(1 for t in traces if t["obs"]["hasRecorded"])
    ck.cov["evaluations"] = len(traces)
    ck.cov["traces_validated_against_impl"] = len(traces)
    ck.cov["distinct_nontrivial"] = n_fail_after_front + n_ok
    ck.cov["rule"] = "one traced run of smoke.main.execute per model + the five components called on their own; non-trivial = distinct models on which the smoke tool exits 0 (%d: all components must succeed) or a component after the front end fails (%d: inference or C#); %d more are rejected by the front end; %d recorded cases compared. Case mix: %s" % (n_ok, n_fail_after_front, n_front, n_rec, json.dumps(counts, sort_keys=True))
    ck.cov["exhaustive"] = False
    ck.cov["wrapped_functions"] = len(installed)
    ck.cov["samples"] = [{"case": pipe_check.short_desc(by_id[meta[i]["id"]].get("desc", {})), "rc": traces[i]["obs"]["rc"], "components": meta[i].get("components")} for i in (0, len(traces) // 3, len(traces) // 2, len(traces) - 1) if i < len(traces)]
    ck.assumptions += ["TLC, SANY, CommunityModules Json", "implementation-specific snippets are stubbed with one dummy per key when the C# generators are called on their own (as the smoke tool does)"]
    if rp is None and (n_ok == 0 or n_fail_after_front == 0 or n_rec == 0):
        raise core.MachineryFailure("vacuous run: %d ok, %d failing after the front end, %d recorded" % (n_ok, n_fail_after_front, n_rec))
    return ck.finish()
