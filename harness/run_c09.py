"""R phase of C09: for every meta-model of specs/CrossSdkModels.tla generate the Python, C++ and Java SDKs with the
real generators, observe the Python SDK in-process, compile and run the C++ / Java drivers, and write one
observation record per case in the vocabulary of specs/CrossSdk.tla.

usage: python -m harness.run_c09 <cases.json (G output)> <obs.json> <work dir> [jobs]
"""
from __future__ import annotations

import concurrent.futures
import hashlib
import json
import os
import pathlib
import re
import shutil
import subprocess
import sys
import time
from typing import Any, Dict, List, Optional, Tuple

from harness import core, mm
from harness import cross_drivers as cd
from harness import cross_lib as cl

SHIMS = pathlib.Path(__file__).resolve().parent / "shims"
NLOHMANN = pathlib.Path("/root/miniconda/include/nlohmann")
CAUSE_PREFIX = "Invariant violated:\n"   # the Java target prefixes every description with this fixed text


def sh(cmd: List[str], cwd: Optional[pathlib.Path] = None, timeout: int = 600) -> Tuple[int, str]:
    try:
        p = subprocess.run(cmd, cwd=str(cwd) if cwd else None, stdout=subprocess.PIPE, stderr=subprocess.STDOUT, text=True, timeout=timeout, errors="replace")
        return p.returncode, p.stdout
    except subprocess.TimeoutExpired:
        return 124, "timeout after %ds: %s" % (timeout, " ".join(cmd)[:200])


def gen_status(res: Dict[str, Any]) -> Tuple[str, str]:
    if res["exc"] is not None:
        return "gen_exception", "%s: %s (%s)" % (res["exc"]["type"], res["exc"]["msg"][:200], res["exc"]["frame"])
    if res["rc"] != 0:
        return "gen_rejected", res["stderr"][:400]
    return "ok", ""


def strip_prefix(cause: str) -> str:
    return cause[len(CAUSE_PREFIX):] if cause.startswith(CAUSE_PREFIX) else cause


_INC = re.compile(r'^\s*#include\s+"(dummy/[^"]+)"', re.M)


def unit_identity(src: pathlib.Path, include_root: pathlib.Path) -> str:
    """Digest of a translation unit and of the generated headers it (transitively) includes."""
    seen: Dict[str, bytes] = {}
    todo = [src]
    h = hashlib.sha1()
    first = True
    while todo:
        p = todo.pop()
        key = src.name if first else str(p.relative_to(include_root))
        first = False
        if key in seen:
            continue
        data = p.read_bytes()
        seen[key] = data
        for inc in _INC.findall(data.decode("utf-8", "replace")):
            q = include_root / inc
            if q.exists() and str(q.relative_to(include_root)) not in seen:
                todo.append(q)
    for key in sorted(seen):
        h.update(key.encode())
        h.update(seen[key])
    return h.hexdigest()[:20]


def main() -> None:
    cases_path, out_path, work = sys.argv[1], sys.argv[2], pathlib.Path(sys.argv[3])
    jobs = int(sys.argv[4]) if len(sys.argv) > 4 else 8
    core.assert_repo_bound()
    if not NLOHMANN.exists():
        raise SystemExit("nlohmann json headers not found")
    G = json.load(open(cases_path))
    work.mkdir(parents=True, exist_ok=True)
    inc = work / "inc"
    inc.mkdir(exist_ok=True)
    if not (inc / "nlohmann").exists():
        os.symlink(NLOHMANN, inc / "nlohmann")
    timings: Dict[str, Any] = {}
    t0 = time.time()

    # ---- 1. generate, observe Python, write driver sources -------------------------------------
    M: List[Dict[str, Any]] = []
    for entry in G["models"]:
        model = entry["model"]
        cl.selfcheck_model(model)
        name = model["name"]
        mdir = work / name
        text = mm.render(cl.to_mm(model))
        probes = {pr["name"]: pr["texts"] for pr in entry["probes"]}
        fams = [f for f in G["families"] if f["model"] == name]
        st: Dict[str, Any] = {"name": name, "model": model, "fams": fams, "dir": mdir, "text": text, "targets": {}, "obs": {}, "probes": probes, "want": list(entry["targets"])}
        M.append(st)
        # flat case lists for the drivers
        insts: List[Dict[str, Any]] = []
        docs: List[Tuple[str, Dict[str, Any]]] = []
        for f in fams:
            f["inst_off"] = len(insts)
            insts.extend(c["x"] for c in f["instances"])
            f["doc_off"] = len(docs)
            docs.extend((f["root"], d["doc"]) for d in f["docs"])
        st["n_inst"], st["n_docs"] = len(insts), len(docs)
        # Python
        pres = mm.generate_python_sdk(text, mdir / "py")
        s, d = gen_status(pres)
        if s == "ok" and pres.get("import_errors"):
            s, d = "import_failed", json.dumps(pres["import_errors"])[:400]
        st["targets"]["py"] = {"status": s, "detail": d}
        if s == "ok":
            ob = cl.PyObserver(model, pres["mods"])
            roots_i = [f["root"] for f in fams for _ in f["instances"]]
            st["obs"]["py"] = {
                "inst": [ob.observe_instance(r, x) for r, x in zip(roots_i, insts)],
                "docs": [ob.observe_doc(r, dc) for r, dc in docs],
                "consts": ob.observe_consts(),
                "enums": ob.observe_enums(probes),
            }
        mm.drop_sdk(pres)
        # documents are written as real JSON text (exact integers / float tokens)
        docs_text = "[" + ",".join('{"root":%s,"doc":%s}' % (json.dumps(r), cl.json_text(dc)) for r, dc in docs) + "]"
        driver_input = json.dumps({"instances": insts, "docs": "@@DOCS@@", "probes": probes})
        for target in ("cpp", "java"):
            if target not in st["want"]:
                st["targets"][target] = {"status": "not_built", "detail": "not built in this tier"}
                continue
            res = mm.generate_text(text, target, mdir / target)
            s, d = gen_status(res)
            st["targets"][target] = {"status": s, "detail": d}
            if s != "ok":
                continue
            tdir = mdir / target
            (tdir / "input.json").write_text(driver_input.replace('"@@DOCS@@"', docs_text if target == "cpp" else "[]"), encoding="utf-8")
            try:
                if target == "cpp":
                    (tdir / "driver.cpp").write_text(cd.cpp_driver(model), encoding="utf-8")
                else:
                    (tdir / "Driver.java").write_text(cd.java_driver(model), encoding="utf-8")
            except Exception as ex:  # naming modules of the repo raised
                st["targets"][target] = {"status": "gen_exception", "detail": "driver naming: %s: %s" % (type(ex).__name__, str(ex)[:200])}
    timings["generate_and_python"] = round(time.time() - t0, 2)

    # ---- 2. compile (parallel; identical translation units are compiled once) ------------------
    t1 = time.time()
    objdir = work / "obj"
    objdir.mkdir(exist_ok=True)
    cxx = ["g++", "-std=c++20", "-O0", "-w", "-I", str(SHIMS), "-isystem", str(inc)]
    # Translation units are grouped into a few "unity" chunks (one file including several generated sources):
    # the generated headers dominate the compile time.  If a chunk does not compile, its members are compiled
    # one by one, so that a failure is attributed to a generated unit (and a mere clash between units is not
    # mistaken for a defect of the generated code).
    CHUNKS = [["jsonization.cpp", "driver.cpp"], ["verification.cpp", "pattern.cpp", "revm.cpp", "iteration.cpp"]]
    unit_jobs: Dict[str, Tuple[List[str], pathlib.Path]] = {}
    model_chunks: Dict[str, List[Tuple[str, List[pathlib.Path]]]] = {}
    for st in M:
        if st["targets"]["cpp"]["status"] != "ok":
            continue
        out = st["dir"] / "cpp" / "out"
        # xmlization is outside the property (and needs expat)
        srcs = sorted(p for p in (out / "src").glob("*.cpp") if p.name != "xmlization.cpp") + [st["dir"] / "cpp" / "driver.cpp"]
        groups: List[List[pathlib.Path]] = [[p for p in srcs if p.name in names] for names in CHUNKS]
        groups.append([p for p in srcs if not any(p.name in names for names in CHUNKS)])
        chunks = []
        for gi, members in enumerate(g for g in groups if g):
            key = hashlib.sha1(" ".join(unit_identity(p, out / "include") for p in members).encode()).hexdigest()[:20]
            chunk_src = st["dir"] / "cpp" / ("chunk%d.cpp" % gi)
            chunk_src.write_text("".join('#include "%s"\n' % p for p in members))
            chunks.append((key, members))
            if key not in unit_jobs:
                unit_jobs[key] = (cxx + ["-I", str(out / "include"), "-c", str(chunk_src), "-o", str(objdir / (key + ".o"))], chunk_src)
        model_chunks[st["name"]] = chunks

    def run_unit(item: Tuple[str, Tuple[List[str], pathlib.Path]]) -> Tuple[str, int, str, float]:
        key, (cmd, _src) = item
        t = time.time()
        rc, outp = sh(cmd, timeout=1500)
        return key, rc, outp, time.time() - t

    def run_javac(st: Dict[str, Any]) -> Tuple[str, int, str]:
        out = st["dir"] / "java" / "out" / "src" / "main" / "java"
        # jsonization needs Jackson (absent here); xmlization is outside the property
        files = [str(p) for p in out.rglob("*.java") if "jsonization" not in p.parts and "xmlization" not in p.parts]
        classes = st["dir"] / "java" / "classes"
        classes.mkdir(exist_ok=True)
        rc, outp = sh(["javac", "-encoding", "UTF-8", "-nowarn", "-d", str(classes)] + files + [str(st["dir"] / "java" / "Driver.java")], timeout=1500)
        return st["name"], rc, outp

    unit_results: Dict[str, Tuple[int, str]] = {}
    java_results: Dict[str, Tuple[int, str]] = {}
    unit_secs = 0.0
    with concurrent.futures.ThreadPoolExecutor(max_workers=jobs) as ex:
        uf = [ex.submit(run_unit, it) for it in unit_jobs.items()]
        jf = [ex.submit(run_javac, st) for st in M if st["targets"]["java"]["status"] == "ok"]
        for fut in uf:
            key, rc, outp, secs = fut.result()
            unit_results[key] = (rc, outp)
            unit_secs += secs
        for fut in jf:
            name, rc, outp = fut.result()
            java_results[name] = (rc, outp)
    # fall back to single units for chunks that failed
    model_objs: Dict[str, List[Tuple[str, str]]] = {}
    for st in M:
        if st["name"] not in model_chunks:
            continue
        out = st["dir"] / "cpp" / "out"
        objs: List[Tuple[str, str]] = []
        for key, members in model_chunks[st["name"]]:
            if unit_results[key][0] == 0:
                objs.append(("+".join(p.name for p in members), key))
                continue
            singles = {}
            for p in members:
                k1 = unit_identity(p, out / "include") + "s"
                singles[k1] = (cxx + ["-I", str(out / "include"), "-c", str(p), "-o", str(objdir / (k1 + ".o"))], p)
            with concurrent.futures.ThreadPoolExecutor(max_workers=jobs) as ex:
                for k1, rc, outp, secs in ex.map(run_unit, singles.items()):
                    unit_results[k1] = (rc, outp)
                    unit_secs += secs
                    objs.append((singles[k1][1].name, k1))
        model_objs[st["name"]] = objs
    timings["compile"] = round(time.time() - t1, 2)
    timings["cpp_units"] = len(unit_jobs)
    timings["cpp_unit_seconds_sum"] = round(unit_secs, 1)

    # ---- 3. link + run ---------------------------------------------------------------------------
    t2 = time.time()

    def link_and_run_cpp(st: Dict[str, Any]) -> None:
        bad = [(n, unit_results[k][1]) for n, k in model_objs[st["name"]] if unit_results[k][0] != 0]
        if bad:
            st["targets"]["cpp"] = {"status": "compile_failed", "detail": "%s: %s" % (bad[0][0], bad[0][1][:600]), "unit": bad[0][0]}
            return
        exe = st["dir"] / "cpp" / "driver"
        rc, outp = sh(["g++", "-o", str(exe)] + [str(objdir / (k + ".o")) for _, k in model_objs[st["name"]]], timeout=900)
        if rc != 0:
            st["targets"]["cpp"] = {"status": "compile_failed", "detail": "link: " + outp[:600], "unit": "link"}
            return
        p = subprocess.run([str(exe), str(st["dir"] / "cpp" / "input.json")], stdout=subprocess.PIPE, stderr=subprocess.PIPE, timeout=900)
        if p.returncode != 0:
            st["targets"]["cpp"] = {"status": "run_failed", "detail": "rc=%d %s" % (p.returncode, p.stderr.decode("utf-8", "replace")[:400])}
            return
        st["raw_cpp"] = p.stdout.decode("utf-8")

    def run_java(st: Dict[str, Any]) -> None:
        rc, outp = java_results[st["name"]]
        if rc != 0:
            unit = "Driver.java"
            for line in outp.splitlines():
                if ".java:" in line and "error" in line:
                    unit = pathlib.Path(line.split(".java:")[0] + ".java").name
                    break
            st["targets"]["java"] = {"status": "compile_failed", "detail": outp[:600], "unit": unit}
            return
        p = subprocess.run(["java", "-Xss16m", "-cp", str(st["dir"] / "java" / "classes"), "Driver", str(st["dir"] / "java" / "input.json")], stdout=subprocess.PIPE, stderr=subprocess.PIPE, timeout=900)
        if p.returncode != 0:
            st["targets"]["java"] = {"status": "run_failed", "detail": "rc=%d %s" % (p.returncode, p.stderr.decode("utf-8", "replace")[:400])}
            return
        st["raw_java"] = p.stdout.decode("utf-8")

    with concurrent.futures.ThreadPoolExecutor(max_workers=jobs) as ex:
        futs = []
        for st in M:
            if st["targets"]["cpp"]["status"] == "ok":
                futs.append(ex.submit(link_and_run_cpp, st))
            if st["targets"]["java"]["status"] == "ok":
                futs.append(ex.submit(run_java, st))
        for fut in futs:
            fut.result()
    timings["link_and_run"] = round(time.time() - t2, 2)

    # ---- 4. decode the driver outputs ------------------------------------------------------------
    for st in M:
        model = st["model"]
        names = {}
        for c in model["classes"]:
            for p in c["props"]:
                names[cl.norm_name(p["name"])] = p["name"]
        st["names"] = names
        for target in ("cpp", "java"):
            raw = st.get("raw_" + target)
            if raw is None:
                continue
            o: Dict[str, Any] = {"inst": [], "docs": [], "consts": [], "enums": []}
            for line in raw.splitlines():
                if not line.strip():
                    continue
                r = json.loads(line)
                if r["kind"] == "inst":
                    o["inst"].append(
                        {
                            "built": r["built"],
                            "verified": r["verified"],
                            "errors": cd.decode_errors(r["errors"]),
                            "serialized": r["serialized"],
                            "json": cl.project_json(r["json"]) if r["serialized"] else {"k": "null"},
                            "exc": r["exc"][:300],
                        }
                    )
                elif r["kind"] == "doc":
                    o["docs"].append({"accepted": r["accepted"], "json": cl.project_json(r["json"]) if r["accepted"] and r["json"] is not None else {"k": "null"}, "exc": r["exc"][:300], "msg": cl.from_cps(r["msg"])[:200]})
                elif r["kind"] == "consts":
                    o["consts"] = [{"name": c["name"], "ok": True, "value": cd.decode_const(target, c), "exc": ""} for c in r["values"]]
                elif r["kind"] == "enums":
                    o["enums"] = [{"name": e["name"], "texts": cd.decode_enum_texts(target, e["texts"]), "parsed": e["parsed"]} for e in r["values"]]
            if len(o["inst"]) != st["n_inst"] or (target == "cpp" and len(o["docs"]) != st["n_docs"]):
                raise SystemExit("driver %s/%s printed %d+%d records for %d+%d cases" % (st["name"], target, len(o["inst"]), len(o["docs"]), st["n_inst"], st["n_docs"]))
            st["obs"][target] = o

    # ---- 5. records for V --------------------------------------------------------------------------
    def norm_inst(st: Dict[str, Any], target: str, i: int) -> Dict[str, Any]:
        o = st["obs"].get(target)
        if o is None:
            return {"present": False, "built": False, "verified": False, "errors": [], "serialized": False, "hasjson": False, "json": {"k": "null"}, "exc": ""}
        r = dict(o["inst"][i])
        r["present"] = True
        r["hasjson"] = target != "java"
        r["errors"] = [{"path": [st["names"].get(s, s) for s in e["path"]], "cause": strip_prefix(e["cause"])} for e in r["errors"]]
        return r

    def norm_doc(st: Dict[str, Any], target: str, i: int) -> Dict[str, Any]:
        o = st["obs"].get(target)
        if o is None or target == "java":
            return {"present": False, "accepted": False, "json": {"k": "null"}, "exc": "", "msg": ""}
        r = dict(o["docs"][i])
        r["present"] = True
        return r

    records: List[Dict[str, Any]] = []
    for st in M:
        name = st["name"]
        for target in ("py", "cpp", "java"):
            t = st["targets"][target]
            records.append({"kind": "build", "model": name, "fam": "", "target": target, "status": t["status"], "unit": t.get("unit", ""), "detail": t["detail"][:600]})
        if "py" not in st["obs"]:
            continue
        for f in st["fams"]:
            for i, c in enumerate(f["instances"]):
                q = f["inst_off"] + i
                records.append({"kind": "inst", "model": name, "fam": f["name"], "x": c["x"], "feats": c["feats"], "py": norm_inst(st, "py", q), "cpp": norm_inst(st, "cpp", q), "java": norm_inst(st, "java", q)})
            for i, dc in enumerate(f["docs"]):
                q = f["doc_off"] + i
                records.append({"kind": "doc", "model": name, "fam": f["name"], "doc": dc["doc"], "mut": dc["mut"], "at": dc["at"], "loc": dc["loc"], "py": norm_doc(st, "py", q), "cpp": norm_doc(st, "cpp", q), "java": norm_doc(st, "java", q)})

        def tab(target: str, what: str) -> Dict[str, Any]:
            o = st["obs"].get(target)
            return {"present": o is not None, "values": o[what] if o is not None else []}

        if st["model"]["consts"]:
            records.append({"kind": "consts", "model": name, "fam": "", "py": tab("py", "consts"), "cpp": tab("cpp", "consts"), "java": tab("java", "consts")})
        if st["model"]["enums"]:
            records.append({"kind": "enums", "model": name, "fam": "", "probes": [{"name": k, "texts": v} for k, v in st["probes"].items()], "py": tab("py", "enums"), "cpp": tab("cpp", "enums"), "java": tab("java", "enums")})
    timings["total"] = round(time.time() - t0, 2)
    json.dump({"records": records, "timings": timings, "texts": {st["name"]: st["text"] for st in M}}, open(out_path, "w"))
    # the build directories are large: remove them right away
    for st in M:
        shutil.rmtree(st["dir"], ignore_errors=True)
    shutil.rmtree(objdir, ignore_errors=True)


if __name__ == "__main__":
    main()
