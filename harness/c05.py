"""C05 -- the intermediate model faithfully resolves inheritance.

M: MC_HierarchyAlgo (the front end's algorithm, repaired and pinned design, model-checked against the clauses
   of Hierarchy.tla; the DFS on all digraphs)
G: HierarchyGen (every DAG-shaped hierarchy with <= N classes x flags x members x names x constructor styles)
R: run_c05 (render -> run.load_model -> projection of the intermediate symbol table); also the repository's own
   meta-models (code -> spec), whose source hierarchy is read by an independent `ast` reader
V: HierarchyTrace (one named TLC invariant per clause -- per clause and source-level explanation for the
   clauses about repeats -- on every accepted observation)
"""
import concurrent.futures
import hashlib
import json
import os
import pathlib
import random
import re

from harness import core, hier

PROCS = int(os.environ.get("VERIF_PROCS", "8"))
TLC_FIELDS = ("outcome", "h", "o", "gen")


def real_entries(quick: bool):
    """code -> spec inputs: the nine common meta-models and every other meta-model text of the test data."""
    td = core.REPO / "dev" / "test_data"
    out, seen = [], set()
    paths = sorted((td / "common_meta_models").glob("*.py")) + sorted(td.rglob("meta_model.py"))
    for p in paths:
        try:
            text = p.read_text(encoding="utf-8")
        except Exception:
            continue
        d = hashlib.sha1(text.encode()).hexdigest()
        if d in seen:
            continue
        seen.add(d)
        try:
            hier.extract_hierarchy(text)
        except SyntaxError:
            continue
        out.append({"path": str(p), "part": "real"})
    return out


def run_r(ck, entries, tag):
    """R in PROCS parallel fresh interpreters; returns the observation records in the order of entries."""
    n = max(1, min(PROCS, (len(entries) + 199) // 200))
    # interleave so that heavy entries (large real models) spread over the workers
    chunks = [entries[i::n] for i in range(n)]
    results = [None] * n

    def one(i):
        wd = ck.work / ("r-%s-%d" % (tag, i))
        wd.mkdir(parents=True, exist_ok=True)
        ip, op = wd / "in.json", wd / "out.json"
        core.write_json(ip, chunks[i])
        core.run_impl("harness.run_c05", [str(ip), str(op)], workdir=wd, timeout=3000)
        results[i] = core.read_json(op)

    with concurrent.futures.ThreadPoolExecutor(max_workers=n) as ex:
        for f in [ex.submit(one, i) for i in range(n)]:
            f.result()
    out = [None] * len(entries)
    for i in range(n):
        for j, rec in enumerate(results[i]):
            out[i + j * n] = rec
    return out


def run_v(ck, obs, chunk):
    """V: TLC checks every clause on every accepted observation.  Returns {index: [clause, ...]} and counters."""
    nchunks = max(1, (len(obs) + chunk - 1) // chunk)
    size = (len(obs) + nchunks - 1) // nchunks
    parts = [(off, obs[off : off + size]) for off in range(0, len(obs), size)]
    violated = {}
    counts = [0] * 7

    def one(k):
        off, part = parts[k]
        pp = ck.work / ("obs-%d.json" % k)
        pp.write_text(json.dumps([{f: r[f] for f in TLC_FIELDS} for r in part], separators=(",", ":")))
        return ck.tlc("HierarchyTrace", what="V: observed intermediate model satisfies the clauses (chunk %d)" % k, env={"VERIF_OBS": str(pp)}, cont=True, workers=4, timeout=2400, jvm=("-Xms1g", "-Xmx6g"))

    with concurrent.futures.ThreadPoolExecutor(max_workers=2) as ex:
        results = list(ex.map(one, range(len(parts))))
    for k, res in enumerate(results):
        off, part = parts[k]
        seen_counts = False
        for line in res.printed:
            m = re.search(r"counts\", (\d+), (\d+), (\d+), (\d+), (\d+), (\d+), (\d+)", line)
            if m:
                seen_counts = True
                for j in range(7):
                    counts[j] += int(m.group(j + 1))
        if not seen_counts:
            raise core.MachineryFailure("HierarchyTrace printed no counters")
        for v in res.violations:
            i = res.var_of(v, "i")
            if i is None or not v["invariant"].startswith("Inv_"):
                raise core.MachineryFailure("cannot read TLC violation: %r" % v)
            violated.setdefault(off + int(i) - 1, []).append(v["invariant"][4:])
    return violated, counts


def main() -> int:
    ck = core.Check("C05", "model_checking")
    rnd = random.Random(ck.seed)
    replay = os.environ.get("VERIF_REPLAY")
    suffix = "" if ck.quick else "_thorough"
    n_spec = n_skipped = 0
    if replay:
        entries = [json.loads(pathlib.Path(replay).read_text())["case"]["entry"]]
    else:
        # M: design level
        ck.model_check("MC_HierarchyAlgo", "MC_HierarchyAlgo%s.cfg" % suffix, "repaired design (order-preserving de-duplication) satisfies every clause", workers=PROCS, timeout=1500)
        ck.model_check("MC_HierarchyAlgo", "MC_HierarchyAlgo_pinned%s.cfg" % suffix, "pinned design: right without diamonds, only repeats wrong, every diamond repeats", workers=PROCS, timeout=1500)
        ck.model_check("MC_HierarchyAlgo", "MC_HierarchySort%s.cfg" % suffix, "DFS sort on all digraphs: cycle detected iff cyclic, result topological", workers=PROCS, timeout=1500)
        # G
        cases_p = ck.work / "cases.json"
        ck.tlc("HierarchyGen", "HierarchyGen%s.cfg" % suffix, what="G: DAG-shaped hierarchies", env={"VERIF_OUT": str(cases_p)}, count=False, timeout=1500, jvm=("-Xms1g", "-Xmx8g"))
        cases = core.read_json(cases_p)
        n_gen = len(cases)
        # the quantifier: declaration orders consistent with Python (C3 linearisation must exist)
        ok = [c for c in cases if hier.python_accepts_hierarchy(c["h"])]
        n_skipped = n_gen - len(ok)
        cases = ok
        cap = 8000 if ck.quick else 60000
        if len(cases) > cap:
            small = [c for c in cases if c["h"]["n"] <= 4]
            big = [c for c in cases if c["h"]["n"] > 4]
            rnd.shuffle(big)
            cases = small + big[: max(0, cap - len(small))]
        n_spec = len(cases)
        entries = [{"case": c} for c in cases] + real_entries(ck.quick)
    # R
    obs = run_r(ck, entries, "main")
    for r, e in zip(obs, entries):
        r["gen"] = "case" in e
    bad = [r for r in obs if not r["extract_ok"]]
    if bad:
        raise core.MachineryFailure("the independent reader of the source hierarchy disagrees with the generated case (renderer or reader wrong): %s" % bad[0]["extract_diff"][:600])
    # V
    violated, counts = run_v(ck, obs, 2500 if ck.quick else 8000)
    n_obs, n_acc, n_nontrivial, n_diamond, n_exp_refused, n_refused_but_accepted, n_ok_but_refused = counts
    # one violation per (observation, clause); the fingerprint <clause>__<explanation> is the name of the
    # invariant TLC found violated (computed by the spec: Hierarchy!Explanation)
    for i in sorted(violated):
        r, e = obs[i], entries[i]
        for inv in violated[i]:
            clause, _, expl = inv.partition("__")
            key = {"clause": clause, "explained_by": expl or "none", "kind": "cprim" if all(x == "cprim" for x in r["h"]["kind"]) else "class"}
            case = {"entry": e, "h": r["h"], "names": r["names"], "text": hier.render_case(e["case"]) if "case" in e else e.get("path")}
            ck.violation(key, clause, case, r["o"], detail="%s part=%s bases=%s" % (r["src"] or "generated", r["part"], r["h"]["bases"] if r["h"]["n"] <= 8 else "(%d types)" % r["h"]["n"]))
    # evidence
    ck.cov["evaluations"] = n_obs
    ck.cov["traces_validated_against_impl"] = n_acc
    ck.cov["distinct_nontrivial"] = n_nontrivial
    ck.cov["rule"] = (
        "G: every DAG-shaped hierarchy of HierarchyCases.tla (parts A abstract flags, B names, C with_model_type, D members x base order x "
        "constructor style, E constrained primitives, F mixed, H constructor written twice) whose class statements Python itself accepts "
        "(%d TLC-generated, %d not valid Python and skipped), plus %d meta-models of dev/test_data read by an independent ast reader; "
        "non-trivial = accepted by the front end and at least one class has an ancestor" % (n_spec, n_skipped, len(entries) - n_spec)
    )
    ck.cov["exhaustive"] = ck.quick or n_spec < 60000
    ck.cov["accepted"] = n_acc
    ck.cov["accepted_with_diamond"] = n_diamond
    ck.cov["source_reading_expects_refusal"] = n_exp_refused
    ck.cov["expected_refusal_but_accepted"] = n_refused_but_accepted
    ck.cov["generated_expected_accepted_but_not"] = n_ok_but_refused
    ck.cov["by_part"] = {}
    for r in obs:
        d = ck.cov["by_part"].setdefault(r["part"], {"accepted": 0, "rejected": 0, "exception": 0})
        d[r["outcome"]] += 1
    picks = [obs[len(obs) // 3], obs[len(obs) // 2], obs[-1]] if len(obs) >= 3 else obs
    ck.cov["samples"] = [{"src": r["src"], "part": r["part"], "h": r["h"] if r["h"]["n"] <= 6 else {"n": r["h"]["n"]}, "outcome": r["outcome"], "o": r["o"] if r["h"]["n"] <= 6 else "(large)"} for r in picks]
    ck.assumptions += [
        "TLC, SANY, CommunityModules Json; CPython's ast and type() (C3 linearisation) to read the source hierarchy and to decide which declaration orders are Python",
        "own invariants may be stored in textual or in decorator-application order; everything else as written in Hierarchy.tla",
    ]
    if n_exp_refused and n_refused_but_accepted:
        ck.notes.append("%d model(s) were accepted although the source-level reading (cycle / inconsistent with_model_type / method clash) expects refusal; not a C05 matter (see C06)" % n_refused_but_accepted)
    if not replay and (n_nontrivial == 0 or n_diamond == 0):
        raise core.MachineryFailure("vacuous run: accepted non-trivial=%d diamonds=%d" % (n_nontrivial, n_diamond))
    if n_ok_but_refused:
        ck.notes.append("%d generated hierarchies without a source-level reason for refusal were not accepted" % n_ok_but_refused)
    rc = ck.finish()
    # violations are reported first (exit 1); a partly vacuous run without violations is a machinery failure
    if n_ok_but_refused and not replay and rc == 0:
        cands = [r for r in obs if r["gen"] and r["outcome"] != "accepted"]
        first = next((r for r in cands if r["outcome"] == "exception"), cands[0] if cands else obs[0])
        raise core.MachineryFailure(
            "%d generated hierarchies were not accepted although no source-level reason for a refusal applies (cycle, inconsistent "
            "with_model_type, method clash, property assigned twice): that part of the case space is not being checked, the run would be "
            "partly vacuous.  C05 itself is conditional on acceptance (crashes are C01's matter).  First: outcome=%s bases=%s %s %s"
            % (n_ok_but_refused, first["outcome"], first["h"]["bases"], first["error"][-200:], first["exc"][:300])
        )
    return rc
