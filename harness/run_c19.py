"""R phase of C19: call every literal emitter of every target on every string.

usage: python -m harness.run_c19 <cases.json> <obs.json>
cases: list of strings, each a list of code points. obs: one record per (emitter, string) in the emitter's
documented domain: {"kind", "emitter", "orig", "outcome": "ok"|"exception", "text": code points, "exc"}.
Besides, a few generator-level cases (values a target cannot represent) are generated for real and observed
as {"kind": "generator", ...,"outcome": "generated"|"reported"|"exception"}.
"""
import json
import os
import pathlib
import sys

from harness import core


def in_domain(kind: str, s: str) -> bool:
    if kind == "py_bytes" or kind.endswith("_bytes"):
        return all(ord(c) <= 255 for c in s)
    if kind == "cpp_str":
        # documented pre-condition of cpp.common.string_literal: ASCII only
        return all(ord(c) <= 127 for c in s)
    if kind == "cpp_wchar":
        # wchar_literal documents the surrogate code points; exactly one character
        return len(s) == 1
    # no other emitter documents support for lone surrogates (they cannot even be written to a UTF-8 file)
    return not any(0xD800 <= ord(c) <= 0xDFFF for c in s)


def emitters():
    from aas_core_codegen.python import common as py
    from aas_core_codegen.cpp import common as cpp
    from aas_core_codegen.csharp import common as cs
    from aas_core_codegen.java import common as java
    from aas_core_codegen.typescript import common as ts
    from aas_core_codegen.golang import common as go

    def b(s: str) -> bytes:
        return bytes(ord(c) for c in s)

    out = [
        ("py_str", "python.string_literal", lambda s: py.string_literal(s)),
        ("py_str", "python.string_literal[double]", lambda s: py.string_literal(s, quoting=py.StringQuoting.DOUBLE_QUOTES)),
        ("py_str", "python.string_literal[single]", lambda s: py.string_literal(s, quoting=py.StringQuoting.SINGLE_QUOTES)),
        # the f-string flavour: the callers put it behind an f prefix
        ("py_fstr", "python.string_literal[curly]", lambda s: "f" + py.string_literal(s, quoting=py.StringQuoting.DOUBLE_QUOTES, duplicate_curly_brackets=True)),
        ("py_bytes", "python.bytes_literal", lambda s: py.bytes_literal(b(s))[0]),
        ("cpp_wstr", "cpp.wstring_literal", lambda s: cpp.wstring_literal(s)),
        ("cpp_str", "cpp.string_literal", lambda s: cpp.string_literal(s)),
        ("cpp_wchar", "cpp.wchar_literal", lambda s: cpp.wchar_literal(s)),
        ("cpp_bytes", "cpp.bytes_literal", lambda s: cpp.bytes_literal(b(s))[0]),
        ("cs_str", "csharp.string_literal", lambda s: cs.string_literal(s)),
        ("java_str", "java.string_literal", lambda s: java.string_literal(s)),
        ("ts_str", "typescript.string_literal", lambda s: ts.string_literal(s)),
        ("ts_tmpl", "typescript.string_literal[backticks]", lambda s: ts.string_literal(s, in_backticks=True)),
        ("ts_bytes", "typescript.bytes_literal", lambda s: ts.bytes_literal(b(s))[0]),
        ("go_str", "golang.string_literal", lambda s: go.string_literal(s)),
        ("go_bytes", "golang.bytes_literal", lambda s: go.bytes_literal(b(s))[0]),
    ]
    return out


def generator_cases(scratch: pathlib.Path):
    """Values a target cannot represent with the emitter it uses: the generator has to report, not crash or lie."""
    from harness import mm

    obs = []
    # C++ renders enumeration literal values with the narrow, ASCII-only string_literal
    for label, value in [("cpp enum literal value with a Latin-1 letter", "Réd"), ("cpp enum literal value, ASCII (control)", "Red")]:
        model = {
            "items": [
                {"kind": "enum", "name": "Color", "literals": [["Red", value], ["Green", "GREEN"]], "doc": "Enum."},
                {"kind": "class", "name": "Something", "props": [{"name": "color", "type": "Optional[Color]"}], "doc": "Class."},
            ]
        }
        res = mm.generate_text(mm.render(model), "cpp", scratch / "gen")
        if res["exc"] is not None:
            outcome, exc = "exception", "%s at %s" % (res["exc"]["type"], res["exc"]["frame"])
        elif res["rc"] == 0:
            outcome, exc = "generated", ""
        else:
            outcome, exc = "reported", ""
        obs.append({"kind": "generator", "emitter": "cpp enumeration literal", "orig": core.cps(value), "outcome": outcome, "text": [], "exc": exc, "what": label})
    return obs


def main() -> None:
    cases_path, out_path = sys.argv[1], sys.argv[2]
    core.assert_repo_bound()
    cases = [core.from_cps(c) for c in json.load(open(cases_path))]
    ems = emitters()
    obs = []
    for kind, name, fn in ems:
        seen = set()
        for s in cases:
            if not in_domain(kind, s):
                continue
            if len(s) > 100 and kind not in ("cpp_wstr", "cpp_str"):
                # the long strings are about the length limits of C++ literals
                continue
            if kind.endswith("bytes") and s in seen:
                continue
            seen.add(s)
            try:
                text = fn(s)
                obs.append({"kind": kind, "emitter": name, "orig": core.cps(s), "outcome": "ok", "text": core.cps(text), "exc": ""})
            except Exception as ex:  # an observation
                obs.append({"kind": kind, "emitter": name, "orig": core.cps(s), "outcome": "exception", "text": [], "exc": "%s: %s" % (type(ex).__name__, str(ex)[:120])})
    obs.extend(generator_cases(pathlib.Path(os.environ["TMPDIR"]) / "c19gen"))
    json.dump(obs, open(out_path, "w"))


if __name__ == "__main__":
    main()
