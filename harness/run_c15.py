"""R phase of C15: render every scenario, run.load_model, infer_for_schema.infer_constraints_by_class, project.

usage: python -m harness.run_c15 <scenarios.json> <obs.json> [nproc]
Each worker process uses its own TMPDIR below the private TMPDIR given by core.Check.impl.
"""
import json
import multiprocessing
import os
import pathlib
import sys
import tempfile

from harness import core


def _init_worker() -> None:
    base = pathlib.Path(os.environ["TMPDIR"]) / ("w%d" % os.getpid())
    base.mkdir(parents=True, exist_ok=True)
    os.environ["TMPDIR"] = str(base)
    tempfile.tempdir = None


def _one(scn):
    from harness import schema_scen

    scratch = pathlib.Path(os.environ["TMPDIR"]) / "scn"
    try:
        obs = schema_scen.observe_inference(scn, scratch)
    except Exception as ex:  # harness problem: reported as such, never as an observation of the repo
        obs = {"outcome": "harness_error", "levels": [], "nerr": 0, "msg": "%s: %s" % (type(ex).__name__, str(ex)[:300]), "exc": "", "frame": ""}
    obs["scn"] = scn
    return obs


def main() -> None:
    cases_path, out_path = sys.argv[1], sys.argv[2]
    nproc = int(sys.argv[3]) if len(sys.argv) > 3 else 8
    core.assert_repo_bound()
    scns = json.load(open(cases_path))
    if nproc <= 1 or len(scns) < 50:
        _init_worker()
        obs = [_one(s) for s in scns]
    else:
        with multiprocessing.get_context("fork").Pool(nproc, initializer=_init_worker) as pool:
            obs = pool.map(_one, scns, chunksize=max(1, len(scns) // (nproc * 8)))
    json.dump(obs, open(out_path, "w"))


if __name__ == "__main__":
    main()
