"""R phase of C11 / C12: for every scenario generate schema.json (--target jsonschema) and the Python SDK, build the
documents of the spec's cases through the SDK, validate them with jsonschema under the UTF-16 pattern convention.

usage: python -m harness.run_schema_docs <in.json> <out.json> <valid|viol> [nproc]
in:  [{"scn":..., "valid":[case..], "viol":[case..]}, ...]
out: {"schemas": [per scenario record], "cases": [per case record]}
"""
import json
import multiprocessing
import os
import pathlib
import sys
import tempfile

from harness import core


def _init_worker() -> None:
    base = pathlib.Path(os.environ["TMPDIR"]) / ("w%d" % os.getpid())
    base.mkdir(parents=True, exist_ok=True)
    os.environ["TMPDIR"] = str(base)
    tempfile.tempdir = None


def _one(args):
    entry, which = args
    from harness import mm, schema_docs, schema_scen

    scn = entry["scn"]
    scratch = pathlib.Path(os.environ["TMPDIR"])
    srec = {"scn": scn, "origin": "spec", "gen": "", "draft_ok": False, "refs_ok": False, "sdk": "", "msg": "", "ncases": 0}
    out = []
    if "corpus" in entry:
        return _corpus(entry, which, srec, scratch)
    try:
        text = schema_scen.render(scn)
        sdk_text = text
        snippets = None
        impl = scn.get("impl") or 0
        if impl:
            # Ck is @implementation_specific: its JSON definition comes from a snippet. The snippet is what the generator
            # itself emits for the same class in the twin model without the marker; the documents are produced by the
            # SDK of the twin model (the Python classes of an implementation-specific class are hand-written snippets
            # anyway, and serialize exactly like the generated ones).
            sdk_text = schema_scen.render(dict(scn, impl=0))
            g0 = mm.generate_text(sdk_text, "jsonschema", scratch / "js0", root_class="Something")
            if g0["exc"] is not None or g0["rc"] != 0:
                srec.update({"gen": "exception" if g0["exc"] is not None else "failed", "msg": "twin: " + (json.dumps(g0["exc"]) if g0["exc"] else g0["stderr"])[-300:]})
                return srec, out
            defs0 = json.loads((pathlib.Path(g0["out_dir"]) / "schema.json").read_text(encoding="utf-8"))["definitions"]
            name = "C%d" % impl
            snippets = {name + ".json": json.dumps({name: defs0[name]}, indent=2)}
        g = mm.generate_text(text, "jsonschema", scratch / "js", snippets=snippets, root_class="Something")
        if g["exc"] is not None:
            srec.update({"gen": "exception", "msg": json.dumps(g["exc"])[:300]})
            return srec, out
        if g["rc"] != 0:
            srec.update({"gen": "failed", "msg": g["stderr"][-300:]})
            return srec, out
        schema = json.loads((pathlib.Path(g["out_dir"]) / "schema.json").read_text(encoding="utf-8"))
        srec["gen"] = "ok"
        m = schema_docs.declared_draft_ok(schema)
        srec["draft_ok"] = m is None
        bad = schema_docs.unresolved_refs(schema)
        srec["refs_ok"] = not bad
        srec["msg"] = (m or "") + (" unresolved: %s" % bad[:3] if bad else "")
        if not srec["draft_ok"]:
            return srec, out
        validator = schema_docs.validator_for(schema)
        sdk = mm.generate_python_sdk(sdk_text, scratch / "py")
        try:
            if sdk["rc"] != 0 or sdk.get("import_errors") or not all(k in sdk["mods"] for k in ("types", "verification", "jsonization")):
                srec["sdk"] = "failed"
                srec["msg"] += " sdk: %s %s" % (sdk["stderr"][-200:], json.dumps(sdk.get("import_errors", sdk["exc"]))[:200])
                return srec, out
            srec["sdk"] = "ok"
            for case in entry[which]:
                rec = {"scn": scn, "case": case, "origin": "spec", "declared": "", "sdk_valid": False, "accepted": False, "msg": ""}
                value_level = dict(case)
                structural = case["mut"] in ("mt_wrong", "mt_missing", "req_missing", "root_req_missing", "mistyped")
                doc, sdk_valid = schema_docs.build_document(scn, value_level, sdk["mods"])
                rec["sdk_valid"] = bool(sdk_valid)
                if structural:
                    doc = schema_docs.mutate_structurally(doc, case["mut"], scn)
                    if doc is None:
                        continue  # nothing to remove in this document (e.g. no modelType is serialised)
                err = next(iter(validator.iter_errors(doc)), None)
                rec["accepted"] = err is None
                rec["msg"] = ("" if err is None else "%s @ %s" % (err.message[:160], "/".join(str(p) for p in err.absolute_path)))
                rec["doc"] = json.dumps(doc, ensure_ascii=True)[:300]
                out.append(rec)
        finally:
            mm.drop_sdk(sdk)
    except Exception as ex:  # harness problem
        srec.update({"gen": "harness_error", "msg": "%s: %s" % (type(ex).__name__, str(ex)[:300])})
    srec["ncases"] = len(out)
    return srec, out


CORPUS_CASE = {"k": 1, "mut": "corpus", "xnone": False, "n": 0, "il": 0, "ch": "b", "ynone": True}


def _corpus(entry, which, srec, scratch):
    """code -> spec direction: a meta-model of the repository's own test corpus and its hand-written example documents."""
    from harness import mm, schema_docs

    c = entry["corpus"]
    srec["origin"] = "corpus:" + c["name"]
    out = []
    try:
        g = mm.generate(pathlib.Path(c["model_path"]), "jsonschema", pathlib.Path(c["snippets_dir"]), scratch / "corpus_out")
        if g["exc"] is not None or g["rc"] != 0:
            srec.update({"gen": "exception" if g["exc"] is not None else "failed", "msg": (json.dumps(g["exc"]) if g["exc"] else g["stderr"])[-300:]})
            return srec, out
        schema = json.loads((scratch / "corpus_out" / "schema.json").read_text(encoding="utf-8"))
        srec["gen"] = "ok"
        m = schema_docs.declared_draft_ok(schema)
        bad = schema_docs.unresolved_refs(schema)
        srec.update({"draft_ok": m is None, "refs_ok": not bad, "msg": (m or "") + (" unresolved: %s" % bad[:3] if bad else "")})
        if m is None:
            validator = schema_docs.validator_for(schema)
            for pth in c["expected" if which == "valid" else "unexpected"]:
                doc = json.loads(pathlib.Path(pth).read_text(encoding="utf-8"))
                err = next(iter(validator.iter_errors(doc)), None)
                out.append({"scn": entry["scn"], "case": dict(CORPUS_CASE), "origin": srec["origin"], "declared": "valid" if which == "valid" else "invalid", "sdk_valid": False, "accepted": err is None, "msg": "" if err is None else err.message[:160], "doc": pth[-120:]})
    except Exception as ex:
        srec.update({"gen": "harness_error", "msg": "%s: %s" % (type(ex).__name__, str(ex)[:300])})
    srec["ncases"] = len(out)
    return srec, out


def main() -> None:
    in_path, out_path, which = sys.argv[1], sys.argv[2], sys.argv[3]
    nproc = int(sys.argv[4]) if len(sys.argv) > 4 else 8
    core.assert_repo_bound()
    entries = json.load(open(in_path))
    work = [(e, which) for e in entries]
    if nproc <= 1 or len(work) < 20:
        _init_worker()
        res = [_one(w) for w in work]
    else:
        with multiprocessing.get_context("fork").Pool(nproc, initializer=_init_worker) as pool:
            res = pool.map(_one, work, chunksize=max(1, len(work) // (nproc * 8)))
    json.dump({"schemas": [r[0] for r in res], "cases": [c for r in res for c in r[1]]}, open(out_path, "w"))


if __name__ == "__main__":
    main()
