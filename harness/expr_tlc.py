"""Helpers of the `expr` group for reading TLC's output (flat records printed in violation states)."""
from __future__ import annotations

import re
from typing import Any, Dict


def parse_flat_record(text: str) -> Dict[str, Any]:
    """`[a |-> 1, b |-> "x", c |-> TRUE]` (no nesting) -> dict."""
    out: Dict[str, Any] = {}
    for m in re.finditer(r'(\w+) \|-> ("(?:[^"\\]|\\.)*"|-?\d+|TRUE|FALSE)', text):
        v = m.group(2)
        if v.startswith('"'):
            out[m.group(1)] = v[1:-1]
        elif v in ("TRUE", "FALSE"):
            out[m.group(1)] = v == "TRUE"
        else:
            out[m.group(1)] = int(v)
    return out


def step_violations(stdout: str):
    """Violations reported by the two-step trace specs (Init picks observation i, Next computes verdict v):
    `Error: Invariant X is violated.` followed by a two-state behaviour. Returns [{"invariant", "i", "v": text}]
    taken from the last state of each behaviour."""
    out = []
    for m in re.finditer(r"Error: Invariant (\w+) is violated\.\nError: The behavior up to this point is:\n(.*?)(?=\nError: |\n\d+ states generated|\nFinished |\nProgress|\Z)", stdout, re.S):
        states = re.split(r"\nState \d+: [^\n]*\n", "\n" + m.group(2))
        last = states[-1]
        mi = re.search(r"/\\ i = (\d+)", last)
        mv = re.search(r"/\\ v = (.*?)(?=\n/\\ |\n\n|\Z)", last, re.S)
        if mi is None or mv is None:
            raise ValueError("cannot read a violation trace:\n" + m.group(0)[:2000])
        out.append({"invariant": m.group(1), "i": int(mi.group(1)), "v": mv.group(1).strip()})
    n = len(re.findall(r"Error: Invariant \w+ is violated", stdout))
    if n != len(out):
        raise ValueError("read %d of %d violation reports" % (len(out), n))
    return out
