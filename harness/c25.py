"""C25 — the snippet directory is loaded exactly.

G: SnippetsGen (TLC: every single-entry tree over name classes x nesting x content classes, and pseudo-random
   trees of 2..4 entries, all with the base snippet the target needs).
R: harness.run_c25 — the tree is materialised under the check's work directory; read_from_directory and
   main.execute (jsonschema, a tiny valid model) are observed. S: the spec's byte/text table of the content
   classes is compared with CPython's UTF-8 decoder (a disagreement is a machinery failure).
V: SnippetsTrace — Inv_NoException, Inv_FailsWhenItMust, Inv_LoadsWhenItCan, Inv_KeysExact, Inv_ValuesStripped,
   Inv_ErrorsNameFiles, Inv_MainFailsWithReport, Inv_MainSucceeds.
"""
import json
import os
import pathlib
import random
import re
from typing import Any, Dict, List

from harness import core

JVM = ("-Xmx4g", "-XX:ParallelGCThreads=4")
PRIORITY = ["Inv_NoException", "Inv_FailsWhenItMust", "Inv_LoadsWhenItCan", "Inv_KeysExact", "Inv_ValuesStripped", "Inv_ErrorsNameFiles", "Inv_MainFailsWithReport", "Inv_MainSucceeds"]


def s(cps: List[int]) -> str:
    return "".join(chr(c) for c in cps)


def describe(entries: List[Dict[str, Any]]) -> List[str]:
    out = []
    for e in entries:
        if e.get("ncls") == "base":
            continue
        path = "/".join([s(d) for d in e["dirs"]] + [s(e["name"])])
        out.append("%s %r%s" % (e["kind"], path, "" if e["kind"] == "dir" else " <%s>" % e["ccls"]))
    return sorted(out)


def fingerprint(o: Dict[str, Any], inv: str) -> Dict[str, Any]:
    ents = [e for e in o["entries"] if e.get("ncls") != "base"]
    key: Dict[str, Any] = {"clause": inv}
    if inv == "Inv_NoException":
        exc = o["main"]["exc"] or o["rd"]["exc"]
        key["where"] = "read_from_directory" if o["rd"]["outcome"] == "exception" else "main.execute"
        key["exc_type"] = exc.split(":")[0]
        key["name_ends_with_newline"] = any(e["kind"] == "file" and e["name"] and e["name"][-1] == 10 for e in ents)
    else:
        key["names"] = sorted({e["ncls"] for e in ents})
        key["contents"] = sorted({e["ccls"] for e in ents if e["kind"] == "file"})
        key["nesting"] = sorted({"/".join(e["dcls"]) for e in ents})
    key["root"] = o.get("root", "plain")
    return key


def main() -> int:
    replay = os.environ.get("VERIF_REPLAY")
    # (core.Check wipes replays/<id>: read the replay file first)
    replay_doc = core.read_json(pathlib.Path(replay)) if replay else None
    ck = core.Check("C25", "exploration")
    trees_p = ck.work / "trees.json"
    n_entries = 0
    if replay:
        rp = replay_doc
        core.write_json(trees_p, [{"entries": rp["case"]["entries"], "root": rp["case"].get("root", "plain")}])
    else:
        res = ck.tlc("SnippetsGen", "SnippetsGen%s.cfg" % ("" if ck.quick else "_thorough"), what="G: directory trees", env={"VERIF_OUT": str(trees_p)}, count=False, seed=ck.seed + 1, jvm=JVM, timeout=1200)
        for line in res.printed:
            m = re.search(r"cases\", (\d+), (\d+)", line)
            if m:
                n_entries = int(m.group(2))
    obs_p = ck.work / "obs.json"
    ck.impl("harness.run_c25", [str(trees_p), str(obs_p), str(ck.work / "scratch")])
    obs = core.read_json(obs_p)
    complaints = sorted({c for o in obs for c in o["selfcheck"]})
    if complaints:
        raise core.MachineryFailure("the spec's content table disagrees with CPython's UTF-8 decoder: %s" % complaints[:3])

    counters = {"must": 0, "may": 0, "mapped": 0, "ignored": 0, "oddroot": 0}
    chunk = 2500
    for off in range(0, len(obs), chunk):
        part = [{"entries": o["entries"], "root": o.get("root", "plain"), "rd": {k: o["rd"][k] for k in ("outcome", "mapping", "errors")}, "main": {k: o["main"][k] for k in ("outcome", "rc", "stderr")}} for o in obs[off : off + chunk]]
        pp = ck.work / "obs_part.json"
        core.write_json(pp, part)
        res = ck.tlc("SnippetsTrace", what="V: observed loads against the expected mapping / errors", env={"VERIF_OBS": str(pp)}, cont=True, workers=1, jvm=JVM, timeout=1500)
        for line in res.printed:
            m = re.search(r"counters\", (\d+), (\d+), (\d+), (\d+), (\d+), (\d+)", line)
            if m:
                for k, g in zip(["must", "may", "mapped", "ignored", "oddroot"], m.groups()[1:]):
                    counters[k] += int(g)
        per: Dict[int, List[str]] = {}
        for v in res.violations:
            mi = re.search(r"(?:^|\n)(?:/\\ )?i = (\d+)", v["state"])
            if not mi:
                raise core.MachineryFailure("cannot read the record index from TLC's report: %s" % v["state"][:300])
            per.setdefault(off + int(mi.group(1)) - 1, []).append(v["invariant"])
        for idx in sorted(per):
            o = obs[idx]
            if "Self_TreeConsistent" in per[idx]:
                raise core.MachineryFailure("the generator produced an inconsistent tree: %s" % describe(o["entries"]))
            inv = next((p for p in PRIORITY if p in per[idx]), per[idx][0])
            detail = "root %s, tree %s: read_from_directory -> %s%s; main.execute -> %s rc=%s %s" % (
                o.get("root", "plain"), describe(o["entries"]), o["rd"]["outcome"],
                (" " + json.dumps([s(m["key"]) for m in o["rd"]["mapping"]])) if o["rd"]["outcome"] == "mapping" else (" " + o["rd"]["exc"] if o["rd"]["exc"] else ""),
                o["main"]["outcome"], o["main"]["rc"], o["main"]["exc"][:160])
            ck.violation(fingerprint(o, inv), inv, {"entries": o["entries"], "root": o.get("root", "plain")}, {"rd": {"outcome": o["rd"]["outcome"], "keys": [s(m["key"]) for m in o["rd"]["mapping"]], "errors": [s(x) for x in o["rd"]["errors"]], "exc": o["rd"]["exc"]}, "main": {"outcome": o["main"]["outcome"], "rc": o["main"]["rc"], "stderr": s(o["main"]["stderr"])[:600], "exc": o["main"]["exc"]}, "violated": per[idx]}, detail=detail)

    ck.cov["evaluations"] = len(obs)
    ck.cov["traces_validated_against_impl"] = len(obs)
    ck.cov["distinct_nontrivial"] = min(len(obs), counters["must"] + counters["mapped"])
    ck.cov["exhaustive"] = False
    ck.cov["rule"] = (
        "G: TLC enumerates the %d entries = (nesting 0..2 over directory names {valid, with dots, hidden, with dash}) x 9 file-name classes "
        "(valid, leading underscore, dots, starts with digit, space, dash, hidden, non-ASCII, trailing newline) x 8 content classes (plain, surrounding whitespace, empty, only whitespace, "
        "invalid UTF-8, BOM, CRLF, Unicode whitespace) + empty directories; every single-entry tree plus pseudo-random trees of 2..4 entries (TLC Randomization, seed %d); "
        "non-trivial = the tree has a file that must make the run fail (%d) or loads to a mapping of more than the base key (%d); trees with an unsettled file below a hidden directory: %d; with an ignored entry: %d; every tree is placed under a TLC-chosen kind of root (plain, hidden ancestor, hidden snippets directory, path spelled with ..): %d not plain"
        % (n_entries, ck.seed + 1, counters["must"], counters["mapped"], counters["may"], counters["ignored"], counters["oddroot"])
    )
    pick = [obs[min(5, len(obs) - 1)], obs[len(obs) // 2], obs[-1]]
    ck.cov["samples"] = [{"tree": describe(o["entries"]), "read_from_directory": o["rd"]["outcome"], "keys": [s(m["key"]) for m in o["rd"]["mapping"]], "main_rc": o["main"]["rc"]} for o in pick]
    ck.assumptions += [
        "TLC, SANY, CommunityModules Json, TLC Randomization; CPython's UTF-8 decoder (cross-checked against the spec's content table)",
        "a visible file below a hidden directory may be ignored or reported (DESIGN §6 C25); stripping: ASCII or Unicode whitespace, with or without newline translation, BOM kept or dropped are all accepted",
        "symbolic links, special files and unreadable files are outside the generated trees",
    ]
    if not replay and (counters["must"] == 0 or counters["mapped"] == 0):
        raise core.MachineryFailure("vacuous run")
    return ck.finish()
