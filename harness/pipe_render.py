"""Concrete lexemes of the grammar specs/PipeSyntax.tla (group `pipeline`: C01 / C03 / C28).

TLC enumerates *items* (records: one field per syntactic slot); this module renders an item, appended to a
valid base meta-model, into Python source text.  The structure of the case space lives in the spec; only the
spelling of every alternative lives here.  `render_module(case)` is total: an alternative unknown to the
tables raises KeyError (a machinery failure, never an observation).
"""
from __future__ import annotations

from typing import Any, Dict, List

from harness import mm

BASE_ITEMS = '''\
class Color(Enum):
    Red = "RED"
    Green = "GREEN"


@invariant(lambda self: len(self) <= 10, "At most 10 characters")
class Short_text(str, DBC):
    pass


@verification
def matches_lower(text: str) -> bool:
    return match(r"^[a-z]+$", text) is not None


@verification
def is_long(text: str) -> bool:
    return len(text) > 3


@verification
@implementation_specific
def is_special(text: str) -> bool:
    raise NotImplementedError()


Max_len: int = constant_int(value=10, description="Maximum length.")

Vowels: Set[str] = constant_set(values=["a", "e"], description="Some vowels.")


@invariant(lambda self: len(self.some_str) > 0, "Some string is not empty.")
class Something(DBC):
    some_str: str
    some_list: List[str]
    color: Optional[Color]

    def __init__(
        self, some_str: str, some_list: List[str], color: Optional[Color] = None
    ) -> None:
        self.some_str = some_str
        self.some_list = some_list
        self.color = color
'''

FOOTER = '\n__version__ = "V1"\n__xml_namespace__ = "https://dummy.com"\n'

# ---------------------------------------------------------------------------------------------
# shared alternatives
# ---------------------------------------------------------------------------------------------

PRIM_FN = {"int": "constant_int", "str": "constant_str", "bool": "constant_bool", "float": "constant_float", "bytearray": "constant_bytearray"}


def callee_call(kind: str, fn: str, other_fn: str, args: str) -> str:
    """What stands where `fn(args)` is expected."""
    table = {
        "right": "%s(%s)" % (fn, args),
        "wrongprim": "%s(%s)" % (other_fn, args),
        "otherctor": "%s(%s)" % ("constant_set" if fn != "constant_set" else "constant_str", args),
        "unknown": "constant_thing(%s)" % args,
        "callcall": "%s()(%s)" % (fn, args),
        "attr": "marker.%s(%s)" % (fn, args),
        "lambda": "(lambda *a, **k: 1)(%s)" % args,
        "name": "Some_other_name",
        "literal": "1",
        "subscript": "%s[0](%s)" % (fn, args),
        "await": "await %s(%s)" % (fn, args),
        "starred": "%s(*[%s])" % (fn, args),
    }
    return table[kind]


def expressions(S: str, L: str) -> Dict[str, str]:
    """Expression alternatives over a string-valued subject S and a list-valued subject L."""
    return {
        "len_cmp": "len(%s) > 3" % S,
        "cmp_chain": "1 < len(%s) < 5" % S,
        "and_or": '(len(%s) > 1 and len(%s) < 9) or %s == "x"' % (S, S, S),
        "not": "not (len(%s) > 3)" % S,
        "implication": "not (len(%s) > 1) or (len(%s) < 9)" % (S, S),
        "is_none": "%s is None" % S,
        "is_not_none": "%s is not None" % S,
        "in_set": "%s in Vowels" % S,
        "not_in": "%s not in Vowels" % S,
        "all_gen": "all(len(x) > 1 for x in %s)" % L,
        "any_gen": "any(len(x) > 1 for x in %s)" % L,
        "all_gen_if": "all(len(x) > 1 for x in %s if len(x) > 0)" % L,
        "all_listcomp": "all([len(x) > 1 for x in %s])" % L,
        "all_two_for": "all(len(x) > len(y) for x in %s for y in %s)" % (L, L),
        "all_range": "all(len(%s[i]) > 1 for i in range(len(%s)))" % (L, L),
        "all_nested": "all(all(len(y) > 0 for y in %s) for x in %s)" % (L, L),
        "call_verification": "matches_lower(%s)" % S,
        "call_unknown": "undefined_function(%s)" % S,
        "callcall": "get_checker()(%s)" % S,
        "attr_call": "checkers.matches_lower(%s)" % S,
        "method_call": '%s.startswith("a")' % S,
        "subscript": '%s[0] == "a"' % L,
        "slice": '%s[1:] == "a"' % S,
        "attr_chain": "%s.a.b.c == 1" % S,
        "arith": "len(%s) + 1 > 3" % S,
        "unary_minus": "-len(%s) < 0" % S,
        "ternary": "True if len(%s) > 1 else False" % S,
        "lambda": "(lambda x: len(x) > 1)(%s)" % S,
        "fstring": '%s == f"a{%s}"' % (S, S),
        "str_concat": '%s == "a" + "b"' % S,
        "list_lit": '%s in ["a", "b"]' % S,
        "dict_lit": '%s in {"a": 1}' % S,
        "set_lit": '%s in {"a", "b"}' % S,
        "tuple_lit": '%s in ("a", "b")' % S,
        "starred": "len(*[%s]) > 1" % S,
        "const_true": "True",
        "const_none": "None",
        "const_int": "1",
        "const_str": '"x"',
        "const_bytes": '%s == b"x"' % S,
        "const_ellipsis": "...",
        "const_complex": "len(%s) > 1j" % S,
        "name_unknown": "Undefined_name",
        "name_const": "len(%s) < Max_len" % S,
        "enum_lit": "Color.Red == Color.Green",
        "cmp_str_int": "%s > 1" % S,
        "len_of_int": "len(len(%s)) > 0" % S,
        "len_ge_0": "len(%s) >= 0" % S,
        "len_contradiction": "len(%s) > 5 and len(%s) < 3" % (S, S),
        "await": "await %s" % S,
        "yield_expr": "(yield %s)" % S,
        "walrus": "(n := len(%s)) > 1" % S,
        "star_kwargs": 'matches_lower(**{"text": %s})' % S,
        "index_neg": '%s[-1] == "a"' % L,
        "len_two_args": "len(%s, %s) > 1" % (S, S),
        "len_no_args": "len() > 1",
        "len_kwarg": "len(obj=%s) > 1" % S,
        "two_len_arity_same_line": "len(%s, 1) >= 1 and len(%s, 2) >= 1" % (S, L),
        "two_unknown_calls_same_line": "undefined_function(%s) and undefined_function(%s)" % (S, L),
    }


def indent(text: str, n: int = 4) -> str:
    pad = " " * n
    return "\n".join((pad + line) if line.strip() else line for line in text.split("\n"))


# ---------------------------------------------------------------------------------------------
# families
# ---------------------------------------------------------------------------------------------


def r_constprim(i: int, r: Dict[str, Any]) -> str:
    ty = r["ty"]
    name = {"name": "Const_%d" % i, "unicode": "C\u00f6nst_%d" % i, "attr": "Color.c%d" % i, "subscript": "Consts[%d]" % i, "dunder": "__const_%d__" % i}[r["tgt"]]
    ok = {"int": "10", "str": '"ten"', "bool": "True", "float": "1.5", "bytearray": 'b"\\x01\\x02"'}[ty]
    wrong = {"int": '"x"', "str": "1", "bool": "1", "float": '"x"', "bytearray": '"x"'}[ty]
    val = {
        "ok": ok,
        "none": "None",
        "wrongtype": wrong,
        "expr": {"int": "1 + 1", "str": '"a" + "b"', "bool": "not True", "float": "1.0 * 2", "bytearray": 'b"a" + b"b"'}[ty],
        "name": "Some_value",
        "neg": "-1" if ty in ("int", "float", "bool") else "-" + ok,
        "fstring": 'f"x{1}"',
        "list": "[%s]" % ok,
        "big": {"int": "1180591620717411303424", "str": '"' + "x" * 300 + '"', "bool": "True", "float": "1e400", "bytearray": 'b"' + "x" * 300 + '"'}[ty],
    }[r["val"]]
    desc = '"Some constant %d."' % i
    pos = [val, desc, "3", "4"][: r["npos"]]
    kws = {
        "none": [],
        "value": ["value=%s" % val],
        "description": ["description=%s" % desc],
        "value_description": ["value=%s" % val, "description=%s" % desc],
        "bogus": ["bogus=1"],
        "value_bogus": ["value=%s" % val, "bogus=1"],
        "starstar": ['**{"value": %s}' % val],
    }[r["kws"]]
    other = "constant_str" if ty != "str" else "constant_int"
    call = callee_call(r["callee"], PRIM_FN[ty], other, ", ".join(pos + kws))
    return "%s: %s = %s\n" % (name, ty, call)


def r_constset(i: int, r: Dict[str, Any]) -> str:
    name = "Set_%d" % i
    ann = {"str": "Set[str]", "int": "Set[int]", "enum": "Set[Color]", "list": "Set[List[str]]", "two": "Set[str, int]", "bare": "Set", "unknown": "Set[Unknown_type]", "optional": "Set[Optional[str]]"}[r["elt"]]
    ok = {"int": "[1, 2]", "enum": "[Color.Red, Color.Green]"}.get(r["elt"], '["a", "e", "b"]')  # a superset of Vowels
    vals = {
        "ok": ok,
        "empty": "[]",
        "tuple": '("a", "b")',
        "set": '{"a", "b"}',
        "comp": '[x for x in ["a"]]',
        "expr": '["a" + "b"]',
        "mixed": '["a", 1]',
        "enumlits": "[Color.Red]",
        "dup": '["a", "a"]',
        "name": "Some_values",
        "nested": '[["a"]]',
    }[r["vals"]]
    helper = ""
    sub_name = "Vowels"
    if r["elt"] in ("int", "enum") and r["sup"] in ("ok", "dup", "dup_apart"):
        # a subset of the matching item type, defined just before
        sub_name = "Sub_%d" % i
        helper = "%s: %s = constant_set(values=%s)\n\n" % (sub_name, {"int": "Set[int]", "enum": "Set[Color]"}[r["elt"]], {"int": "[1]", "enum": "[Color.Red]"}[r["elt"]])
    sup = {"absent": None, "empty": "[]", "ok": "[%s]" % sub_name, "unknown": "[Nonexistent_set]", "self": "[%s]" % name, "notlist": "Vowels", "attr": "[Color.Red]", "str": '["Vowels"]', "dup": "[%s, %s]" % (sub_name, sub_name), "dup_apart": "[%s, Other_vowels_%d, %s]" % (sub_name, i, sub_name)}[r["sup"]]
    if r["sup"] == "dup_apart":
        helper += 'Other_vowels_%d: Set[str] = constant_set(values=["a"])\n\n' % i
    desc = '"Some set %d."' % i
    pos = [vals, desc, sup if sup is not None else "[]", "4", "5"][: r["npos"]]
    supkw = "superset_of=%s" % (sup if sup is not None else "[]")
    kws = {
        "none": [],
        "values": ["values=%s" % vals],
        "values_description": ["values=%s" % vals, "description=%s" % desc],
        "values_description_superset": ["values=%s" % vals, "description=%s" % desc, supkw],
        "superset": [supkw],
        "bogus": ["bogus=1"],
        "values_bogus": ["values=%s" % vals, "bogus=1"],
        "starstar": ['**{"values": %s}' % vals],
    }[r["kws"]]
    if sup is not None and r["npos"] < 3 and supkw not in kws:
        kws = kws + [supkw]
    call = callee_call(r["callee"], "constant_set", "constant_str", ", ".join(pos + kws))
    return "%s%s: %s = %s\n" % (helper, name, ann, call)


def r_patternfunc(i: int, r: Dict[str, Any]) -> str:
    name = "matches_%d" % i
    if "pattern" in r:  # a regex token sequence
        pat = repr(r["pattern"])
        pat_f = "f" + pat.replace("{", "{{").replace("}", "}}")
    else:
        pat = {"simple": '"^a+$"', "unanchored": '"a+"', "empty": '""', "raw_newline": '"^a\\nb$"', "bytes": 'b"^a+$"', "int": "1", "nested_fstring": "f\"^{f'a'}+$\""}[r["pat"]]
        pat_f = "f" + pat if pat.startswith('"') else pat
    form = r["form"]
    body = {
        "direct": "return match(%s, text) is not None" % pat,
        "var": "pattern = %s\nreturn match(pattern, text) is not None" % pat,
        "fstring": "pattern = %s\nreturn match(pattern, text) is not None" % pat_f,
        "fstring_var": 'prefix = "^a"\npattern = f"{prefix}+$"\nreturn match(pattern, text) is not None' if "pattern" not in r else "inner = %s\npattern = f\"{inner}\"\nreturn match(pattern, text) is not None" % pat,
        "concat": "return match(%s + %s, text) is not None" % (pat, '""' if not pat.startswith("b") else 'b""'),
        "search": "return search(%s, text) is not None" % pat,
        "fullmatch": "return fullmatch(%s, text) is not None" % pat,
        "compile": "return compile(%s).match(text) is not None" % pat,
        "bare_match": "return match(%s, text)" % pat,
        "eq_none": "return match(%s, text) != None" % pat,
        "not_re": "return text == %s" % pat,
        "callcall": "return match(%s, text)() is not None" % pat,
        "attrcall": "return re.match(%s, text) is not None" % pat,
        "kwargs": "return match(pattern=%s, string=text) is not None" % pat,
        "flags": "return match(%s, text, 2) is not None" % pat,
        "stmt_str_mid": 'pattern = %s\n"some text"\nreturn match(pattern, text) is not None' % pat,
        "stmt_name_mid": "pattern = %s\npattern\nreturn match(pattern, text) is not None" % pat,
        "stmt_fstring_mid": 'pattern = %s\nf"x{pattern}"\nreturn match(pattern, text) is not None' % pat,
        "docstring_first": '"""Check the text."""\npattern = %s\nreturn match(pattern, text) is not None' % pat,
        "two_vars": 'first = %s\nsecond = first\nreturn match(second, text) is not None' % pat,
    }[form]
    ret = {"bool": " -> bool", "none": " -> None", "str": " -> str", "missing": "", "optional": " -> Optional[bool]"}[r["ret"]]
    args = {"text": "text: str", "noargs": "", "two": "text: str, other: str", "kwonly": "*, text: str", "default": 'text: str = "x"', "vararg": "*text: str", "untyped": "text", "self": "self, text: str"}[r["args"]]
    deco = {
        "verification": "@verification\n",
        "missing": "",
        "called": "@verification()\n",
        "twice": "@verification\n@verification\n",
        "impl": "@verification\n@implementation_specific\n",
        "unknown": "@unknown_decorator\n@verification\n",
        "attr": "@marker.verification\n",
        "callcall": "@verification()()\n",
    }[r["deco"]]
    return "%sdef %s(%s)%s:\n%s\n" % (deco, name, args, ret, indent(body))


def r_func(i: int, r: Dict[str, Any]) -> str:
    name = "check_%d" % i
    E = expressions("text", "items")[r["expr"]]
    body = {
        "return_expr": "return %s" % E,
        "if_return": "if %s:\n    return True\nreturn False" % E,
        "for_loop": "for x in items:\n    if len(x) > 1:\n        return False\nreturn %s" % E,
        "while_loop": "while %s:\n    pass\nreturn True" % E,
        "assign": "result = %s\nreturn result" % E,
        "aug_assign": "n = 0\nn += 1\nreturn n > 0 and %s" % E,
        "ann_assign": "result: bool = %s\nreturn result" % E,
        "tuple_assign": "a, b = 1, 2\nreturn a < b and %s" % E,
        "nested_def": "def inner() -> bool:\n    return %s\n\nreturn inner()" % E,
        "nested_class": "class Inner:\n    pass\n\nreturn %s" % E,
        "lambda_assign": "f = lambda: %s\nreturn f()" % E,
        "return_none": "return None",
        "bare_return": "return",
        "only_docstring": '"""Check %s."""' % name,
        "pass": "pass",
        "yield": "yield %s" % E,
        "try": "try:\n    return %s\nexcept Exception:\n    return False" % E,
        "with": 'with open("x") as f:\n    return %s' % E,
        "raise": 'raise ValueError("x")',
        "assert": "assert %s\nreturn True" % E,
        "delete": "del text\nreturn True",
        "global": "global Max_len\nreturn %s" % E,
        "import": "import os\nreturn %s" % E,
        "expr_stmt": "%s\nreturn True" % E,
        "walrus": "if (n := len(text)) > 1:\n    return True\nreturn False",
        "match_stmt": 'match text:\n    case "a":\n        return True\nreturn False',
    }[r["stmt"]]
    ret = {"bool": " -> bool", "none": " -> None", "int": " -> int", "missing": "", "str_annot": ' -> "bool"'}[r["ret"]]
    args = {
        "one": "text: str, items: List[str]",
        "noargs": "",
        "two": "text: str, items: List[str], other: int",
        "kwonly": "*, text: str, items: List[str]",
        "default": 'text: str = "x", items: List[str] = None',
        "vararg": "*text: str",
        "untyped": "text, items",
        "ourtype": "text: Short_text, items: List[Something]",
        "dup_arg": "text: str, items: List[str], text: str",
        "list_two": "text: str, items: List[str, int]",
        "list_optional_two": "text: str, items: List[Optional[str, int]]",
    }[r["args"]]
    deco = {
        "verification": "@verification\n",
        "missing": "",
        "called": "@verification()\n",
        "impl": "@verification\n@implementation_specific\n",
        "impl_only": "@implementation_specific\n",
        "unknown": "@something_else\n@verification\n",
        "require": "@verification\n@require(lambda text: len(text) > 0)\n",
        "ensure_odd": "@verification\n@ensure(lambda result, text, extra: result)\n",
        "snapshot": '@verification\n@snapshot(lambda text: len(text), name="n")\n@ensure(lambda OLD, text: OLD.n == len(text))\n',
    }[r["deco"]]
    return "%sdef %s(%s)%s:\n%s\n" % (deco, name, args, ret, indent(body))


CLASS_TAIL = """\
    some_str: str
    some_list: List[str]

    def __init__(self, some_str: str, some_list: List[str]) -> None:
        self.some_str = some_str
        self.some_list = some_list
"""


def r_invariant(i: int, r: Dict[str, Any]) -> str:
    name = "Inv_%d" % i
    form = r["form"]
    subj = ("self", "self") if form in ("on_cprim",) else ("self.some_str", "self.some_list")
    E = expressions(*subj)[r["expr"]]
    lam = {
        "self": "lambda self: %s" % E,
        "noargs": "lambda: True",
        "two": "lambda self, other: %s" % E,
        "other_name": "lambda that: %s" % E.replace("self", "that"),
        "kwonly": "lambda *, self: %s" % E,
        "default": "lambda self=None: %s" % E,
        "star": "lambda *self: True",
        "not_lambda_name": "is_long",
        "not_lambda_call": 'is_long("abc")',
        "not_lambda_str": '"%s"' % E.replace('"', "'"),
        "def_ref": "%s.check" % name,
    }[r["lam"]]
    d = "Some description of %d." % i
    desc = {
        "ok": '"%s"' % d,
        "missing": None,
        "int": "1",
        "fstring": 'f"Description {1} of %d."' % i,
        "concat": '"Some " + "description of %d."' % i,
        "empty": '""',
        "kw": 'description="%s"' % d,
        "bytes": 'b"Some description"',
        "name": "Some_description",
        "duplicate": '"%s"' % d,
        "multiline": '"Line one of %d\\nline two."' % i,
        "kw_wrong": "error=ValueError",
    }[r["desc"]]
    args = lam if desc is None else "%s, %s" % (lam, desc)
    deco = {
        "call": "@invariant(%s)" % args,
        "bare": "@invariant",
        "attr": "@icontract.invariant(%s)" % args,
        "callcall": "@invariant(%s)()" % args,
        "extra_pos": "@invariant(%s, 1)" % args,
        "extra_kw": "@invariant(%s, enabled=True)" % args,
        "star_args": "@invariant(*[%s])" % args,
        "on_cprim": "@invariant(%s)" % args,
        "on_enum": "@invariant(%s)" % args,
        "twice_same": "@invariant(%s)\n@invariant(%s)" % (args, args),
    }[form]
    if r["desc"] == "duplicate":
        deco = deco + "\n@invariant(lambda self: len(self.some_list) > 0, %s)" % desc
    if form == "on_cprim":
        return "%s\nclass %s(str, DBC):\n    pass\n" % (deco, name)
    if form == "on_enum":
        return '%s\nclass %s(Enum):\n    A = "a"\n' % (deco, name)
    return "%s\nclass %s(DBC):\n%s" % (deco, name, CLASS_TAIL)


def r_class(i: int, r: Dict[str, Any]) -> str:
    name = {"ok": "Thing_%d" % i, "unicode": "Th\u00efng_%d" % i, "lower": "thing_%d" % i, "reserved": "I_thing_%d" % i, "dunder": "__Thing_%d__" % i, "duplicate": "Something", "keywordish": "Optional"}[r["name"]]
    pre = ""
    bases = {
        "dbc": "(DBC)",
        "none": "",
        "unknown": "(Unknown_parent, DBC)",
        "self": "(%s, DBC)" % name,
        "cycle": "(Cyc_%d, DBC)" % i,
        "kw_metaclass": "(DBC, metaclass=Meta)",
        "call": "(make_base(), DBC)",
        "attr": "(module.Base, DBC)",
        "enum_dbc": "(Enum, DBC)",
        "two_parents": "(Parent_a_%d, Parent_b_%d, DBC)" % (i, i),
        "prim_and_class": "(str, Something, DBC)",
        "subscript": "(List[int], DBC)",
        "star": "(*Bases, DBC)",
        "prim_dbc": "(str, DBC)",
        "dup_parent": "(Parent_a_%d, Parent_a_%d)" % (i, i),
        "prim_only": "(str)",
    }[r["bases"]]
    if r["bases"] == "cycle":
        pre = "class Cyc_%d(%s, DBC):\n    pass\n\n\n" % (i, name)
    if r["bases"] == "dup_parent":
        pre = "@abstract\nclass Parent_a_%d(DBC):\n    pass\n\n\n" % i
    if r["bases"] == "two_parents":
        pre = "@abstract\nclass Parent_a_%d(DBC):\n    pass\n\n\n@abstract\nclass Parent_b_%d(DBC):\n    pass\n\n\n" % (i, i)
    deco = {
        "none": "",
        "abstract": "@abstract\n",
        "abstract_call": "@abstract()\n",
        "abstract_arg": "@abstract(1)\n",
        "impl": "@implementation_specific\n",
        "impl_call": "@implementation_specific()\n",
        "serialization": "@serialization(with_model_type=True)\n",
        "serialization_noarg": "@serialization()\n",
        "serialization_pos": "@serialization(True)\n",
        "serialization_int": "@serialization(with_model_type=1)\n",
        "serialization_bogus": "@serialization(bogus=True)\n",
        "unknown": "@unknown_decorator\n",
        "unknown_call": "@unknown_decorator(1)\n",
        "attr": "@marker.abstract\n",
        "callcall": "@abstract()()\n",
        "lambda": "@(lambda c: c)\n",
        "twice": "@abstract\n@abstract\n",
        "abstract_impl": "@abstract\n@implementation_specific\n",
        "reference_in_the_book": "@reference_in_the_book(section=(1, 2))\n",
        "subscript": "@decorators[0]\n",
    }[r["deco"]]
    ann = {
        "str": "str",
        "int_list": "List[int]",
        "optional": "Optional[str]",
        "ourtype": "Something",
        "forward_str": '"Something"',
        "unknown": "Unknown_type",
        "list_bare": "List",
        "optional_bare": "Optional",
        "list_two": "List[int, str]",
        "optional_two": "Optional[int, str]",
        "optional_optional": "Optional[Optional[int]]",
        "list_optional": "List[Optional[int]]",
        "set": "Set[int]",
        "dict": "Dict[str, int]",
        "none": "None",
        "union_bar": "int | str",
        "callable": "Callable[[int], str]",
        "attr": "typing.List[int]",
        "literal_int": "1",
        "tuple": "(int, str)",
        "ellipsis_sub": "List[...]",
        "lambda": "lambda: int",
        "nested_deep": "List[List[List[List[int]]]]",
        "self_ref": '"%s"' % name,
        "enum": "Color",
        "cprim": "Short_text",
        "str_subscript": '"List[int]"',
        "str_empty": '""',
        "list_optional_two": "List[Optional[int, str]]",
        "optional_list_two": "Optional[List[int, str]]",
        "list_list_two": "List[List[int, str]]",
    }[r["ann"]]
    optional = r["ann"].startswith("optional")
    body_kind = r["body"]
    has_prop = True
    body = {
        "prop": "value: %s" % ann,
        "pass": "pass",
        "ellipsis": "...",
        "docstring_only": '"""Represent a thing %d."""' % i,
        "prop_value": "value: %s = 1" % ann,
        "prop_no_annotation": "value = 1",
        "prop_tuple_target": "(value, other): %s" % ann,
        "prop_attr_target": "self.value: %s" % ann,
        "prop_unicode": "v\u00e4lue: %s" % ann,
        "prop_reserved": "namespace: %s\n\nvalue: %s" % (ann, ann),
        "prop_dup": "value: %s\n\nvalue: %s" % (ann, ann),
        "prop_docstring_twice": 'value: %s\n"""First."""\n"""Second."""' % ann,
        "nested_class": "value: %s\n\nclass Nested:\n    pass" % ann,
        "stmt_if": "if True:\n    value: %s" % ann,
        "stmt_expr": 'value: %s\n\nprint("x")' % ann,
        "class_var_assign": "value: %s\n\nother = 3" % ann,
        "method": "value: %s\n\ndef is_ok(self) -> bool:\n    return len(self.value) > 0" % ann,
        "method_impl": "value: %s\n\n@implementation_specific\ndef do_something(self) -> None:\n    raise NotImplementedError()" % ann,
        "method_static": "value: %s\n\n@staticmethod\ndef make() -> None:\n    pass" % ann,
        "method_no_self": "value: %s\n\ndef do_something() -> None:\n    pass" % ann,
        "method_contracts": "value: %s\n\n@require(lambda self: len(self.value) > 0)\n@ensure(lambda result: result)\n@implementation_specific\ndef do_something(self) -> bool:\n    raise NotImplementedError()" % ann,
        "method_contract_odd": "value: %s\n\n@require(1)\n@implementation_specific\ndef do_something(self) -> bool:\n    raise NotImplementedError()" % ann,
        "method_snapshot": 'value: %s\n\n@snapshot(lambda self: self.value, name="old")\n@ensure(lambda OLD, self: OLD.old == self.value)\n@implementation_specific\ndef do_something(self) -> None:\n    raise NotImplementedError()' % ann,
        "method_dunder": 'value: %s\n\ndef __str__(self) -> str:\n    return "x"' % ann,
        "method_async": "value: %s\n\n@implementation_specific\nasync def do_something(self) -> None:\n    raise NotImplementedError()" % ann,
        "method_lambda": "value: %s\n\ndo_something = lambda self: 1" % ann,
        "property_deco": "value: %s\n\n@property\ndef other(self) -> int:\n    return 1" % ann,
        "bad_docstring": '"""\nRepresent :class:`Unknown_class_%d` and ``unbalanced.\n\n:ivar nothing: nothing\n"""\n\nvalue: %s' % (i, ann),
        "method_dup": "value: %s\n\n@implementation_specific\ndef do_something(self) -> None:\n    raise NotImplementedError()\n\n@implementation_specific\ndef do_something(self) -> None:\n    raise NotImplementedError()" % ann,
        "method_verification": "value: %s\n\n@verification\ndef check_it(self) -> bool:\n    return True" % ann,
    }[body_kind]
    if body_kind in ("pass", "ellipsis", "docstring_only", "prop_no_annotation", "prop_tuple_target", "prop_attr_target", "prop_unicode", "stmt_if"):
        has_prop = False
    argann = "%s = None" % ann if optional else ann
    ctor_kind = r["ctor"]
    init_ok = "def __init__(self, value: %s) -> None:\n    self.value = value" % argann
    ctor = {
        "auto": init_ok,
        "missing": "",
        "no_self": "def __init__(value: %s) -> None:\n    pass" % argann,
        "extra_arg": "def __init__(self, value: %s, extra: int) -> None:\n    self.value = value" % ann,
        "missing_arg": "def __init__(self) -> None:\n    pass",
        "wrong_type": "def __init__(self, value: bytearray) -> None:\n    self.value = value",
        "default_not_none": "def __init__(self, value: %s = 1) -> None:\n    self.value = value" % ann,
        "optional_no_default": "def __init__(self, value: Optional[%s]) -> None:\n    self.value = value" % ann,
        "vararg": "def __init__(self, *value: %s) -> None:\n    self.value = value" % ann,
        "kwarg": "def __init__(self, **value: %s) -> None:\n    self.value = value" % ann,
        "kwonly": "def __init__(self, *, value: %s) -> None:\n    self.value = value" % ann,
        "body_pass": "def __init__(self, value: %s) -> None:\n    pass" % argann,
        "body_stmt": "def __init__(self, value: %s) -> None:\n    if value:\n        self.value = value" % argann,
        "assign_other": "def __init__(self, value: %s) -> None:\n    other.value = value" % argann,
        "assign_twice": "def __init__(self, value: %s) -> None:\n    self.value = value\n    self.value = value" % argann,
        "assign_expr": "def __init__(self, value: %s) -> None:\n    self.value = value + value" % argann,
        "super_call": "def __init__(self, value: %s) -> None:\n    super().__init__()\n    self.value = value" % argann,
        "base_init_pos": "def __init__(self, value: %s) -> None:\n    Something.__init__(self, value)\n    self.value = value" % argann,
        "returns_int": "def __init__(self, value: %s) -> int:\n    self.value = value" % argann,
        "require_ok": "@require(lambda value: len(value) > 0)\ndef __init__(self, value: %s) -> None:\n    self.value = value" % argann,
        "require_odd": "@require(lambda: True)\ndef __init__(self, value: %s) -> None:\n    self.value = value" % argann,
        "docstring": 'def __init__(self, value: %s) -> None:\n    """Initialize."""\n    self.value = value' % argann,
        "async": "async def __init__(self, value: %s) -> None:\n    self.value = value" % argann,
        "lambda_default": "def __init__(self, value: %s = (lambda: 1)()) -> None:\n    self.value = value" % ann,
        "posonly": "def __init__(self, value: %s, /) -> None:\n    self.value = value" % argann,
        "dup_arg": "def __init__(self, value: %s, value: %s) -> None:\n    self.value = value" % (ann, ann),
        "impl_specific": "@implementation_specific\ndef __init__(self, value: %s) -> None:\n    pass" % argann,
        "prim_init_call": "def __init__(self, value: %s) -> None:\n    str.__init__(self)\n    self.value = value" % argann,
        "prim_init_only": "def __init__(self) -> None:\n    str.__init__(self)",
    }[ctor_kind]
    if not has_prop and ctor_kind == "auto":
        ctor = ""
    parts = [body]
    if ctor:
        parts.append(ctor)
    text = "%s%sclass %s%s:\n%s\n" % (pre, deco, name, bases, indent("\n\n".join(parts)))
    return text


def r_enum(i: int, r: Dict[str, Any]) -> str:
    name = "Enum_%d" % i
    bases = {"enum": "(Enum)", "enum_dbc": "(Enum, DBC)", "enum_twice": "(Enum, Enum)", "str_enum": "(str, Enum)", "intenum": "(IntEnum)", "enum_call": "(Enum())"}[r["bases"]]
    lits = {
        "ok": 'A = "a"\nB = "b"',
        "none": "",
        "int_value": "A = 1",
        "dup_name": 'A = "a"\nA = "b"',
        "dup_value": 'A = "a"\nB = "a"',
        "expr_value": 'A = "a" + "b"',
        "annotated": 'A: str = "a"',
        "tuple_target": 'A, B = "a", "b"',
        "lower_name": 'a = "a"',
        "unicode_name": '\u00c4 = "a"',
        "fstring_value": 'A = f"a"',
        "empty_value": 'A = ""',
        "auto_call": "A = auto()",
    }[r["lits"]]
    pre = ""
    doc = ""
    extra = ""
    k = r["extra"]
    if k == "method":
        extra = 'def describe(self) -> str:\n    return "x"'
    elif k == "docstring":
        doc = '"""Represent an enumeration %d."""\n' % i
    elif k == "lit_docstring":
        extra = 'C = "c"\n"""Represent C."""'
    elif k == "pass":
        extra = "pass"
    elif k == "nested":
        extra = "class Nested:\n    pass"
    elif k == "decorated":
        pre = "@abstract\n"
    elif k == "invariant":
        pre = '@invariant(lambda self: True, "Always.")\n'
    elif k == "bad_docstring":
        doc = '"""\nRepresent :class:`Unknown_enum_%d` and ``unbalanced.\n"""\n' % i
    elif k == "stmt":
        extra = 'if True:\n    C = "c"'
    body = "\n".join(x for x in (doc.rstrip("\n"), lits, extra) if x)
    if not body.strip():
        body = "pass"
    return "%sclass %s%s:\n%s\n" % (pre, name, bases, indent(body))


BARE_ITEMS = '''\
class Color(Enum):
    Red = "RED"
    Green = "GREEN"


class Something(DBC):
    some_str: str
    color: Optional[Color]

    def __init__(self, some_str: str, color: Optional[Color] = None) -> None:
        self.some_str = some_str
        self.color = color
'''


def r_cprim(i: int, r: Dict[str, Any]) -> str:
    E = expressions("self", "self")[r["expr"]]
    text = ""
    extra = r.get("extra", "none")
    if extra == "second_contradicting":
        text += '@invariant(lambda self: len(self) < 2, "Constraint %d is short.")\n' % i
    elif extra == "second_compatible":
        text += '@invariant(lambda self: len(self) < 200, "Constraint %d is not too long.")\n' % i
    text += '@invariant(lambda self: %s, "Constraint %d holds.")\nclass Cp_%d(%s, DBC):\n    pass\n' % (E, i, i, r["prim"])
    if extra == "child_contradicting":
        text += '\n\n@invariant(lambda self: len(self) < 2, "Child %d is short.")\nclass Cp_child_%d(Cp_%d, DBC):\n    pass\n' % (i, i, i)
    elif extra == "used_as_property":
        text += "\n\nclass Cp_user_%d(DBC):\n    value: Cp_%d\n\n    def __init__(self, value: Cp_%d) -> None:\n        self.value = value\n" % (i, i, i)
    return text


def r_docref(i: int, r: Dict[str, Any]) -> str:
    target = {
        "name": {"class": "Something", "attr": "some_str", "paramref": "value", "constraintref": "AASd-001", "const": "Max_len"}.get(r["role"], "Something"),
        "dotted2": "Something.some_str",
        "dotted3": "Something.some_str.symbol",
        "dash": "some-value",
        "tilde_dot": "~.some_str",
        "bang": "!Something",
        "empty": "",
        "space": "Some thing",
        "digit": "1abc",
        "call": "Something.some_str()",
        "missing_name": "Missing_thing_%d" % i,
        "constraint_id": "AASd-%03d" % i,
    }[r["target"]]
    role = {"class": ":class:", "attr": ":attr:", "paramref": ":paramref:", "constraintref": ":constraintref:", "const": ":const:", "py_attr": ":py:attr:", "unknown": ":unknown_role:", "ref": ":ref:", "none": ""}[r["role"]]
    ref = "%s`%s`" % (role, target)
    doc = '"""Refer to %s in a sentence."""' % ref
    place = r["place"]
    if place == "class":
        return "class Doc_%d(DBC):\n    %s\n\n    value: int\n\n    def __init__(self, value: int) -> None:\n        self.value = value\n" % (i, doc)
    if place == "property":
        return "class Doc_%d(DBC):\n    value: int\n    %s\n\n    def __init__(self, value: int) -> None:\n        self.value = value\n" % (i, doc)
    if place == "enum_literal":
        return 'class Doc_%d(Enum):\n    A = "a"\n    %s\n' % (i, doc)
    if place == "module":
        return doc + "\n"  # moved to the top of the file by render_module
    if place == "constant":
        return "Doc_%d: int = constant_int(value=1, description=%s)\n" % (i, doc[2:-2])
    if place == "function":
        return "@verification\ndef doc_%d(value: str) -> bool:\n    %s\n    return len(value) > 1\n" % (i, doc)
    if place == "method":
        return "class Doc_%d(DBC):\n    value: int\n\n    def __init__(self, value: int) -> None:\n        self.value = value\n\n    @implementation_specific\n    def compute(self, value: int) -> int:\n        %s\n        raise NotImplementedError()\n" % (i, doc)
    if place == "ctor":
        return "class Doc_%d(DBC):\n    value: int\n\n    def __init__(self, value: int) -> None:\n        %s\n        self.value = value\n" % (i, doc)
    raise KeyError(place)


def r_serial(i: int, r: Dict[str, Any]) -> str:
    t = ""
    ps = r["parents"]
    if ps != "none":
        a = {"agreeing": "True", "contradicting": "True", "one_set": "True", "child_overrides": "True"}[ps]
        b = {"agreeing": "True", "contradicting": "False", "one_set": None, "child_overrides": "True"}[ps]
        t += "@abstract\n@serialization(with_model_type=%s)\nclass Ser_a_%d(DBC):\n    pass\n\n\n" % (a, i)
        t += "@abstract\n%sclass Ser_b_%d(DBC):\n    pass\n\n\n" % (("@serialization(with_model_type=%s)\n" % b) if b else "", i)
        t += "%sclass Ser_child_%d(Ser_a_%d, Ser_b_%d):\n    pass\n\n\n" % ("@serialization(with_model_type=False)\n" if ps == "child_overrides" else "", i, i, i)
    u = r["untagged"]
    if u != "none":
        t += "%sclass Plain_%d(DBC):\n    pass\n\n\nclass Plain_child_%d(Plain_%d):\n    pass\n\n\n" % ("@abstract\n" if u == "abstract_as_property" else "", i, i, i)
        if u in ("with_descendant_as_property", "abstract_as_property"):
            t += "class Plain_user_%d(DBC):\n    plain: Plain_%d\n\n    def __init__(self, plain: Plain_%d) -> None:\n        self.plain = plain\n" % (i, i, i)
    return t


LAYOUT_LEAD = {"none": "", "space_line": "   \n", "blank_lines": "\n\n\n", "comment": "# A comment.\n\n", "tab_line": "\t\n", "formfeed_line": "\x0c\n", "spaces_comment": "    # indented comment\n", "many_space_lines": " \n" * 40}
LAYOUT_TAIL = {
    "none": "",
    "unknown_stmt": "x = compute()\n",
    "bad_class": "class Tail(Unknown_parent, DBC):\n    pass\n",
    "bad_import": "import os\n",
    "bad_invariant": '@invariant(lambda self: undefined_function(self.value), "Tail is fine.")\nclass Tail(DBC):\n    value: str\n\n    def __init__(self, value: str) -> None:\n        self.value = value\n',
    "bad_pattern": '@verification\ndef matches_tail(text: str) -> bool:\n    return match("a(", text) is not None\n',
    "no_newline_stmt": "x",
}


def r_layout(i: int, r: Dict[str, Any]) -> str:
    return ""  # applied to the whole file by render_module


TOP = {
    "import_plain": "import os\n",
    "import_as": "import os as operating_system\n",
    "from_as": "from typing import List as Lst\n",
    "from_unknown": "from typing import Dict\n",
    "from_wrong_module": "from collections import List\n",
    "from_star": "from typing import *\n",
    "from_relative": "from . import something\n",
    "from_future": "from __future__ import annotations\n",
    "version_int": "__version__ = 1\n",
    "version_twice": '__version__ = "V0"\n',
    "version_fstring": '__version__ = f"V{1}"\n',
    "version_ann": '__version__: str = "V1"\n',
    "xmlns_slash": '__xml_namespace__ = "https://dummy.com/"\n',
    "xmlns_space": '__xml_namespace__ = " https://dummy.com"\n',
    "xmlns_quote": "__xml_namespace__ = \"https://dummy.com/a'b\"\n",
    "xmlns_int": "__xml_namespace__ = 1\n",
    "unknown_assign": '__something__ = "x"\n',
    "unknown_assign_call": "something = compute()\n",
    "constant_no_annotation": 'Some_constant = constant_str(value="x")\n',
    "multi_target": 'a = b = "x"\n',
    "tuple_target": 'a, b = "x", "y"\n',
    "aug_assign": "Max_len += 1\n",
    "ann_no_value": "Some_constant: int\n",
    "ann_paren": "(Some_constant): int = constant_int(value=1)\n",
    "ann_attr": "Color.other: int = constant_int(value=1)\n",
    "del": "del Max_len\n",
    "global": "global Max_len\n",
    "if": "if True:\n    pass\n",
    "for": "for x in []:\n    pass\n",
    "while": "while False:\n    pass\n",
    "try": "try:\n    pass\nexcept Exception:\n    pass\n",
    "with": 'with open("x") as f:\n    pass\n',
    "raise": 'raise ValueError("x")\n',
    "return": "return 1\n",
    "expr_call": 'print("x")\n',
    "expr_name": "Something\n",
    "expr_lambda": "lambda: 1\n",
    "expr_int": "1\n",
    "second_docstring": '"""Second docstring."""\n',
    "bytes_docstring": 'b"""Bytes docstring."""\n',
    "fstring_docstring": 'f"""Docstring {1}."""\n',
    "bad_rst_docstring": '"""\nRefer to :class:`Unknown_thing` and ``unbalanced.\n\n* item\nunindented continuation\n"""\n',
    "pass": "pass\n",
    "assert": "assert True\n",
    "async_def": "async def do_something() -> None:\n    pass\n",
    "plain_def": "def do_something() -> None:\n    pass\n",
    "init_def": "def __init__(value: int) -> None:\n    pass\n",
    "def_with_self": "@verification\ndef do_check(self) -> bool:\n    return True\n",
    "class_in_if": "if True:\n    class Hidden(DBC):\n        pass\n",
    "await_top": "await something()\n",
    "yield_top": "yield 1\n",
    "nonlocal": "nonlocal x\n",
    "type_alias": "Alias = List[int]\n",
    "star_expr": "*a, b = [1, 2]\n",
    "walrus": "(n := 1)\n",
    "match_stmt": "match Max_len:\n    case 1:\n        pass\n",
    "semicolons": "pass; pass\n",
    "line_continuation": "Other_const: int = \\\n    constant_int(value=1)\n",
    "unicode_ident": "\u00e4 = 1\n",
    "very_long_line": 'Long_const: str = constant_str(value="' + "x" * 5000 + '")\n',
    "deep_nesting": "@verification\ndef deeply(text: str) -> bool:\n    return " + "not (" * 40 + "len(text) > 1" + ")" * 40 + "\n",
    "unterminated_string": 'Broken: str = constant_str(value="x)\n',
    "bad_indent": "class Bad(DBC):\n  value: int\n      other: int\n",
    "trailing_backslash": "x = 1 \\",
    "lone_surrogate_escape": 'class Surrogate(Enum):\n    A = "\\ud800"\n',
}
# whole-file transformations
FILE_LEVEL = {"tab_indent", "form_feed", "nul_byte", "bom", "crlf", "cr_only", "coding_cookie"}


def r_top(i: int, r: Dict[str, Any]) -> str:
    if r["stmt"] in FILE_LEVEL:
        return ""
    return TOP[r["stmt"]]


RENDERERS = {"serial": r_serial, "cprim": r_cprim, "docref": r_docref, "layout": r_layout, "constprim": r_constprim, "constset": r_constset, "patternfunc": r_patternfunc, "func": r_func, "invariant": r_invariant, "class": r_class, "enum": r_enum, "top": r_top}


def render_item(i: int, item: Dict[str, Any]) -> str:
    return RENDERERS[item["k"]](i, item)


def apply_file_level(text: str, kind: str) -> str:
    if kind == "tab_indent":
        return text.replace("\n    ", "\n\t")
    if kind == "form_feed":
        return text.replace("\n\n\n", "\n\x0c\n", 1)
    if kind == "nul_byte":
        return text.replace("\n\n\n", "\n\x00\n", 1)
    if kind == "bom":
        return "\ufeff" + text
    if kind == "crlf":
        return text.replace("\n", "\r\n")
    if kind == "cr_only":
        return text.replace("\n", "\r")
    if kind == "coding_cookie":
        return "# -*- coding: latin-1 -*-\n" + text
    raise KeyError(kind)


def render_module(case: Dict[str, Any]) -> str:
    """case = {"items": [item, ...]} (appended to the base) or {"text": "..."} (verbatim)."""
    if "text" in case:
        return case["text"]
    items = case.get("items", [])
    bare = any(it.get("k") == "cprim" and it.get("base") == "bare" for it in items)
    parts: List[str] = [mm.HEADER, BARE_ITEMS if bare else BASE_ITEMS]
    module_doc = ""
    for n, item in enumerate(items, start=1):
        if item.get("k") == "docref" and item.get("place") == "module":
            module_doc = render_item(n, item) + "\n"
            continue
        parts.append("\n\n" + render_item(n, item))
    parts.append(FOOTER)
    text = module_doc + "".join(parts)
    for item in items:
        if item.get("k") == "layout":
            text = LAYOUT_LEAD[item["lead"]] + text + LAYOUT_TAIL[item["tail"]]
    for item in case.get("items", []):
        if item.get("k") == "top" and item["stmt"] in FILE_LEVEL:
            text = apply_file_level(text, item["stmt"])
    return text


def pattern_of(tokens: List[str], seq: List[int]) -> str:
    """A regex token sequence (1-based indices into the alphabet of PipeSyntax.RegexTokens) as a pattern string."""
    out = []
    for k in seq:
        t = tokens[k - 1]
        out.append({"ASTRAL": "\U0001F600", "LF": "\n", "CR": "\r", "FF": "\x0c", "VT": "\x0b", "TAB": "\t"}.get(t, t))
    return "".join(out)


# ---------------------------------------------------------------------------------------------
# C03: run configurations and same-rule pairs (specs/PipeConfig.tla)
# ---------------------------------------------------------------------------------------------

SIMPLE_VALID = '''\
class Color(Enum):
    Red = "RED"
    Green = "GREEN"


@invariant(lambda self: len(self) <= 10, "At most 10 characters")
class Short_text(str, DBC):
    pass


@verification
def matches_lower(text: str) -> bool:
    return match(r"^[a-z]+$", text) is not None


Max_len: int = constant_int(value=10, description="Maximum length.")

Vowels: Set[str] = constant_set(values=["a", "e"], description="Some vowels.")


@invariant(lambda self: matches_lower(self.some_str), "Some string is lower-case.")
@invariant(lambda self: len(self.some_str) > 0, "Some string is not empty.")
class Something(DBC):
    some_str: str
    color: Optional[Color]
    brief_text: Optional[Short_text]

    def __init__(
        self,
        some_str: str,
        color: Optional[Color] = None,
        brief_text: Optional[Short_text] = None,
    ) -> None:
        self.some_str = some_str
        self.color = color
        self.brief_text = brief_text
'''

MODEL_EXTRAS = {
    "valid": "",
    "impl_class": '''

@implementation_specific
class Special(DBC):
    value: int

    def __init__(self, value: int) -> None:
        self.value = value


class With_method(DBC):
    value: int

    def __init__(self, value: int) -> None:
        self.value = value

    @implementation_specific
    def compute(self) -> int:
        raise NotImplementedError()


@verification
@implementation_specific
def is_special(text: str) -> bool:
    raise NotImplementedError()
''',
    "understood_method": '''

class With_understood(DBC):
    value: str

    def __init__(self, value: str) -> None:
        self.value = value

    def is_ok(self) -> bool:
        return len(self.value) > 0
''',
    "contracts": '''

class With_contracts(DBC):
    value: int

    def __init__(self, value: int) -> None:
        self.value = value

    @require(lambda self: self.value > 0)
    @implementation_specific
    def compute(self) -> int:
        raise NotImplementedError()
''',
    "type_error": '''

@invariant(lambda self: len(self.thing) > 1, "Thing is longer than 1.")
class With_type_error(DBC):
    thing: Something

    def __init__(self, thing: Something) -> None:
        self.thing = thing
''',
    "infer_error": '''

@invariant(lambda self: len(self.value) == 10, "Value has 10 characters.")
@invariant(lambda self: len(self.value) == 11, "Value has 11 characters.")
class With_contradiction(DBC):
    value: str

    def __init__(self, value: str) -> None:
        self.value = value
''',
    "front_error": '''

class With_front_errors(DBC):
    value: Unknown_type
    other: int

    def __init__(self, value: Unknown_type) -> None:
        self.value = value


@invariant(lambda self: undefined_function(self.value), "Value is fine.")
class With_more_front_errors(DBC):
    value: str

    def __init__(self, value: str) -> None:
        self.value = value
''',
    "syntax_error": "\n\nclass :\n    pass\n",
    "import_error": "\n\nimport os\nfrom typing import Dict\n",
    "pattern_features": '''

@verification
def matches_features(text: str) -> bool:
    return match(r"^(a|b^c|[z-a]|x*?)$", text) is not None
''',
    "surrogate": '''

class Surrogate(Enum):
    A = "\\ud800"
''',
    "cs_name_collision": '''

class Abc_def(DBC):
    value: int

    def __init__(self, value: int) -> None:
        self.value = value


class Abc_Def(DBC):
    value: int

    def __init__(self, value: int) -> None:
        self.value = value
''',
    "name_collision": '''

class Colliding(DBC):
    some_value: int
    Some_value: int

    def __init__(self, some_value: int, Some_value: int) -> None:
        self.some_value = some_value
        self.Some_value = Some_value
''',
}


def render_config_model(kind: str) -> str:
    return mm.HEADER + SIMPLE_VALID + MODEL_EXTRAS[kind] + FOOTER


def config_snippets(target: str, kind: str) -> Dict[str, Any]:
    """-> {"snippets": {rel: text}, "snippets_raw": {rel: hex}}"""
    sn = dict(mm.default_snippets(target))
    raw: Dict[str, str] = {}
    if kind == "default":
        pass
    elif kind == "empty":
        sn = {}
    elif kind == "junk_key":
        sn["some dir/with space.txt"] = "x"
    elif kind == "non_utf8":
        raw["Types/Bad/bad.txt"] = "fffe00ff"
    elif kind == "bad_content":
        bad = {
            "namespace.txt": "not a namespace!",
            "repo_url.txt": "",
            "package.txt": "1 bad package",
            "qualified_module_name.txt": "1bad name",
            "package_identifier.txt": "",
            "package_documentation.txt": "",
            "schema_base.json": "{not json",
            "root_element.xml": "<not xml",
        }
        for k in list(sn):
            sn[k] = bad.get(k, "")
    elif kind == "hidden_files":
        sn[".gitignore"] = "*.pyc\n"
        sn["Types/.hidden"] = "x"
    elif kind == "nested_dirs":
        sn["Some/Nested/thing.txt"] = "unrelated"
    else:
        raise KeyError(kind)
    return {"snippets": sn, "snippets_raw": raw}


PAIR_HEAD = '''\
@verification
def matches_lower(text: str) -> bool:
    return match(r"^[a-z]+$", text) is not None
'''


def _pair_class(name: str, rule: str) -> str:
    """One of the two unrelated classes; rule == "" -> the valid class."""
    x = name.lower()
    pre, deco, bases, doc = "", "", "(DBC)", ""
    props = ["%s_value: str" % x]
    args = ["%s_value: str" % x]
    body = ["self.%s_value = %s_value" % (x, x)]
    methods = ""
    post = ""
    if rule == "prop_not_initialized":
        props.append("extra: int")
    elif rule == "ctor_arg_without_prop":
        args.append("extra: int")
    elif rule == "optional_without_default":
        props.append("extra: Optional[int]")
        args.append("extra: Optional[int]")
        body.append("self.extra = extra")
    elif rule == "invariant_without_description":
        deco = "@invariant(lambda self: len(self.%s_value) > 0)\n" % x
    elif rule == "duplicate_invariant_description":
        deco = '@invariant(lambda self: len(self.%s_value) > 0, "%s is fine.")\n@invariant(lambda self: len(self.%s_value) < 9, "%s is fine.")\n' % (x, name, x, name)
    elif rule == "unknown_base":
        bases = "(Unknown_%s, DBC)" % x
    elif rule == "unknown_property_type":
        props.append("extra: Unknown_type_%s" % x)
        args.append("extra: Unknown_type_%s" % x)
        body.append("self.extra = extra")
    elif rule == "reserved_property_name":
        props.append("namespace: int")
        args.append("namespace: int")
        body.append("self.namespace = namespace")
    elif rule == "doc_reference_unknown":
        doc = '    """Refer to :class:`Missing_%s`."""\n\n' % x
    elif rule == "invariant_unknown_function":
        deco = '@invariant(lambda self: undefined_%s(self.%s_value), "%s is checked.")\n' % (x, x, name)
    elif rule == "list_of_optionals":
        props.append("extra: List[Optional[int]]")
        args.append("extra: List[Optional[int]]")
        body.append("self.extra = extra")
    elif rule == "property_with_value":
        props.append("extra: int = 1")
    elif rule == "understood_method_bad_body":
        methods = "\n    def compute(self) -> int:\n        while True:\n            pass\n"
    elif rule == "pattern_not_anchored":
        post = '\n\n@verification\ndef matches_%s(text: str) -> bool:\n    return match(r"%s+", text) is not None\n' % (x, x[0])
    elif rule == "bad_docstring_rst":
        doc = '    """Represent ``%s with an unbalanced literal."""\n\n' % x
    elif rule == "constant_set_wrong_literal":
        post = "\n\nSet_%s: Set[str] = constant_set(values=[1])\n" % x
    elif rule == "enum_int_value":
        post = "\n\nclass Enum_%s(Enum):\n    A = 1\n" % x
    elif rule == "default_not_none":
        args[0] = args[0] + ' = "x"'
    elif rule == "unknown_decorator":
        deco = "@unknown_decorator_%s\n" % x
    elif rule == "subscript_arity":
        props.append("extra: List[int, str]")
        args.append("extra: List[int, str]")
        body.append("self.extra = extra")
    elif rule == "self_reference_in_ctor":
        body[0] = "self.%s_value = self.%s_value" % (x, x)
    elif rule == "contract_unknown_argument":
        methods = "\n    @require(lambda missing_%s: missing_%s > 0)\n    @implementation_specific\n    def compute(self) -> int:\n        raise NotImplementedError()\n" % (x, x)
    elif rule == "":
        pass
    else:
        raise KeyError(rule)
    s = "%s%sclass %s%s:\n%s" % (pre, deco, name, bases, doc)
    s += "".join("    %s\n" % p for p in props)
    s += "\n    def __init__(self, %s) -> None:\n" % ", ".join(args)
    s += "".join("        %s\n" % b for b in body)
    s += methods
    s += post
    return s


def render_pair_model(rule: str, on: List[str]) -> str:
    if rule.startswith("same_line_"):
        good = {"Alpha": "len(self.first) >= 1", "Beta": "len(self.second) >= 1"}
        bad = {
            "same_line_len_arity": {"Alpha": "len(self.first, 1) >= 1", "Beta": "len(self.second, 2) >= 1"},
            "same_line_unknown_call": {"Alpha": "undefined_function(self.first)", "Beta": "undefined_function(self.second)"},
        }[rule]
        ops = [bad[site] if site in on else good[site] for site in ("Alpha", "Beta")]
        cls = (
            '\n\n@invariant(lambda self: %s and %s, "Both are fine.")\nclass Gamma(DBC):\n    first: str\n    second: str\n\n'
            "    def __init__(self, first: str, second: str) -> None:\n        self.first = first\n        self.second = second\n" % (ops[0], ops[1])
        )
        return "".join([mm.HEADER, PAIR_HEAD, cls, FOOTER])
    parts = [mm.HEADER, PAIR_HEAD]
    for name in ("Alpha", "Beta"):
        parts.append("\n\n" + _pair_class(name, rule if name in on else ""))
    parts.append(FOOTER)
    return "".join(parts)
