"""Entry point: python -m harness.check <ID> [--tier quick|thorough] [--replay path]."""
import argparse
import importlib
import os
import sys

from harness import core


def main() -> int:
    ap = argparse.ArgumentParser()
    ap.add_argument("pid")
    ap.add_argument("--tier", choices=["quick", "thorough"])
    ap.add_argument("--replay")
    args = ap.parse_args()
    if args.tier:
        os.environ["VERIF_TIER"] = args.tier
    if args.replay:
        os.environ["VERIF_REPLAY"] = args.replay
    mod = importlib.import_module("harness.%s" % args.pid.lower())
    return core.main_wrapper(mod.main)


if __name__ == "__main__":
    sys.exit(main())
