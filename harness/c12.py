"""C12 - JSON Schema enforces every inferred constraint.  G: ConstraintsDocGen; R: run_schema_docs; V: ConstraintsDocTrace (cfg 12)."""
from harness import schema_doc_check


def main() -> int:
    return schema_doc_check.run("C12")
