"""R phase of C20: full generation for every target, with the payload placed in every kind of description,
in an invariant message, in a string constant and (where it is a plain regular expression) in a pattern.

usage: python -m harness.run_c20 <in.json> <out.json>
in:  {"cases": [{"id", "twin_id", "rst", "plain", "pattern"}], "twins": [{"id" (<= 0), "twin_id", ...same...}], "k": K, "targets": [...], "procs": N, "dump_dir": path}
     (a twin is the same meta-model with a harmless word as payload; twin_id tells which twin has the structure of the case)
out: {"twins": [{"target","lang","path","text"}], "hunks": [{"case","target","path","twin","tb","te","text"}],
      "gens": [{"case","target","outcome","exc","files","differing"}], "parses": [{"case","target","path","parser","ok","msg"}],
      "csdocs": [{"case","path","text"}], "dumped": [{"case","target","path","file"}]}
Texts are lists of source units (UTF-16 code units for java / cs / ts, code points otherwise).
"""
from __future__ import annotations

import ast
import difflib
import json
import multiprocessing
import os
import pathlib
import sys
import xml.etree.ElementTree as ET
from typing import Any, Dict, List, Optional, Tuple

from harness import core, mm

LANG = {"csharp": "cs", "golang": "go", "java": "java", "typescript": "ts", "python": "py", "cpp": "cpp"}
EXT = {"cs": (".cs",), "go": (".go",), "java": (".java",), "ts": (".ts",), "py": (".py",), "cpp": (".cpp", ".hpp", ".h")}
UTF16 = ("java", "cs", "ts")


def units(lang: str, s: str) -> List[int]:
    if lang in UTF16:
        b = s.encode("utf-16-le", "surrogatepass")
        return [int.from_bytes(b[i : i + 2], "little") for i in range(0, len(b), 2)]
    return [ord(c) for c in s]


def pylit(s: str) -> str:
    """A Python literal for any text (the meta-model must stay valid Python whatever the payload is)."""
    return json.dumps(s, ensure_ascii=True)


def model_text(case: Dict[str, Any]) -> str:
    """The payload as class / property / enumeration / enumeration-literal / constant / method / argument description,
    as invariant message, as string constant value and (plain regular expressions only) as pattern."""
    rst, plain = case["rst"], case["plain"]
    doc = pylit(rst)
    one_line = rst.replace("\n\n", " ").replace("\n", " ")
    lines = [
        doc,
        "",
        mm.HEADER,
        "class Color(Enum):",
        "    %s" % doc,
        "    Red = \"RED\"",
        "    %s" % doc,
        "    Green = \"GREEN\"",
        "",
        "",
    ]
    if case.get("pattern") is not None:
        lines += [
            "@verification",
            "def matches_something(text: str) -> bool:",
            "    %s" % pylit(rst + "\n\n:param text: " + one_line + "\n:returns: " + one_line),
            "    return match(%s, text) is not None" % pylit("^(" + case["pattern"] + ")$"),
            "",
            "",
            "@invariant(",
            "    lambda self: matches_something(self),",
            "    %s" % pylit(plain),
            ")",
            "class Some_str(str, DBC):",
            "    %s" % doc,
            "",
            "",
        ]
        prop_type = "Some_str"
    else:
        prop_type = "str"
    lines += [
        "@invariant(",
        "    lambda self: len(self.some_str) > 0,",
        "    %s" % pylit(plain),
        ")",
        "class Something(DBC):",
        "    %s" % doc,
        "",
        "    some_str: %s" % prop_type,
        "    %s" % doc,
        "",
        "    color: Optional[Color]",
        "",
        "    def __init__(self, some_str: %s, color: Optional[Color] = None) -> None:" % prop_type,
        "        self.some_str = some_str",
        "        self.color = color",
        "",
        "",
        "Some_const: str = constant_str(value=%s, description=%s)" % (pylit(plain), doc),
        "",
        "",
        '__version__ = "V1"',
        '__xml_namespace__ = "https://dummy.com"',
        "",
    ]
    return "\n".join(lines)


def read_outputs(out_dir: pathlib.Path) -> Dict[str, str]:
    res = {}
    for p in sorted(out_dir.rglob("*")):
        if p.is_file():
            try:
                res[str(p.relative_to(out_dir))] = p.read_text(encoding="utf-8")
            except UnicodeDecodeError:
                res[str(p.relative_to(out_dir))] = p.read_bytes().decode("utf-8", "replace")
    return res


def generate(case: Dict[str, Any], target: str, scratch: pathlib.Path) -> Tuple[Dict[str, Any], Dict[str, str]]:
    res = mm.generate_text(model_text(case), target, scratch)
    if res["exc"] is not None:
        return {"outcome": "exception", "exc": "%s at %s: %s" % (res["exc"]["type"], res["exc"]["frame"], res["exc"]["msg"][:160])}, {}
    if res["rc"] != 0:
        return {"outcome": "reported", "exc": (res["stderr"] or "")[:300]}, {}
    return {"outcome": "generated", "exc": ""}, read_outputs(pathlib.Path(res["out_dir"]))


def real_parse(path: str, text: str) -> Optional[Dict[str, Any]]:
    """The real parsers that exist in-process: Python, JSON, XML."""
    try:
        if path.endswith(".py"):
            ast.parse(text)
            return {"parser": "python ast.parse", "ok": True, "msg": ""}
        if path.endswith(".json"):
            json.loads(text)
            return {"parser": "json.loads", "ok": True, "msg": ""}
        if path.endswith((".xml", ".xsd")):
            ET.fromstring(text)
            return {"parser": "xml.etree", "ok": True, "msg": ""}
    except (SyntaxError, ValueError, ET.ParseError) as ex:
        return {"parser": "python ast.parse" if path.endswith(".py") else "json.loads" if path.endswith(".json") else "xml.etree", "ok": False, "msg": "%s: %s" % (type(ex).__name__, str(ex)[:160])}
    return None


def cs_doc_blocks(text: str) -> List[str]:
    """The documentation comments of a C# file: maximal runs of lines that start with ///."""
    blocks: List[str] = []
    cur: List[str] = []
    for line in text.split("\n"):
        s = line.lstrip(" \t")
        if s.startswith("///"):
            cur.append(s[3:])
        else:
            if cur:
                blocks.append("\n".join(cur))
                cur = []
    if cur:
        blocks.append("\n".join(cur))
    return blocks


def hunks_of(lang: str, ttext: str, vtext: str, k: int) -> List[Dict[str, Any]]:
    """Differences between twin and variant as replacements of twin ranges (in source units, start aligned to k)."""
    tl = ttext.split("\n")
    vl = vtext.split("\n")
    tl = [l + "\n" for l in tl[:-1]] + [tl[-1]]
    vl = [l + "\n" for l in vl[:-1]] + [vl[-1]]
    tu = [units(lang, l) for l in tl]
    vu = [units(lang, l) for l in vl]
    toff = [0]
    for u in tu:
        toff.append(toff[-1] + len(u))
    sm = difflib.SequenceMatcher(None, tl, vl, autojunk=False)
    raw = []
    for tag, i1, i2, j1, j2 in sm.get_opcodes():
        if tag == "equal":
            continue
        raw.append([toff[i1], toff[i2], [x for u in vu[j1:j2] for x in u]])
    flat_t = [x for u in tu for x in u]
    out: List[Dict[str, Any]] = []
    for tb, te, txt in raw:
        atb = (tb // k) * k
        txt = flat_t[atb:tb] + txt
        if out and atb < out[-1]["te"]:
            # overlaps the previous hunk after alignment: merge
            prev = out[-1]
            prev["text"] = prev["text"] + flat_t[prev["te"] : tb] + txt[tb - atb :]
            prev["te"] = te
        else:
            out.append({"tb": atb, "te": te, "text": txt})
    # self-check of the projection: twin with the hunks substituted is the variant
    rebuilt: List[int] = []
    at = 0
    for h in out:
        rebuilt += flat_t[at : h["tb"]] + h["text"]
        at = h["te"]
    rebuilt += flat_t[at:]
    if rebuilt != [x for u in vu for x in u]:
        raise SystemExit("harness error: hunks do not rebuild the variant")
    return out


def work(args: Tuple[Dict[str, Any], Dict[str, Any]]) -> Dict[str, Any]:
    case, cfg = args
    k = cfg["k"]
    twins: Dict[str, Dict[str, str]] = cfg["twin_files"][str(case["twin_id"])]
    scratch = pathlib.Path(os.environ["TMPDIR"]) / ("c20_%d" % os.getpid())
    res: Dict[str, Any] = {"gens": [], "hunks": [], "parses": [], "csdocs": [], "dumped": []}
    for target in cfg["targets"]:
        g, files = generate(case, target, scratch / target)
        differing = 0
        for path, text in files.items():
            ttext = twins.get(target, {}).get(path)
            if ttext is not None and ttext == text:
                continue
            differing += 1
            rp = real_parse(path, text)
            if rp is not None:
                res["parses"].append(dict(rp, case=case["id"], target=target, path=path))
            lang = LANG.get(target)
            if lang is None or not path.endswith(EXT[lang]):
                continue
            if ttext is None:
                res["hunks"].append({"case": case["id"], "twin_id": case["twin_id"], "target": target, "path": path, "twinpath": None, "tb": 0, "te": 0, "text": units(lang, text)})
            else:
                for h in hunks_of(lang, ttext, text, k):
                    res["hunks"].append(dict(h, case=case["id"], twin_id=case["twin_id"], target=target, path=path, twinpath=path))
            if lang == "cs":
                for b in cs_doc_blocks(text):
                    res["csdocs"].append({"case": case["id"], "path": path, "text": [ord(c) for c in "<doc>" + b + "</doc>"]})
            if lang in ("java", "cpp") and cfg.get("dump_dir"):
                dp = pathlib.Path(cfg["dump_dir"]) / ("case%d" % case["id"]) / target / path
                dp.parent.mkdir(parents=True, exist_ok=True)
                dp.write_text(text, encoding="utf-8")
                res["dumped"].append({"case": case["id"], "target": target, "path": path, "file": str(dp)})
        g.update({"case": case["id"], "target": target, "files": len(files), "differing": differing})
        res["gens"].append(g)
    return res


def main() -> None:
    in_path, out_path = sys.argv[1], sys.argv[2]
    core.assert_repo_bound()
    cfg = json.load(open(in_path))
    k = cfg["k"]
    scratch = pathlib.Path(os.environ["TMPDIR"]) / "c20_twin"
    out: Dict[str, Any] = {"twins": [], "hunks": [], "gens": [], "parses": [], "csdocs": [], "dumped": [], "k": k}
    twin_files: Dict[str, Dict[str, Dict[str, str]]] = {}
    for twin_case in cfg["twins"]:
        tid = twin_case["twin_id"]
        twin_files[str(tid)] = {}
        for target in cfg["targets"]:
            g, files = generate(twin_case, target, scratch / target)
            g.update({"case": twin_case["id"], "target": target, "files": len(files), "differing": 0})
            out["gens"].append(g)
            if g["outcome"] != "generated":
                raise SystemExit("harness error: the harmless twin model is not generated for %s: %s" % (target, g["exc"]))
            twin_files[str(tid)][target] = files
            for path, text in files.items():
                rp = real_parse(path, text)
                if rp is not None:
                    out["parses"].append(dict(rp, case=twin_case["id"], target=target, path=path))
                lang = LANG.get(target)
                if lang is not None and path.endswith(EXT[lang]):
                    out["twins"].append({"twin_id": tid, "target": target, "lang": lang, "path": path, "text": units(lang, text)})
                    if lang == "cs":
                        for b in cs_doc_blocks(text):
                            out["csdocs"].append({"case": twin_case["id"], "path": path, "text": [ord(c) for c in "<doc>" + b + "</doc>"]})
                    if lang in ("java", "cpp") and cfg.get("dump_dir"):
                        dp = pathlib.Path(cfg["dump_dir"]) / ("twin%d" % tid) / target / path
                        dp.parent.mkdir(parents=True, exist_ok=True)
                        dp.write_text(text, encoding="utf-8")
                        out["dumped"].append({"case": twin_case["id"], "target": target, "path": path, "file": str(dp)})
    wcfg = {"k": k, "targets": cfg["targets"], "twin_files": twin_files, "dump_dir": cfg.get("dump_dir")}
    jobs = [(c, wcfg) for c in cfg["cases"]]
    procs = int(cfg.get("procs", 4))
    if procs > 1 and len(jobs) > 1:
        with multiprocessing.Pool(procs) as pool:
            results = pool.map(work, jobs, chunksize=max(1, len(jobs) // (procs * 4)))
    else:
        results = [work(j) for j in jobs]
    for r in results:
        for key in ("gens", "hunks", "parses", "csdocs", "dumped"):
            out[key].extend(r[key])
    json.dump(out, open(out_path, "w"))


if __name__ == "__main__":
    main()
