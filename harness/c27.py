"""C27 — message wrapping keeps text and layout rules.  M: WrapAlgo; G: WrapGen; R: run_c27; V: WrapTrace."""
import json
import random
import re

from harness import core


def real_descriptions(limit: int, rnd: random.Random):
    """code->spec inputs: invariant descriptions of the repository's own meta-models (extracted textually)."""
    texts = set()
    for p in sorted((core.REPO / "dev" / "test_data").rglob("meta_model.py")):
        try:
            src = p.read_text(encoding="utf-8")
        except Exception:
            continue
        for m in re.finditer(r'@invariant\(\s*lambda[^\n]*?:.*?,\s*\n?\s*((?:"(?:[^"\\\n]|\\.)*"\s*)+)\)', src, re.S):
            parts = re.findall(r'"((?:[^"\\\n]|\\.)*)"', m.group(1))
            t = "".join(parts)
            if 0 < len(t) < 160 and "\\" not in t:
                texts.add(t)
    texts = sorted(texts)
    rnd.shuffle(texts)
    return texts[:limit]


def main() -> int:
    ck = core.Check("C27", "model_checking")
    rnd = random.Random(ck.seed)
    suffix = "" if ck.quick else "_thorough"
    # M: design-level
    ck.model_check("MC_WrapAlgo", "MC_WrapAlgo%s.cfg" % suffix, "greedy algorithm refines the three clauses", workers=16)
    # G
    cases_p = ck.work / "cases.json"
    g = ck.tlc("WrapGen", "WrapGen%s.cfg" % suffix, what="G: texts x widths", env={"VERIF_OUT": str(cases_p)}, count=False)
    cases = core.read_json(cases_p)
    if ck.replay_case is not None:
        rc = ck.replay_case
        cases = [{"text": core.cps(rc["text"]), "width": rc["width"]}] * 8
    n_spec = len(cases)
    if not ck.quick and len(cases) > 400000:
        rnd.shuffle(cases)
        cases = cases[:400000]
    # code -> spec: real descriptions at several widths, plus random perturbations (double spaces, leading/trailing spaces)
    real = real_descriptions(60 if ck.quick else 400, rnd)
    widths = [10, 25, 60] if ck.quick else [5, 10, 17, 25, 40, 60, 70]
    for t in real:
        variants = [t, " " + t, t + " ", t.replace(" ", "  ", 1)]
        for v in variants:
            for w in widths:
                cases.append({"text": core.cps(v), "width": w})
    n_real = len(cases) - n_spec
    core.write_json(cases_p, cases)
    # R
    obs_p = ck.work / "obs.json"
    ck.impl("harness.run_c27", [str(cases_p), str(obs_p)])
    obs = core.read_json(obs_p)
    # V (in chunks so that TLC's JSON loading stays small)
    chunk = 60000
    nontrivial = 0
    for off in range(0, len(obs), chunk):
        part = obs[off : off + chunk]
        pp = ck.work / "obs_part.json"
        core.write_json(pp, part)
        res = ck.tlc("WrapTrace", what="V: observed segments satisfy the clauses", env={"VERIF_OBS": str(pp)}, cont=True, workers=1)
        for line in res.printed:
            m = re.search(r"nontrivial\", (\d+), (\d+), (\d+)", line)
            if m:
                nontrivial += int(m.group(2))
        for v in res.violations:
            i = int(res.var_of(v, "i") or "0")
            o = part[i - 1]
            text = core.from_cps(o["text"])
            key = {"clause": v["invariant"], "text": text, "width": o["width"]}
            ck.violation(key, v["invariant"], {"text": text, "width": o["width"]}, {"segs": [core.from_cps(s) for s in o["segs"]], "outcome": o["outcome"], "exc": o["exc"]}, detail="text=%r width=%d segs=%r %s" % (text, o["width"], [core.from_cps(s) for s in o["segs"]], o["exc"]))
    ck.cov["evaluations"] = len(obs)
    ck.cov["traces_validated_against_impl"] = len(obs)
    ck.cov["distinct_nontrivial"] = nontrivial
    ck.cov["rule"] = "G: all sequences of <= MaxParts parts over a 9-word vocabulary (articles, article-like prefixes, empty parts, long word) x widths 1..MaxWidth (TLC-enumerated, %d cases) + %d cases from real invariant descriptions of dev/test_data meta-models; non-trivial = has an article/word pair to glue and more than one segment, or contains a segment longer than the width" % (n_spec, n_real)
    ck.cov["exhaustive"] = True
    ck.cov["samples"] = [{"text": core.from_cps(o["text"]), "width": o["width"], "segs": [core.from_cps(s) for s in o["segs"]]} for o in (obs[7], obs[len(obs) // 2], obs[-1])]
    ck.assumptions += ["TLC, SANY, CommunityModules Json", "most permissive reading: a segment longer than the width must be a single token (word or article+word, with its separating space)"]
    if nontrivial == 0 and ck.replay_case is None:
        raise core.MachineryFailure("vacuous run")
    return ck.finish()
