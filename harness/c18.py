"""C18 — regex VM programs match like the pattern.

M: MC_RegexVM (the VM as a state machine with one action per instruction kind, run on Translate(tree), the transcribed
   Thompson construction: verdict = FullMatch = big-step semantics, termination, threads stay inside the program).
G: RegexVMGen (anchored trees by family with concrete syntax and a line-break-free alphabet) + repository corpus.
R: harness.run_c18 (front end decides acceptance; intermediate.revm.translate on the parsed tree and on its UTF-16
   variant; generated revm.hpp/.cpp compiled with g++ and run on every (program, string) pair).
V: RegexVMTrace: TLC executes the spec's VM on the real program for every string and compares with FullMatch; the C++
   matcher's verdicts are compared with FullMatch as well.
"""
import concurrent.futures
import os
import pathlib
import shutil

from harness import core
from harness import regex_orch as ro
from harness import c16


def corpus_alphabet(text: str):
    pts = []
    for ch in text:
        c = ord(ch)
        if (ch.isalnum() or c >= 0x10000) and not (0xD800 <= c <= 0xDFFF) and c not in pts and c != 122:
            pts.append(c)
        if len(pts) == 3:
            break
    return sorted(set(pts + [122]))


def main() -> int:
    ck = core.Check("C18", "model_checking")
    suffix = "" if ck.quick else "_thorough"
    if shutil.which("g++") is None:
        raise core.MachineryFailure("g++ is missing: the generated C++ matcher cannot be compiled")
    replay = os.environ.get("VERIF_REPLAY")
    # M
    pool = concurrent.futures.ThreadPoolExecutor(max_workers=1)
    m_phase = None
    if not replay:
        # runs beside G and R (it involves no repo code); joined before V
        m_phase = pool.submit(ck.model_check, "MC_RegexVM", "MC_RegexVM%s.cfg" % suffix, "VM state machine on Translate(tree): verdict = FullMatch = big-step semantics, termination", workers=8, timeout=1700)
    if replay:
        cases = [core.read_json(pathlib.Path(replay))["case"]]
        n_gen = n_corpus = 0
    else:
        gen = ro.generate(ck, "RegexVMGen", "RegexVMGen%s.cfg" % suffix, "G: anchored trees by family, with concrete syntax and line-break-free alphabet", "vm")
        cases = [{"src": "tree:" + c["fam"], "text": c["text"], "alpha": c["alpha"], "maxlen": c["maxlen"]} for c in gen]
        n_gen = len(cases)
        for t in c16.corpus_texts():
            if t.startswith("^") and t.endswith("$") and "\\ud" not in t.lower():
                cases.append({"src": "corpus", "text": core.cps(t), "alpha": corpus_alphabet(t), "maxlen": 3})
        n_corpus = len(cases) - n_gen
    # distinct inputs only: one case per pattern text (the first one wins: generated trees before tokens / corpus)
    seen_texts = set()
    distinct = []
    for c in cases:
        t = tuple(c["text"])
        if t not in seen_texts:
            seen_texts.add(t)
            distinct.append(c)
    n_dropped = len(cases) - len(distinct)
    cases = distinct
    cases_p = ck.work / "cases.json"
    core.write_json(cases_p, cases)
    obs_p = ck.work / "obs.json"
    rp = ck.impl("harness.run_c18", [str(cases_p), str(obs_p), "--cpp", str(ck.work / "cpp")], timeout=2400)
    ck.notes += [l for l in rp.stdout.splitlines() if l.startswith("timing")]
    obs = core.read_json(obs_p)
    if len(obs) != len(cases):
        raise core.MachineryFailure("runner returned %d observations for %d cases" % (len(obs), len(cases)))
    if m_phase is not None:
        m_phase.result()  # a violated design-level property raises MachineryFailure here
    pool.shutdown()
    violations, counters = ro.validate(ck, "RegexVMTrace", None, obs, "V: spec VM on the real program and the compiled C++ matcher agree with FullMatch")
    by_key = {}
    for v in violations:
        o = obs[v["n"]]
        text = core.from_cps(o["text"])
        key = {"clause": v["invariant"], "culprit": v["culprit"]}
        observation = {"outcome": o["outcome"], "exc": o["exc"], "program": o["prog"], "outcome16": o["outcome16"], "exc16": o["exc16"], "cpp": o["cpp"], "cpp_detail": o["cpp_detail"]}
        ck.violation(key, v["invariant"], cases[v["n"]], observation, detail="pattern=%r translate=%s %s cpp=%s %s" % (text, o["outcome"], o["exc"]["msg"][:80], o["cpp"], o["cpp_detail"][:80]))
        k = "%s / %s" % (v["invariant"], v["culprit"])
        by_key.setdefault(k, [0, text])
        by_key[k][0] += 1
    ck.notes += ["violating cases by key: %s: %d (e.g. %r)" % (k, n, ex) for k, (n, ex) in sorted(by_key.items())]
    n_acc = sum(c[1] for c in counters)
    n_emit = sum(c[2] for c in counters)
    n_cpp = sum(c[3] for c in counters)
    n_branching = sum(c[4] for c in counters)
    n_16 = sum(c[5] for c in counters)
    ck.cov["evaluations"] = len(obs)
    ck.cov["traces_validated_against_impl"] = len(obs)
    ck.cov["distinct_nontrivial"] = n_branching
    ck.cov["rule"] = (
        "G: %d anchored trees of RegexVMGen.tla (families V1..V5) + %d anchored corpus patterns; %d accepted by the meta-model front end "
        "(run.load_model on a meta-model with the pattern as verification function), %d programs emitted, %d run by the compiled generated C++ matcher "
        "to completion, %d UTF-16 variant programs; non-trivial = emitted program with at least one jump or split, executed by TLC on every string "
        "without line breaks of length <= maxlen over the boundary alphabet" % (n_gen, n_corpus, n_acc, n_emit, n_cpp, n_16)
    )
    ck.cov["rule"] += "; %d generated cases whose pattern text was already present were dropped before running (distinct texts only)" % n_dropped
    ck.cov["exhaustive"] = True
    pick = [o for o in obs if o["outcome"] == "ok" and any(i["op"] == "split" for i in o["prog"])]
    pick = [pick[k] for k in (0, len(pick) // 2, len(pick) - 1)] if len(pick) >= 3 else obs[:3]
    ck.cov["samples"] = [{"src": o["src"], "pattern": core.from_cps(o["text"]), "program": o["prog"], "alphabet": o["alpha"], "maxlen": o["maxlen"], "cpp": o["cpp"], "cpp_accepted_strings": len(o["cpp_accepted"])} for o in pick]
    ck.assumptions += [
        "TLC, SANY, CommunityModules Json; g++ 12 (C++17) for the generated revm.hpp/.cpp, with a declaration-only stand-in for tl/expected.hpp",
        "the front end's verdict on a pattern is taken from run.load_model on a meta-model that uses the pattern in a verification function",
        "a C++ Match() call is observed as 'hang' when the program exceeds 300 ms of CPU on the case's strings and the string it got stuck on (length <= 5) does not finish within 1 s of CPU on its own either",
        "the big-step VM semantics used for conformance is model-checked against the small-step state machine in the same run (M)",
        "wchar_t is 32 bit here: the compiled C++ runs the UTF-32 programs; the UTF-16 programs are run by the spec VM only",
    ]
    if (n_branching == 0 or n_cpp == 0) and not replay:
        raise core.MachineryFailure("vacuous run: no branching program emitted or the C++ matcher never ran")
    return ck.finish()
