"""R phase of C07: per invariant tree (from ExprGen) — acceptance by the real front end + type inference
(+ --target python end to end), and the CPython evaluation of the rendered lambda on every instance (S).

usage: python -m harness.run_c07 <cases.json> <obs.json>
"""
from __future__ import annotations

import itertools
import json
import pathlib
import sys
import time
from typing import Any, Callable, Dict, List, Sequence

from harness import core, mm
from harness import expr_py as X


def log(msg: str) -> None:
    print("[run_c07 %6.1fs] %s" % (time.time() - T0, msg), file=sys.stderr)


T0 = time.time()


def build_text(gen: Dict[str, Any], invs: Sequence[Dict[str, Any]]) -> str:
    items = X.schema_items(gen["schema"], gen["classdefs"], gen["globals"], {"Subject": [{"expr": c["src"], "desc": c["desc"]} for c in invs]})
    # An unrelated class declared BEFORE Subject that shares the descriptions of the invariants containing calls
    # (descriptions need to be unique only within a class): a verdict on an invariant must not depend on what
    # other classes of the same model say under the same description.
    twins = [{"expr": "self.n == self.n", "desc": c["desc"]} for c in invs if "(" in c["src"] and has_call(c["e"])]
    first_class = next(k for k, it in enumerate(items) if it.get("kind") == "class")
    items.insert(first_class, {"kind": "class", "name": "Twin", "props": [{"name": "n", "type": "int"}], "invs": twins})
    return mm.render({"items": items})


def has_call(e: Dict[str, Any]) -> bool:
    return e["k"] in ("call", "len") or any(has_call(x) for x in e["a"])


def bisect(cases: List[Dict[str, Any]], ok: Callable[[List[Dict[str, Any]]], bool], mark: Callable[[Dict[str, Any]], None]) -> List[Dict[str, Any]]:
    """Return the cases that pass `ok` individually-in-a-batch; `mark` is called for each rejected one.
    Assumes rejection is caused by individual invariants (a batch of good ones is good)."""
    if not cases:
        return []
    if ok(cases):
        return list(cases)
    if len(cases) == 1:
        mark(cases[0])
        return []
    mid = len(cases) // 2
    return bisect(cases[:mid], ok, mark) + bisect(cases[mid:], ok, mark)


def main() -> None:
    cases_path, out_path = sys.argv[1], sys.argv[2]
    core.assert_repo_bound()
    from aas_core_codegen.intermediate import type_inference as ti

    gen = json.load(open(cases_path))
    cases = gen["cases"]
    scratch = pathlib.Path(out_path).parent / "c07_scratch"
    for k, c in enumerate(cases):
        c["id"] = k
        c["desc"] = "Invariant %d holds." % k
        c["stage"] = ""
        c["detail"] = ""
        try:
            c["src"] = X.render_expr(c["e"])
        except ValueError as ex:
            raise SystemExit("cannot render case %d: %s" % (k, ex))
    log("%d cases rendered" % len(cases))

    # --- acceptance 1: the front end (run.load_model), bisecting rejected batches ----------------
    n_loads = [0]

    def loads(batch: List[Dict[str, Any]]) -> bool:
        n_loads[0] += 1
        res = mm.load_model(build_text(gen, batch), scratch / ("load%d" % n_loads[0]))
        loads.last = res  # type: ignore
        return res["outcome"] == "accepted"

    def mark_parse(c: Dict[str, Any]) -> None:
        res = loads.last  # type: ignore
        c["stage"] = "front_end" if res["outcome"] == "rejected" else "front_end_exception"
        c["detail"] = str(res["exc"] or res["error"])[:300]

    if not loads([]):
        raise SystemExit("the schema without invariants is rejected: %s" % (loads.last["error"] or loads.last["exc"],))  # type: ignore
    parsed = bisect(cases, loads, mark_parse)
    log("front end: %d of %d pass (%d loads)" % (len(parsed), len(cases), n_loads[0]))

    # --- acceptance 2: the type inference every SDK target runs, per invariant --------------------
    assert loads(parsed)
    st = loads.last["st"]  # type: ignore
    base = ti.populate_base_environment(st)
    subject = st.must_find_class("Subject")
    env = ti.MutableEnvironment(parent=base)
    env.set(identifier="self", type_annotation=ti.OurTypeAnnotation(our_type=subject))
    by_desc = {c["desc"]: c for c in parsed}
    seen = set()
    for inv in subject.invariants:
        c = by_desc[inv.description]
        seen.add(c["id"])
        try:
            _, err = ti.infer_for_invariant(inv, env)
        except Exception as ex:  # an observation
            c["stage"] = "inference_exception"
            c["detail"] = "%s: %s" % (type(ex).__name__, str(ex)[:200])
            continue
        if err is not None:
            c["stage"] = "inference"
            c["detail"] = "; ".join(str(e.message)[:120] for e in (err.underlying or [err]))[:300]
    if seen != {c["id"] for c in parsed}:
        raise SystemExit("invariants lost between text and symbol table")
    inferred = [c for c in parsed if c["stage"] == ""]
    log("inference: %d of %d pass" % (len(inferred), len(parsed)))

    # --- acceptance 3: end to end, --target python must exit 0 (bisecting) ------------------------
    n_gens = [0]

    def generates(batch: List[Dict[str, Any]]) -> bool:
        n_gens[0] += 1
        res = mm.generate_text(build_text(gen, batch), "python", scratch / ("gen%d" % n_gens[0]), root_class="Subject")
        generates.last = res  # type: ignore
        return res["rc"] == 0

    def mark_python(c: Dict[str, Any]) -> None:
        res = generates.last  # type: ignore
        c["stage"] = "python_target" if res["exc"] is None else "python_target_exception"
        c["detail"] = (str(res["exc"]) if res["exc"] else res["stderr"])[:300]

    accepted = bisect(inferred, generates, mark_python)
    log("--target python: %d of %d pass (%d generations)" % (len(accepted), len(inferred), n_gens[0]))

    # --- S: CPython evaluates the very source text on real objects ---------------------------------
    world = X.World(gen["schema"]["enums"], gen["globals"]["vals"], X.functions_source(gen["schema"], gen["globals"]))
    n_eval = 0
    obs = []
    for c in cases:
        fn = world.compile_lambda(c["src"])
        doms = gen["domains"][c["dom"]]
        codes = []
        for combo in itertools.product(*[doms[p] for p in c["ms"]]):
            fields = dict(gen["default"])
            for p, v in zip(c["ms"], combo):
                fields[p] = v
            inst = world.decode({"t": "inst", "c": "Subject", "id": "self", "f": fields})
            codes.append(X.run_lambda(fn, inst))
            n_eval += 1
        if len(codes) != c["ninst"]:
            raise SystemExit("case %d: %d instances, the spec says %d" % (c["id"], len(codes), c["ninst"]))
        obs.append({"id": c["id"], "e": c["e"], "acc": c["stage"] == "", "stage": c["stage"], "py": codes, "src": c["src"], "detail": c["detail"], "wt": c["wt"]})
    log("S: %d evaluations" % n_eval)
    json.dump(obs, open(out_path, "w"))


if __name__ == "__main__":
    main()
