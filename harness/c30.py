"""C30 — generated constants and enumerations match the meta-model.

G: SdkConstGen (primitive constants at boundary values, constant sets with superset_of chains / forks / diamonds, enumerations
with near-miss texts);  R: run_c30 (generated constants / types / stringification);  V: SdkConstTrace (ConstantSetClosure,
enumeration <-> text of Sdk.tla).
"""
from __future__ import annotations

import collections
import os
import pathlib
from typing import Any, Dict, List

from harness import core
from harness import sdk_tlc

DEPS = ["Sdk"]


def graph_shape(sets: List[Dict[str, Any]]) -> str:
    k = len(sets)
    edges = sum(len(s["supersetOf"]) for s in sets)
    if edges == 0:
        return "independent"
    indeg: Dict[int, int] = collections.Counter()
    for s in sets:
        for j in s["supersetOf"]:
            indeg[j] += 1
    multi_parent = any(len(s["supersetOf"]) >= 2 for s in sets)
    shared = any(c >= 2 for c in indeg.values())
    if multi_parent and shared:
        return "diamond"
    if multi_parent:
        return "join"
    if shared:
        return "fork"
    return "chain"


def value_class(v: Dict[str, Any]) -> str:
    k = v["k"]
    if k == "str":
        cps = v["cps"]
        tags = []
        if any(c in (39, 34) for c in cps):
            tags.append("quote")
        if 92 in cps:
            tags.append("backslash")
        if any(c < 32 or c == 127 for c in cps):
            tags.append("control")
        if any(c > 0xFFFF for c in cps):
            tags.append("astral")
        elif any(c > 127 for c in cps):
            tags.append("non_ascii")
        return "str:" + ("+".join(tags) or "plain")
    if k == "int":
        return "int:" + ("negative" if v["tok"].startswith("-") else "large" if len(v["tok"]) > 9 else "small")
    if k == "float":
        return "float:" + ("non_finite" if v["tok"] in ("inf", "-inf", "nan") else "negative" if v["tok"].startswith("-") else "integer_literal" if v["tok"].isdigit() else "finite")
    if k == "bytes":
        return "bytes"
    return k


def main() -> int:
    ck = core.Check("C30", "exploration")
    suffix = "" if ck.quick else "_thorough"
    gen = sdk_tlc.generate(ck, "SdkConstGen", "SdkConstGen%s.cfg" % suffix, DEPS, ["prims", "sets", "enums"], 1, "G: constants, constant sets, enumerations")
    replay = os.environ.get("VERIF_REPLAY")
    prims, sets, enums = gen["prims"], gen["sets"], gen["enums"]
    if replay:
        case = core.read_json(pathlib.Path(replay))["case"]
        prims = [c for c in prims if case.get("rec") == "prim" and c["declared"] == case.get("declared")]
        sets = [c for c in sets if case.get("rec") == "sets" and c["sets"] == case.get("sets")]
        enums = [c for c in enums if case.get("rec") == "enum" and c["enum"] == case.get("enum")]
        if not (prims or sets or enums):
            raise core.MachineryFailure("the replayed case is not in the generated case space (other tier / seed?)")
    core.write_json(ck.work / "prims.json", prims)
    core.write_json(ck.work / "sets.json", sets)
    core.write_json(ck.work / "enums.json", enums)
    ck.impl("harness.run_c30", [str(ck.work / "prims.json"), str(ck.work / "sets.json"), str(ck.work / "enums.json"), str(ck.work / "obs.json"), str(ck.work / "sdk")], timeout=3000)
    obs = core.read_json(ck.work / "obs.json")
    viols, _ = sdk_tlc.validate(ck, "SdkConstTrace", "SdkConstTrace.cfg", obs, "V: constants, constant sets, enumerations", max(1, sdk_tlc.MAX_PAR // 2))
    for inv, idx in viols:
        rec = obs[idx]
        if rec["rec"] == "prim":
            key = {"clause": inv, "value": value_class(rec["declared"]), "found": rec["found"]}
            case = {"rec": "prim", "declared": rec["declared"]}
            seen = {"observed": rec["observed"], "found": rec["found"]}
        elif rec["rec"] == "sets":
            if any(0 in o for o in rec["observed"]):
                # a generated literal is none of the declared values: which declared literals are missing instead?
                missing = sorted({l for s, o in zip(rec["sets"], rec["observed"]) for l in s["own"] if l not in o})
                key = {"clause": inv, "kind": rec["kind"], "diagnosis": "unknown_value_instead_of_literal_" + "+".join(str(l) for l in missing)}
            else:
                key = {"clause": inv, "kind": rec["kind"], "shape": graph_shape(rec["sets"]), "conforming": rec["conforming"]}
            case = {"rec": "sets", "kind": rec["kind"], "sets": rec["sets"]}
            seen = {"observed": rec["observed"]}
        else:
            key = {"clause": inv, "enum": rec["id"], "distinct": rec["distinct"]}
            case = {"rec": "enum", "enum": rec["enum"]}
            seen = {"members": rec["members"], "roundtrip": rec["roundtrip"], "texts": rec["texts"], "results": rec["results"]}
        ck.violation(key, inv, case, seen, detail="%s %s" % (rec["rec"], rec["detail"][:300]))
    accepted = [r for r in obs if r["accepted"]]
    by = collections.Counter("%s:%s" % (r["rec"], "accepted" if r["accepted"] else "rejected") for r in obs)
    shapes = collections.Counter(graph_shape(r["sets"]) for r in obs if r["rec"] == "sets" and r["accepted"])
    ck.cov["evaluations"] = len(obs)
    ck.cov["traces_validated_against_impl"] = len(obs)
    ck.cov["distinct_nontrivial"] = len(accepted)
    ck.cov["rule"] = (
        "G (TLC): %d primitive constants at boundary values, %d constant-set scenarios (<= 4 sets; every superset_of DAG over them: chains, forks, joins, diamonds; "
        "conforming declarations and declarations that omit an inherited literal) each rendered for str / int / enumeration literals, %d enumerations with near-miss "
        "texts (+ names and case variants added by the harness); non-trivial = the front end accepted the declaration, so the generated SDK is constrained" % (len(prims), len(sets), len(enums))
    )
    ck.cov["by_kind"] = dict(by)
    ck.cov["accepted_set_graph_shapes"] = dict(shapes)
    ck.cov["near_miss_texts"] = sum(len(r["texts"]) for r in obs if r["rec"] == "enum" and r["accepted"])
    ck.cov["rejected_primitive_declarations"] = sorted({value_class(r["declared"]) for r in obs if r["rec"] == "prim" and not r["accepted"]})
    for r in obs:
        if r["rec"] == "sets" and r["accepted"] and graph_shape(r["sets"]) == "diamond":
            ck.cov["samples"].append({"kind": r["kind"], "sets": r["sets"], "observed": r["observed"]})
            break
    for r in obs:
        if r["rec"] == "enum" and r["accepted"]:
            ck.cov["samples"].append({"enum": r["enum"], "texts": r["texts"][:6], "results": r["results"][:6]})
            break
    for r in obs:
        if r["rec"] == "prim" and r["accepted"] and r["declared"]["k"] == "str" and len(r["declared"]["cps"]) > 2:
            ck.cov["samples"].append({"declared": r["declared"], "observed": r["observed"]})
            break
    ck.assumptions += [
        "TLC, SANY, CommunityModules (Json, IOUtils, SequencesExt)",
        "number constants are opaque tokens for TLC (compared as repr on the Python side)",
        "declarations the front end refuses (negative numbers, bytearray constants, duplicate enumeration values, non-conforming supersets ...) leave the property's antecedent false and are only counted",
    ]
    if not replay and (not accepted or not any(r["rec"] == "sets" and r["accepted"] for r in obs) or not any(r["rec"] == "enum" and r["accepted"] for r in obs) or not any(r["rec"] == "prim" and r["accepted"] for r in obs)):
        raise core.MachineryFailure("vacuous run")
    return ck.finish()
