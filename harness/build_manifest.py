"""Merge manifest.d/*.json into MANIFEST.json (kept valid at all times) and validate against the schema."""
import json
import pathlib
import sys

import jsonschema

V = pathlib.Path(__file__).resolve().parent.parent
BASE = {
    "version": 1,
    "setup_cmd": "./bin/setup",
    "hooks": {
        "guard": "AAS_CORE_CODEGEN_VERIF",
        "enable": "no source hooks are committed: the harness observes /repo through public entry points, sys.addaudithook and wrappers it installs at run time (DESIGN.md §4); the guard name is reserved",
        "baseline_off_cmd": "mkdir -p /verif/work && cd /repo && /venv/bin/python -m pytest -ra -q -p no:cacheprovider --timeout=900 --continue-on-collection-errors --junitxml=/verif/work/baseline.junit.xml",
        "source_commits": [],
        "add_only": True,
    },
}


def main() -> int:
    props = [json.loads(l)["id"] for l in (V / "properties.jsonl").read_text().splitlines() if l.strip()]
    checks, engines, na = [], {}, []
    ready = set((V / "manifest.d" / "_ready.txt").read_text().split())
    for pid in props:
        f = V / "manifest.d" / (pid + ".json")
        if f.exists() and pid not in ready:
            na.append({"property_id": pid, "reason": "check under construction (not yet accepted by the integrator); see DESIGN.md §6"})
            continue
        if not f.exists():
            na.append({"property_id": pid, "reason": "check not built yet (planned in DESIGN.md §6)"})
            continue
        e = json.loads(f.read_text())
        if "not_applicable" in e:
            na.append({"property_id": pid, "reason": e["not_applicable"]})
            continue
        e.setdefault("property_id", pid)
        e.setdefault("quick_cmd", "VERIF_TIER=quick ./bin/check %s" % pid)
        e.setdefault("thorough_cmd", "VERIF_TIER=thorough ./bin/check %s" % pid)
        e.setdefault("evidence_file", "/verif/evidence/%s.json" % pid)
        e.setdefault("replay_cmd_template", "./bin/check %s --replay {path}" % pid)
        e.setdefault("engine", "tlc-grv")
        for s in e.pop("specs", []):
            engines.setdefault(s, []).append(pid)
        checks.append(e)
    m = dict(BASE)
    m["engines"] = [
        {"name": "tlc-grv", "path": "harness/core.py", "serves_properties": [c["property_id"] for c in checks], "kind_free_text": "TLC generates cases / behaviours from the TLA+ spec, a Python runner drives /repo's working tree and projects observations, TLC validates observations against the spec's invariants; design-level model checking of the state machines"}
    ] + [{"name": s, "path": "specs/%s.tla" % s, "serves_properties": sorted(set(p)), "kind_free_text": "TLA+ module"} for s, p in sorted(engines.items())]
    m["checks"] = checks
    m["not_applicable"] = na
    m["notes"] = "See DESIGN.md and HARNESS.md. Known findings: KNOWN_FINDINGS.json + known_findings.d/."
    schema = json.loads(pathlib.Path("/root/.vp/MANIFEST.schema.json").read_text())
    jsonschema.validate(m, schema)
    (V / "MANIFEST.json").write_text(json.dumps(m, indent=1) + "\n")
    print("MANIFEST.json: %d checks, %d not_applicable" % (len(checks), len(na)))
    return 0


if __name__ == "__main__":
    sys.exit(main())
