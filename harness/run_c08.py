"""R phase of C08: for every model of VerifGen — drop the invariants the real code rejects, generate the Python
SDK, build every instance through the generated constructors, collect what verification.verify reports; call
the generated verification functions; and, for the S phase, evaluate the meta-model's own lambdas / functions
directly with CPython on equivalent plain objects.

usage: python -m harness.run_c08 <cases.json> <out.json>
"""
from __future__ import annotations

import json
import pathlib
import re
import sys
import time
from typing import Any, Callable, Dict, List, Optional, Sequence, Tuple

from harness import core, mm
from harness import expr_py as X

T0 = time.time()
PRIMS = ("int", "str", "bool")


def log(msg: str) -> None:
    print("[run_c08 %6.1fs] %s" % (time.time() - T0, msg), file=sys.stderr)


# ---------------------------------------------------------------------------------------------
# model -> text
# ---------------------------------------------------------------------------------------------


def render_inv(inv: Dict[str, Any]) -> str:
    """The invariant decorator, with the description as an ASCII literal that Python reads back exactly
    (mm.pylit writes astral characters as two surrogate escapes, which is a different Python string)."""
    return "@invariant(\n    lambda self: %s,\n    %s\n)" % (X.render_expr(inv["e"]), X.pystr(inv["d"]))


def model_text(model: Dict[str, Any]) -> str:
    items: List[Dict[str, Any]] = []
    for name in sorted(model["enums"]):
        items.append({"kind": "enum", "name": name, "literals": [[l, X.enum_value(l)] for l in sorted(model["enums"][name])]})
    for name in sorted(model["vals"]):
        if model["vals"][name]["t"] == "set":
            items.append({"kind": "raw", "text": X.render_constant_set(name, model["vals"][name])})
    for name in sorted(model["funcs"]):
        items.append({"kind": "raw", "text": X.render_function(name, model["funcs"][name], model["sigs"][name])})
    for cp in model["cprims"]:
        items.append({"kind": "cprim", "name": cp["name"], "base": cp["base"], "invs": [], "decorators": [render_inv(i) for i in cp["invs"]]})
    for c in model["classes"]:
        items.append(
            {
                "kind": "class",
                "name": c["name"],
                "bases": [c["base"]] if c["base"] else [],
                "abstract": bool(c["abstract"]),
                "props": [{"name": p["name"], "type": X.render_type(p["ty"])} for p in c["props"]],
                "invs": [],
                "decorators": [render_inv(i) for i in c["invs"]],
            }
        )
    return mm.render({"items": items})


def all_invs(model: Dict[str, Any]) -> List[Tuple[Dict[str, Any], Dict[str, Any]]]:
    return [(o, i) for o in list(model["cprims"]) + list(model["classes"]) for i in o["invs"]]


def without(model: Dict[str, Any], drop: set) -> Dict[str, Any]:
    m = dict(model)
    m["cprims"] = [dict(c, invs=[i for i in c["invs"] if i["d"] not in drop]) for c in model["cprims"]]
    m["classes"] = [dict(c, invs=[i for i in c["invs"] if i["d"] not in drop]) for c in model["classes"]]
    return m


def bisect_drop(model: Dict[str, Any], ok: Callable[[Dict[str, Any]], bool], cands: List[str], dropped: Dict[str, str], why: str) -> None:
    """Find descriptions among cands whose removal makes ok(model) true; assumes individual culprits."""

    def rec(cs: List[str], others_dropped: set) -> None:
        # invariant: model without (others_dropped | cs) is ok
        if not cs:
            return
        if ok(without(model, set(dropped) | others_dropped)):
            return
        if len(cs) == 1:
            dropped[cs[0]] = why
            return
        mid = len(cs) // 2
        left, right = cs[:mid], cs[mid:]
        rec(left, others_dropped | set(right))
        # after rec(left), culprits of left are in dropped; now examine right with left's good ones restored
        rec(right, others_dropped)

    if not ok(without(model, set(cands) | set(dropped))):
        raise RuntimeError("model is rejected even without invariants")
    rec(cands, set())


# ---------------------------------------------------------------------------------------------
# reference evaluation with CPython (S)
# ---------------------------------------------------------------------------------------------


class Reference:
    def __init__(self, model: Dict[str, Any]) -> None:
        self.model = model
        self.world = X.World(model["enums"], model["vals"], "\n\n".join(X.render_function(n, model["funcs"][n], model["sigs"][n]) for n in sorted(model["funcs"])))
        self.classes = {c["name"]: c for c in model["classes"]}
        self.cprims = {c["name"]: c for c in model["cprims"]}
        self._lambdas: Dict[str, List[Tuple[str, Any]]] = {}

    def class_chain(self, n: str) -> List[Dict[str, Any]]:
        c = self.classes[n]
        return (self.class_chain(c["base"]) if c["base"] else []) + [c]

    def cprim_chain(self, n: str) -> List[Dict[str, Any]]:
        c = self.cprims[n]
        return (self.cprim_chain(c["base"]) if c["base"] not in PRIMS else []) + [c]

    def lambdas(self, kind: str, name: str) -> List[Tuple[str, Any]]:
        key = kind + ":" + name
        if key not in self._lambdas:
            chain = self.class_chain(name) if kind == "class" else self.cprim_chain(name)
            self._lambdas[key] = [(i["d"], self.world.compile_lambda(X.render_expr(i["e"]))) for c in chain for i in c["invs"]]
        return self._lambdas[key]

    def owners(self, v: Any, ty: Dict[str, Any], path: str, spec_v: Dict[str, Any]) -> List[Tuple[str, str, str, Any]]:
        t = ty["t"]
        if t == "opt":
            return [] if v is None else self.owners(v, ty["of"], path, spec_v)
        if t == "inst":
            out = [(path, "class", spec_v["c"], v)]
            for c in self.class_chain(spec_v["c"]):
                for p in c["props"]:
                    out += self.owners(getattr(v, p["name"]), p["ty"], path + "." + p["name"], spec_v["f"][p["name"]])
            return out
        if t == "cprim":
            return [(path, "cprim", ty["c"], v)]
        if t == "list":
            out = []
            for k, x in enumerate(v):
                out += self.owners(x, ty["of"], "%s[%d]" % (path, k), spec_v["xs"][k])
            return out
        return []

    def verify(self, spec_inst: Dict[str, Any]) -> Tuple[str, List[Dict[str, str]]]:
        inst = self.world.decode(spec_inst)
        errors = []
        raised = False
        for path, kind, name, val in self.owners(inst, {"t": "inst", "c": spec_inst["c"]}, "", spec_inst):
            for desc, fn in self.lambdas(kind, name):
                try:
                    r = fn(val)
                except Exception:
                    raised = True
                    continue
                if not r:
                    errors.append({"path": path, "cause": desc, "id": inv_id(desc)})
        return ("raised", []) if raised else ("ok", errors)


# ---------------------------------------------------------------------------------------------
# the generated SDK
# ---------------------------------------------------------------------------------------------


def build(v: Dict[str, Any], T: Any) -> Any:
    t = v["t"]
    if t == "none":
        return None
    if t == "int":
        return int(v["n"])
    if t == "bool":
        return bool(v["b"])
    if t == "str":
        return X.cps_to_str(v["cs"])
    if t == "list":
        return [build(x, T) for x in v["xs"]]
    if t == "enum":
        return getattr(T, v["c"])(X.enum_value(v["l"]))
    if t == "inst":
        return getattr(T, v["c"])(**{k: build(x, T) for k, x in v["f"].items()})
    raise ValueError(t)


def inv_id(cause: str) -> str:
    """Projection: the identity of the invariant an error speaks of = the leading words of its description."""
    m = re.match(r"\w+ invariant \d+", cause)
    return m.group(0) if m else ""


def pyarg(v: Dict[str, Any]) -> Any:
    t = v["t"]
    if t == "int":
        return int(v["n"])
    if t == "str":
        return X.cps_to_str(v["cs"])
    if t == "bool":
        return bool(v["b"])
    if t == "list":
        return [pyarg(x) for x in v["xs"]]
    if t == "none":
        return None
    raise ValueError(t)


def main() -> None:
    cases_path, out_path = sys.argv[1], sys.argv[2]
    core.assert_repo_bound()
    from aas_core_codegen import intermediate
    from aas_core_codegen.intermediate import type_inference as ti

    cases = json.load(open(cases_path, encoding="utf-8"))
    scratch = pathlib.Path(out_path).parent / "c08_scratch"
    models_run: List[Dict[str, Any]] = []
    obs: List[Dict[str, Any]] = []
    fobs: List[Dict[str, Any]] = []
    info: List[Dict[str, Any]] = []
    n_load = n_gen = 0
    for k, case in enumerate(cases):
        model = case["model"]
        dropped: Dict[str, str] = {}

        # (1) drop what the front end rejects
        def loads(m: Dict[str, Any]) -> bool:
            nonlocal n_load
            n_load += 1
            res = mm.load_model(model_text(m), scratch / "load")
            loads.last = res  # type: ignore
            return res["outcome"] == "accepted"

        if not loads(model):
            bisect_drop(model, loads, [i["d"] for _, i in all_invs(model)], dropped, "front_end")
            assert loads(without(model, set(dropped)))
        st = loads.last["st"]  # type: ignore

        # (2) drop what the type inference of the SDK targets rejects
        base = ti.populate_base_environment(st)
        for ot in st.our_types:
            if isinstance(ot, intermediate.Enumeration):
                continue
            env = ti.MutableEnvironment(parent=base)
            env.set(identifier="self", type_annotation=ti.OurTypeAnnotation(our_type=ot))
            for inv in ot.invariants:
                if inv.specified_for is not ot:
                    continue
                try:
                    _, err = ti.infer_for_invariant(inv, env)
                except Exception as ex:  # observation: treated as a rejection for the purpose of C08
                    err = ex  # type: ignore
                if err is not None:
                    dropped[inv.description] = "inference"

        # (3) generate (dropping further what --target python rejects)
        def generates(m: Dict[str, Any]) -> bool:
            nonlocal n_gen
            n_gen += 1
            res = mm.generate_python_sdk(model_text(m), scratch / "gen")
            if res["rc"] != 0 or res.get("import_errors"):
                mm.drop_sdk(res)
                generates.last = res  # type: ignore
                return False
            generates.last = res  # type: ignore
            return True

        status = "generated"
        if not generates(without(model, set(dropped))):
            try:
                bisect_drop(model, generates, [i["d"] for _, i in all_invs(model) if i["d"] not in dropped], dropped, "python_target")
                if not generates(without(model, set(dropped))):
                    status = "not_generated"
            except RuntimeError:
                status = "not_generated"
        run_model = without(model, set(dropped))
        models_run.append(run_model)
        res = generates.last  # type: ignore
        entry = {"model": model["name"], "status": status, "dropped": dropped, "n_invs": len(all_invs(run_model)), "n_insts": len(case["insts"])}
        info.append(entry)
        if status != "generated":
            entry["stderr"] = (res.get("stderr") or "")[:500]
            entry["exc"] = res.get("exc")
            entry["import_errors"] = res.get("import_errors")
            continue
        T, V = res["mods"]["types"], res["mods"]["verification"]
        ref = Reference(run_model)

        # (4) instances
        for spec_inst in case["insts"]:
            py_outcome, py_errors = ref.verify(spec_inst)
            exc = ""
            try:
                inst = build(spec_inst, T)
            except Exception as ex:
                raise SystemExit("cannot construct instance in model %s: %r" % (model["name"], ex))
            try:
                errors = [{"path": str(e.path), "cause": e.cause, "id": inv_id(e.cause)} for e in V.verify(inst)]
                outcome = "ok"
            except Exception as ex:  # an observation
                errors, outcome, exc = [], "raised", "%s: %s" % (type(ex).__name__, str(ex)[:120])
            obs.append({"m": k + 1, "inst": spec_inst, "outcome": outcome, "errors": errors, "py_outcome": py_outcome, "py_errors": py_errors, "exc": exc})

        # (5) verification functions
        for fn in sorted(case["fnargs"]):
            gen_fn = getattr(V, fn, None)
            orig_fn = ref.world.globals[fn]
            for args in case["fnargs"][fn]:
                pa = [pyarg(a) for a in args]
                got = X.run_lambda(gen_fn, *pa) if gen_fn is not None else "missing"
                fobs.append({"m": k + 1, "fn": fn, "args": args, "got": got, "orig": X.run_lambda(orig_fn, *pa)})
        mm.drop_sdk(res)
        if (k + 1) % 5 == 0:
            log("%d models done (%d loads, %d generations)" % (k + 1, n_load, n_gen))
    log("%d models, %d instance observations, %d function observations" % (len(cases), len(obs), len(fobs)))
    json.dump({"models": models_run, "obs": obs, "fobs": fobs, "info": info}, open(out_path, "w"))


if __name__ == "__main__":
    main()
