"""Shared R-phase machinery of C13 / C14 (group xsd).

A *scenario* (specs/XsdConstraints.tla) is rendered to a meta-model text; the real XSD generator and the real
Python SDK generator are run on it; the schema is loaded by xmlschema as XSD 1.0 and 1.1; for every *value* the
SDK builds an instance, ``verification.verify`` is consulted, ``xmlization.to_str`` writes the document and both
schema versions give a verdict; single *mutations* are applied to one valid document.  Everything is projected to
the vocabulary of specs/XsdTrace.tla.  Nothing here decides a verdict.
"""
from __future__ import annotations

import copy
import itertools
import json
import os
import pathlib
import re
import signal
import sys
import traceback
import xml.etree.ElementTree as ET
from typing import Any, Dict, Iterable, List, Optional, Sequence, Tuple

from harness import mm

NS = "https://dummy.com"
XS = "{http://www.w3.org/2001/XMLSchema}"
CLASS_NAMES = ["Ka", "Kb", "Kc"]
FILLERS = ["pa", "pb", "pc"]
INF = -1

# ---------------------------------------------------------------------------------------------
# regex tree -> pattern text (mirror of XsdRegex!Render; cross-checked in c13.selfcheck_render against TLC's alpha
# and, semantically, by S_ReAgrees in the V phase: Python's re on this text vs. the spec's FullMatch on the tree)
# ---------------------------------------------------------------------------------------------


def enc(c: int, e: str) -> str:
    if e == "raw":
        return chr(c)
    if e == "esc":
        return "\\" + chr(c)
    if e == "x":
        return "\\x%02x" % c
    if e == "X":
        return "\\x%02X" % c
    if e == "u":
        return "\\u%04x" % c
    if e == "U":
        return "\\U%08X" % c
    raise ValueError(e)


def quant(lo: int, hi: int) -> str:
    if (lo, hi) == (0, 1):
        return "?"
    if (lo, hi) == (0, INF):
        return "*"
    if (lo, hi) == (1, INF):
        return "+"
    if hi == INF:
        return "{%d,}" % lo
    if lo == hi:
        return "{%d}" % lo
    return "{%d,%d}" % (lo, hi)


def render_tree(n: Dict[str, Any]) -> str:
    k = n["k"]
    if k == "lit":
        return enc(n["c"], n["e"])
    if k == "dot":
        return "."
    if k == "set":
        out = "[" + ("^" if n["neg"] else "")
        for r in n["rs"]:
            out += enc(r["lo"], r["le"]) + ("-" + enc(r["hi"], r["he"]) if r["rng"] else "")
        return out + "]"
    if k == "cat":
        return "".join(render_tree(x) for x in n["xs"])
    if k == "alt":
        return "(" + "|".join(render_tree(x) for x in n["xs"]) + ")"
    if k == "rep":
        x = n["xs"][0]
        inner = render_tree(x)
        if x["k"] not in ("lit", "dot", "set", "alt"):
            inner = "(" + inner + ")"
        return inner + quant(n["lo"], n["hi"])
    raise ValueError(k)


def pattern_text(tree: Dict[str, Any]) -> str:
    return "^" + render_tree(tree) + "$"


# ---------------------------------------------------------------------------------------------
# scenario -> meta-model
# ---------------------------------------------------------------------------------------------

BASE_OF_KIND = {"cprim_str": "str", "cprim_bytes": "bytearray", "list_cprim": "str"}


def x_type(sc: Dict[str, Any]) -> str:
    k = sc["kind"]
    t = {
        "str": "str",
        "bytes": "bytearray",
        "int": "int",
        "cprim_str": "Cp",
        "cprim_bytes": "Cp",
        "list_str": "List[str]",
        "list_cls": "List[Item]",
        "list_acls": "List[Item]",
        "list_ccls": "List[Item]",
        "stub": "Stub",
        "list_stub": "List[Stub]",
        "cstub": "Item",
        "list_cprim": "List[Cp]",
    }[k]
    return "Optional[%s]" % t if sc["opt"] else t


def _len_expr(a: Dict[str, Any], subject: str) -> str:
    e = "len(%s)" % subject
    return "%s %s %d" % (e, a["op"], a["c"]) if a["side"] == "L" else "%d %s %s" % (a["c"], a["op"], e)


def _guard(sc: Dict[str, Any], expr: str, variant: int) -> str:
    if not sc["opt"]:
        return expr
    if variant % 2 == 1:
        return "not (self.x is not None) or (%s)" % expr
    return "self.x is None or (%s)" % expr


def render_scenario(sc: Dict[str, Any]) -> Tuple[str, str]:
    """-> (meta-model text, root_element.xml snippet)."""
    items: List[Dict[str, Any]] = []
    n_desc = [0]

    def desc() -> str:
        n_desc[0] += 1
        return "Invariant number %d holds." % n_desc[0]

    # pattern verification functions (one per pattern occurrence; equal texts stay separate functions)
    for q, p in enumerate(sc["pats"]):
        items.append(
            {
                "kind": "raw",
                "text": "@verification\ndef matches_p%d(text: str) -> bool:\n    pattern = %s\n    return match(pattern, text) is not None\n"
                % (q, ascii(pattern_text(p["tree"]))),
            }
        )
    kind = sc["kind"]
    # constrained primitives
    if kind in BASE_OF_KIND:
        base = BASE_OF_KIND[kind]
        invs_of: Dict[str, List[Dict[str, Any]]] = {"cprim": [], "cprim_anc": [], "cprim_anc2": []}
        for a in sc["atoms"]:
            if a["src"] in invs_of:
                invs_of[a["src"]].append({"expr": _len_expr(a, "self"), "desc": desc()})
        for q, p in enumerate(sc["pats"]):
            if p["src"] in invs_of:
                invs_of[p["src"]].append({"expr": "matches_p%d(self)" % q, "desc": desc()})
        srcs = {k["src"] for k in list(sc["atoms"]) + list(sc["pats"])}
        # the chain Cp00 <- Cp0 <- Cp is as long as the sources need
        chain: List[Dict[str, Any]] = []
        if "cprim_anc2" in srcs:
            chain.append({"kind": "cprim", "name": "Cp00", "base": base, "invs": invs_of["cprim_anc2"]})
        if "cprim_anc2" in srcs or "cprim_anc" in srcs:
            chain.append({"kind": "cprim", "name": "Cp0", "base": "Cp00" if "cprim_anc2" in srcs else base, "invs": invs_of["cprim_anc"]})
        chain.append({"kind": "cprim", "name": "Cp", "base": "Cp0" if len(chain) > 0 else base, "invs": invs_of["cprim"]})
        # declaration order (the meta-model is parsed, not executed: a class may precede its parent)
        cpo = sc.get("cpo", 0)
        if cpo == 2:
            chain.reverse()
        elif cpo == 1 and len(chain) >= 2:
            chain = [chain[0], chain[-1]] + chain[1:-1] if len(chain) == 3 else [chain[1], chain[0]]
        items.extend(chain)
        # a second user of the same constrained primitive, declared (and hence rendered) BEFORE the class under test and
        # without any class-level constraint: what is inferred for x must not depend on other users of Cp
        items.append({"kind": "class", "name": "Twin", "props": [{"name": "y", "type": "Cp"}]})
    if kind == "list_cls":
        items.append({"kind": "class", "name": "Item", "props": [{"name": "n", "type": "int"}]})
    if kind in ("stub", "list_stub"):
        items.append({"kind": "class", "name": "Stub", "abstract": True, "props": [{"name": "n", "type": "int"}]})
    if kind == "cstub":
        items.append({"kind": "class", "name": "Item", "wmt": True, "props": [{"name": "n", "type": "int"}]})
        items.append({"kind": "class", "name": "Item_stub", "abstract": True, "bases": ["Item"], "props": []})
    if kind == "list_ccls":
        items.append({"kind": "class", "name": "Item", "wmt": True, "props": [{"name": "n", "type": "int"}]})
        items.append({"kind": "class", "name": "Item_b", "bases": ["Item"], "props": []})
    if kind == "list_acls":
        items.append({"kind": "class", "name": "Item", "abstract": True, "wmt": True, "props": [{"name": "n", "type": "int"}]})
        items.append({"kind": "class", "name": "Item_b", "bases": ["Item"], "props": []})
    # the chain
    for ci in range(1, sc["L"] + 1):
        props = [{"name": FILLERS[ci - 1], "type": "int"}]
        invs: List[Dict[str, Any]] = []
        if ci == sc["pa"]:
            props += [{"name": "x", "type": x_type(sc)}, {"name": "t", "type": "int"}]
        src_here = "own" if ci == sc["pa"] else ("desc" if ci == sc["pa"] + 1 else None)
        if src_here is not None:
            for a in sc["atoms"]:
                if a["src"] == src_here:
                    invs.append({"expr": _guard(sc, _len_expr(a, "self.x"), a["c"]), "desc": desc()})
            here = [q for q, p in enumerate(sc["pats"]) if p["src"] == src_here]
            if len(here) >= 2 and sc["L"] % 2 == 0:
                invs.append({"expr": _guard(sc, " and ".join("matches_p%d(self.x)" % q for q in here), 0), "desc": desc()})
            else:
                for q in here:
                    invs.append({"expr": _guard(sc, "matches_p%d(self.x)" % q, q), "desc": desc()})
        items.append({"kind": "class", "name": CLASS_NAMES[ci - 1], "bases": [CLASS_NAMES[ci - 2]] if ci > 1 else [], "props": props, "invs": invs})
    text = mm.render({"items": items, "xmlns": NS})
    root = '<xs:schema xmlns:xs="http://www.w3.org/2001/XMLSchema" xmlns="%s" elementFormDefault="qualified" targetNamespace="%s">\n' % (NS, NS)
    for ci in range(1, sc["L"] + 1):
        n = CLASS_NAMES[ci - 1].lower()
        root += '    <xs:element name="%s" type="%s_t" />\n' % (n, n)
    root += "</xs:schema>\n"
    return text, root


# ---------------------------------------------------------------------------------------------
# values
# ---------------------------------------------------------------------------------------------

STUB_KINDS = ("stub", "list_stub", "cstub")
LIST_KINDS = ("list_str", "list_cls", "list_acls", "list_ccls", "list_cprim")


def value(inst: int, none: bool = False, cnt: int = 0, ln: int = 0, s: Optional[Sequence[int]] = None) -> Dict[str, Any]:
    return {"inst": inst, "none": none, "cnt": cnt, "len": ln, "usestr": s is not None, "str": list(s) if s is not None else []}


def values_for(sc: Dict[str, Any], max_len: int, max_str: int, max_strings: int) -> List[Dict[str, Any]]:
    """The candidate values of a scenario (data only; what they mean is decided by the spec in the V phase)."""
    out: List[Dict[str, Any]] = []
    kind = sc["kind"]
    if kind in STUB_KINDS:
        return out
    if sc["fam"] == "len":
        for inst in range(sc["pa"], sc["L"] + 1):
            if kind == "int":
                out.append(value(inst))
            elif kind == "list_cprim":
                for cnt in range(0, max_len + 1):
                    for ln in range(0, max_len + 1):
                        if cnt == 0 and ln > 0:
                            continue
                        out.append(value(inst, cnt=cnt, ln=ln))
            elif kind in LIST_KINDS:
                for cnt in range(0, max_len + 1):
                    out.append(value(inst, cnt=cnt, ln=1))
            else:
                for ln in range(0, max_len + 1):
                    out.append(value(inst, ln=ln))
            if sc["opt"]:
                out.append(value(inst, none=True))
    else:
        alpha = sc["alpha"]
        strings: List[Tuple[int, ...]] = []
        for n in range(0, max_str + 1):
            strings.extend(itertools.product(alpha, repeat=n))
        if len(strings) > max_strings:
            # deterministic thinning that keeps every short string
            short = [s for s in strings if len(s) < max_str]
            long_ = [s for s in strings if len(s) == max_str]
            step = max(1, len(long_) // max(1, max_strings - len(short)))
            strings = short + long_[::step]
        insts = sorted({sc["pa"], sc["L"]})
        for inst in insts:
            for s in strings:
                out.append(value(inst, cnt=1 if kind in LIST_KINDS else 0, s=s))
            if sc["opt"]:
                out.append(value(inst, none=True))
            if kind in LIST_KINDS:
                out.append(value(inst, cnt=0, s=()))
    return out


def mutations_for(sc: Dict[str, Any], v: Dict[str, Any], shape: Sequence[str]) -> List[Dict[str, Any]]:
    """Mirror of XsdConstraints!Mutations (V re-derives nothing from it: every applied mutation must be rejected)."""
    n = len(shape)
    out = []
    out += [{"kind": "Unknown_element", "at": a, "in": "root"} for a in range(0, n + 1)]
    out += [{"kind": "Misplaced_element", "at": a, "in": "root"} for a in range(1, n)]
    out += [{"kind": "Missing_required_element", "at": a, "in": "root"} for a in range(1, n + 1) if not (shape[a - 1] == "x" and sc["opt"])]
    out += [{"kind": "Duplicate_element", "at": a, "in": "root"} for a in range(1, n + 1)]
    out += [{"kind": "Wrong_namespace", "at": a, "in": "root"} for a in range(0, n + 1)]
    if sc["kind"] in LIST_KINDS and not v["none"]:
        out += [{"kind": "Unknown_element", "at": a, "in": "x"} for a in range(0, v["cnt"] + 1)]
        out += [{"kind": "Wrong_namespace", "at": a, "in": "x"} for a in range(1, v["cnt"] + 1)]
    return out


def local(tag: str) -> str:
    return tag.rsplit("}", 1)[-1]


def apply_mutation(root: ET.Element, m: Dict[str, Any]) -> Optional[ET.Element]:
    r = copy.deepcopy(root)
    target = r
    if m["in"] == "x":
        xs = [c for c in r if local(c.tag) == "x"]
        if not xs:
            return None
        target = xs[0]
    kids = list(target)
    at = m["at"]
    k = m["kind"]
    other = "{https://other.example.com}"
    if k == "Unknown_element":
        if at > len(kids):
            return None
        target.insert(at, ET.Element("{%s}zzUnknown" % NS))
    elif k == "Misplaced_element":
        if at < 1 or at >= len(kids):
            return None
        a, b = kids[at - 1], kids[at]
        target.remove(a)
        target.insert(at, a)
    elif k == "Missing_required_element":
        if at < 1 or at > len(kids):
            return None
        target.remove(kids[at - 1])
    elif k == "Duplicate_element":
        if at < 1 or at > len(kids):
            return None
        target.insert(at, copy.deepcopy(kids[at - 1]))
    elif k == "Wrong_namespace":
        if at == 0:
            if m["in"] != "root":
                return None
            r.tag = other + local(r.tag)
        else:
            if at > len(kids):
                return None
            kids[at - 1].tag = other + local(kids[at - 1].tag)
    else:
        raise ValueError(k)
    return r


# ---------------------------------------------------------------------------------------------
# running one scenario
# ---------------------------------------------------------------------------------------------


class _Timeout(BaseException):
    """Not an Exception: the code under test must not be able to swallow it (run.load_model catches Exception)."""


_FIRED = [False]


def _alarm(signum: int, frame: Any) -> None:
    _FIRED[0] = True
    raise _Timeout()


def build_instance(sc: Dict[str, Any], v: Dict[str, Any], T: Any) -> Any:
    kind = sc["kind"]
    s = "".join(chr(c) for c in v["str"]) if v["usestr"] else "q" * v["len"]
    if v["none"]:
        x: Any = None
    elif kind in ("str", "cprim_str"):
        x = s
    elif kind in ("bytes", "cprim_bytes"):
        x = bytearray(b"A" * v["len"])
    elif kind == "int":
        x = 7
    elif kind == "list_str":
        x = ["q" for _ in range(v["cnt"])]
    elif kind == "list_cls":
        x = [T.Item(n=1) for _ in range(v["cnt"])]
    elif kind == "list_acls":
        x = [T.ItemB(n=1) for _ in range(v["cnt"])]
    elif kind == "list_ccls":  # the concrete class itself and its concrete descendant, alternating
        x = [(T.ItemB if q % 2 == 1 else T.Item)(n=1) for q in range(v["cnt"])]
    elif kind == "list_cprim":
        x = [s for _ in range(v["cnt"])]
    else:
        raise ValueError(kind)
    kwargs: Dict[str, Any] = {}
    for ci in range(1, v["inst"] + 1):
        kwargs[FILLERS[ci - 1]] = ci
        if ci == sc["pa"]:
            kwargs["x"] = x
            kwargs["t"] = 9
    return getattr(T, CLASS_NAMES[v["inst"] - 1])(**kwargs)


ACC, REJ, NA = 1, 0, 2


def verdict(schema: Any, elem: ET.Element) -> int:
    if schema is None:
        return NA
    return ACC if schema.is_valid(elem) else REJ


def vtuple(v: Dict[str, Any]) -> List[Any]:
    """The compact form of a value used in observations: <<inst, none, cnt, len, usestr, str>> (booleans as 0/1)."""
    return [v["inst"], int(v["none"]), v["cnt"], v["len"], int(v["usestr"]), list(v["str"])]


def run_scenario(sc: Dict[str, Any], scratch: pathlib.Path, opts: Dict[str, Any]) -> Dict[str, Any]:
    import xmlschema

    obs: Dict[str, Any] = {"sc": {k: sc[k] for k in ("fam", "kind", "L", "pa", "opt", "atoms", "pats")}, "id": sc.get("id", 0), "feat": sc.get("feat", []), "cpo": sc.get("cpo", 0),
                           "gen": "ok", "detail": "", "loads10": False, "loads11": False, "load_err": "", "xpats": [], "shapes": [], "vals": [], "muts": [], "ptexts": [], "sdk_excs": []}
    text, root_snippet = render_scenario(sc)
    obs["ptexts"] = [pattern_text(p["tree"]) for p in sc["pats"]]
    stub = sc["kind"] in STUB_KINDS
    if stub:
        # nothing can be instantiated: ask the front end alone whether the meta-model is accepted, then judge the schema only
        lm = mm.load_model(text, scratch / "lm")
        if lm["outcome"] != "accepted":
            obs["gen"] = "model_rejected"
            obs["detail"] = (str(lm.get("error")) + " " + json.dumps(lm.get("exc")))[:700]
            return obs
        sdk = {"mods": {}, "pkg": None}
        T = V = X = None
    else:
        sdk = mm.generate_python_sdk(text, scratch / "py")
    if not stub and (sdk["rc"] != 0 or sdk.get("import_errors") or not all(k in sdk["mods"] for k in ("types", "verification", "xmlization"))):
        obs["gen"] = "model_rejected"
        obs["detail"] = ((sdk["stderr"] or "")[-400:] + " " + json.dumps(sdk.get("exc")) + " " + json.dumps(sdk.get("import_errors")))[:700]
        mm.drop_sdk(sdk)
        return obs
    if not stub:
        T, V, X = sdk["mods"]["types"], sdk["mods"]["verification"], sdk["mods"]["xmlization"]
    # the XSD generator
    _FIRED[0] = False
    old = signal.signal(signal.SIGALRM, _alarm)
    signal.setitimer(signal.ITIMER_REAL, float(opts.get("gen_timeout", 20)))
    try:
        try:
            r = mm.generate_text(text, "xsd", scratch / "xsd", snippets={"root_element.xml": root_snippet})
        finally:
            signal.setitimer(signal.ITIMER_REAL, 0)
            signal.signal(signal.SIGALRM, old)
    except _Timeout:
        r = {"rc": None, "exc": {"type": "Timeout", "msg": "", "frame": ""}, "stderr": "", "timeout": True}
    s10 = s11 = None
    if r.get("timeout") or _FIRED[0]:
        obs["gen"] = "timeout"
    elif r["exc"] is not None:
        obs["gen"] = "exception"
        obs["detail"] = "%s: %s @ %s" % (r["exc"]["type"], r["exc"]["msg"][:200], r["exc"]["frame"])
    elif r["rc"] != 0:
        obs["gen"] = "refused"
        obs["detail"] = re.sub(r"\s+", " ", r["stderr"])[-500:]
    else:
        xsd = (scratch / "xsd" / "out" / "schema.xsd").read_text(encoding="utf-8")
        obs["xsd"] = xsd if opts.get("keep_xsd") else ""
        try:
            obs["xpats"] = [[ord(c) for c in e.attrib.get("value", "")] for e in ET.fromstring(xsd).iter(XS + "pattern")]
        except Exception as ex:  # the schema is not even XML: reported through the load failure below
            obs["load_err"] = "not XML: %s" % ex
        for ver, cls in (("10", xmlschema.XMLSchema10), ("11", xmlschema.XMLSchema11)):
            try:
                s = cls(xsd)
                obs["loads" + ver] = True
                if ver == "10":
                    s10 = s
                else:
                    s11 = s
            except Exception as ex:
                obs["load_err"] = (obs["load_err"] + " | %s: %s" % (ver, re.sub(r"\s+", " ", str(ex))[:200]))[:500]
    # documents
    pats = [re.compile(t) for t in obs["ptexts"]] if sc["fam"] == "pat" else []
    base_for_mut: Dict[int, Tuple[Dict[str, Any], ET.Element, List[str]]] = {}
    seen_shapes = set()
    for v in values_for(sc, opts["max_len"], opts["max_str"], opts["max_strings"]):
        inst = build_instance(sc, v, T)  # a failure here is the harness's own (reported as harness_error)
        try:
            verify_ok = next(iter(V.verify(inst)), None) is None
            doc = X.to_str(inst)
            elem = ET.fromstring(doc)
        except Exception as ex:  # the SDK could not verify / write: an observation about the SDK, not ours to judge
            if len(obs["sdk_excs"]) < 5:
                obs["sdk_excs"].append("%s: %s" % (type(ex).__name__, str(ex)[:100]))
            continue
        s = "".join(chr(c) for c in v["str"]) if v["usestr"] else "q" * v["len"]
        re_ok = all(p.match(s) is not None for p in pats)
        shape = [local(c.tag) for c in elem]
        if (v["inst"], v["none"]) not in seen_shapes:
            seen_shapes.add((v["inst"], v["none"]))
            obs["shapes"].append([v["inst"], int(v["none"]), shape])
        obs["vals"].append([vtuple(v), int(verify_ok), int(re_ok), verdict(s10, elem), verdict(s11, elem)])
        if verify_ok and opts.get("mutations") and sc["fam"] == "len" and v["inst"] not in base_for_mut and (not v["none"]) and (sc["kind"] not in LIST_KINDS or v["cnt"] >= 1):
            base_for_mut[v["inst"]] = (v, elem, shape)
    for inst_no in sorted(base_for_mut):
        v, elem, shape = base_for_mut[inst_no]
        for m in mutations_for(sc, v, shape):
            me = apply_mutation(elem, m)
            mt = [m["kind"], m["at"], m["in"]]
            if me is None:
                obs["muts"].append([vtuple(v), mt, 0, NA, NA])
            else:
                obs["muts"].append([vtuple(v), mt, 1, verdict(s10, me), verdict(s11, me)])
    mm.drop_sdk(sdk)
    return obs


# ---------------------------------------------------------------------------------------------
# parallel driver (<= 8 processes), used by the runner module
# ---------------------------------------------------------------------------------------------


WARM_SCENARIO: Dict[str, Any] = {
    "fam": "pat", "kind": "cprim_str", "L": 2, "pa": 1, "opt": False, "atoms": [{"src": "own", "tgt": "val", "op": ">=", "c": 1, "side": "L"}],
    "pats": [{"src": "cprim", "tgt": "val", "tree": {"k": "rep", "c": 0, "e": "raw", "neg": False, "rs": [], "lo": 1, "hi": -1,
                                                          "xs": [{"k": "lit", "c": 97, "e": "raw", "neg": False, "rs": [], "xs": [], "lo": 0, "hi": 0}]}},
             {"src": "own", "tgt": "val", "tree": {"k": "rep", "c": 0, "e": "raw", "neg": False, "rs": [], "lo": 1, "hi": 2,
                                                        "xs": [{"k": "dot", "c": 0, "e": "raw", "neg": False, "rs": [], "xs": [], "lo": 0, "hi": 0}]}}],
    "alpha": [97, 113], "feat": [], "id": 0}

_STATE: Dict[str, Any] = {"start": None, "scratch": None}


def _warm_up(scratch: pathlib.Path, opts: Dict[str, Any]) -> None:
    """One tiny scenario, run completely (generators, greenery, xmlschema meta-schemas): loads everything once."""
    warm_opts = {k: v for k, v in opts.items() if k not in ("deadline", "budget")}
    warm_obs = run_scenario(WARM_SCENARIO, scratch / "warm", warm_opts)
    if warm_obs.get("gen") != "ok" or not warm_obs.get("vals"):
        raise RuntimeError("warm-up scenario did not run: %r" % {k: warm_obs.get(k) for k in ("gen", "detail", "load_err")})


def _init_worker(workdir: str, opts: Dict[str, Any], start: Any) -> None:
    """Pool initializer: private scratch + TMPDIR, warm-up in the worker itself (the first scenario of a fresh process is
    much slower than the following ones), then the clock of the budget starts (first worker that is ready sets it)."""
    import tempfile
    import time

    scratch = pathlib.Path(workdir) / ("w%d" % os.getpid())
    tmp = scratch / "tmp"
    tmp.mkdir(parents=True, exist_ok=True)
    os.environ["TMPDIR"] = str(tmp)
    tempfile.tempdir = None
    _STATE["scratch"] = scratch
    _STATE["start"] = start
    try:
        _warm_up(scratch, opts)
    except Exception:
        _STATE["warm_error"] = traceback.format_exc()[-1500:]
    if start is not None:
        with start.get_lock():
            if start.value == 0.0:
                start.value = time.time()


def _worker(args: Tuple[int, List[Dict[str, Any]], str, Dict[str, Any]]) -> List[Dict[str, Any]]:
    idx, scs, workdir, opts = args
    import time

    if _STATE["scratch"] is None:  # single-process mode
        _init_worker(workdir, opts, None)
    scratch = _STATE["scratch"]
    start = _STATE["start"]
    deadline = None
    if opts.get("budget") is not None:
        t0 = start.value if start is not None and start.value > 0 else _STATE.setdefault("t0", time.time())
        deadline = t0 + float(opts["budget"])
    out = []
    for sc in scs:
        if _STATE.get("warm_error"):
            out.append({"harness_error": "warm-up failed: " + _STATE["warm_error"], "id": sc.get("id", 0)})
            continue
        if deadline is not None and time.time() > deadline:
            out.append({"skipped": True, "id": sc.get("id", 0)})
            continue
        try:
            out.append(run_scenario(sc, scratch, opts))
        except Exception as ex:  # a crash of the harness itself: machinery failure, reported by the caller
            out.append({"harness_error": "%s: %s\n%s" % (type(ex).__name__, ex, traceback.format_exc()[-1500:]), "id": sc.get("id", 0)})
    return out


def run_all(scenarios: List[Dict[str, Any]], workdir: pathlib.Path, opts: Dict[str, Any], procs: int = 8) -> List[Dict[str, Any]]:
    """Scenarios are handed out in order, in small jobs, so that the deadline (budget seconds after the first worker
    is warmed up) cuts off a suffix of the (stratified) list."""
    import multiprocessing

    procs = max(1, min(procs, 8, len(scenarios)))
    size = 4
    # load the heavy modules once in the parent (inherited by the forked workers)
    import xmlschema  # noqa: F401
    from aas_core_codegen import main as _cg_main  # noqa: F401
    import aas_core_codegen.python.main  # noqa: F401
    import aas_core_codegen.xsd.main  # noqa: F401

    jobs = [(q, scenarios[q : q + size], str(workdir), opts) for q in range(0, len(scenarios), size)]
    if procs == 1:
        results = [_worker(j) for j in jobs]
    else:
        ctx = multiprocessing.get_context("fork")
        start = ctx.Value("d", 0.0)
        with ctx.Pool(procs, initializer=_init_worker, initargs=(str(workdir), opts, start)) as pool:
            results = list(pool.imap(_worker, jobs, chunksize=1))
    flat = [o for res in results for o in res]
    flat.sort(key=lambda o: o["id"])
    return flat
