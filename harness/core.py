"""Common machinery of the G-R-V loop: run TLC, run the implementation, write evidence, decide exit codes.

Every check is ``python -m harness.check <ID> [--tier quick|thorough] [--replay path]`` (see bin/check).
Exit codes: 0 held (after KNOWN-FINDING lines), 1 violation(s) (VIOLATION lines), 2 machinery failure.
"""
from __future__ import annotations

import hashlib
import json
import os
import pathlib
import re
import shutil
import subprocess
import sys
import time
from typing import Any, Dict, Iterable, List, Optional, Sequence

VERIF = pathlib.Path(__file__).resolve().parent.parent
REPO = pathlib.Path(os.environ.get("VERIF_REPO", "/repo")).resolve()
PY = "/venv/bin/python"
SPECS = VERIF / "specs"
JAVA_CP = "/opt/veriftools/tla/tla2tools.jar:/opt/veriftools/tla/CommunityModules-deps.jar"


class MachineryFailure(Exception):
    """The checker itself (TLC, SANY, an oracle self-check, a toolchain) failed: exit 2, never a VIOLATION."""


# ---------------------------------------------------------------------------------------------
# TLC
# ---------------------------------------------------------------------------------------------


class TlcResult:
    def __init__(self, stdout: str, cmd: str, wall: float, rc: int) -> None:
        self.stdout = stdout
        self.cmd = cmd
        self.wall = wall
        self.rc = rc
        m = re.search(r"(\d+) states generated, (\d+) distinct states found", stdout)
        self.generated = int(m.group(1)) if m else 0
        self.distinct = int(m.group(2)) if m else 0
        # invariant violations: list of (invariant name, state text)
        self.violations: List[Dict[str, Any]] = []
        # split the output at every reported invariant violation; the state of interest is the LAST state printed
        # for that violation (the initial state itself for "violated by the initial state")
        marks = [m for m in re.finditer(r"^Error: Invariant (\w+) is violated(?: by the initial state)?[.:]\s*$", stdout, re.M)]
        for k, m in enumerate(marks):
            end = marks[k + 1].start() if k + 1 < len(marks) else len(stdout)
            chunk = stdout[m.end():end]
            stop = re.search(r"^(Finished|Progress|Model checking completed|\d+ states generated|Error: (?!The behavior up to this point))", chunk, re.M)
            if stop:
                chunk = chunk[: stop.start()]
            states = re.split(r"^State \d+: .*$", chunk, flags=re.M)
            last = states[-1] if len(states) > 1 else chunk
            last = re.sub(r"^Error: The behavior up to this point is:\s*$", "", last, flags=re.M)
            last = last.strip().split("\n\n")[0]
            self.violations.append({"invariant": m.group(1), "state": last.strip(), "depth": max(1, len(states) - 1)})
        self.action_violations = re.findall(r"Error: Action property (\w+) is violated", stdout)
        self.other_errors: List[str] = []
        for m in re.finditer(r"^Error: (.*)$", stdout, re.M):
            line = m.group(1)
            if line.startswith("Invariant ") and "is violated" in line:
                continue
            if line.startswith("Action property "):
                continue
            if line.startswith("The behavior up to this point is"):
                continue
            self.other_errors.append(line)
        self.coverage: Dict[str, int] = {}
        for m in re.finditer(r"^<(\w+) line \d+, col \d+ to line \d+, col \d+ of module \w+>: (\d+):(\d+)", stdout, re.M):
            self.coverage[m.group(1)] = self.coverage.get(m.group(1), 0) + int(m.group(3))
        self.printed = re.findall(r"^(?!Error)(.*@@PRINT@@.*)$", stdout, re.M)

    @property
    def ok(self) -> bool:
        return not self.violations and not self.action_violations and not self.other_errors and self.rc == 0

    def var_of(self, violation: Dict[str, Any], name: str) -> Optional[str]:
        m = re.search(r"(?:^|\n)(?:/\\ )?%s = (.*?)(?=\n(?:/\\ )?\w+ = |\Z)" % re.escape(name), violation["state"], re.S)
        return m.group(1).strip() if m else None


def run_tlc(
    module: str,
    cfg: Optional[str] = None,
    *,
    workdir: pathlib.Path,
    env: Optional[Dict[str, str]] = None,
    workers: int = 1,
    simulate: Optional[str] = None,
    depth: Optional[int] = None,
    seed: Optional[int] = None,
    cont: bool = False,
    coverage: bool = False,
    deadlock: bool = False,
    timeout: int = 1800,
    jvm: Sequence[str] = ("-Xmx8g",),
    extra: Sequence[str] = (),
    specdir: pathlib.Path = SPECS,
) -> TlcResult:
    """Run TLC on specs/<module>.tla with specs/<cfg> (default <module>.cfg)."""
    workdir.mkdir(parents=True, exist_ok=True)
    meta = workdir / ("meta-%s-%d" % (module, int(time.time() * 1000) % 10**9))
    cfgp = specdir / (cfg or module + ".cfg")
    cmd = ["java", "-XX:+UseParallelGC", *jvm, "-cp", JAVA_CP, "tlc2.TLC", "-noGenerateSpecTE", "-metadir", str(meta), "-workers", str(workers), "-config", str(cfgp)]
    if simulate:
        cmd += ["-simulate", simulate]
    if depth is not None:
        cmd += ["-depth", str(depth)]
    if seed is not None:
        cmd += ["-seed", str(seed)]
    if cont:
        cmd += ["-continue"]
    if coverage:
        cmd += ["-coverage", "1"]
    if deadlock:
        pass
    else:
        cmd += ["-deadlock"]
    cmd += list(extra)
    cmd += [str(specdir / (module + ".tla"))]
    e = dict(os.environ)
    e.update(env or {})
    t0 = time.time()
    try:
        p = subprocess.run(cmd, cwd=str(specdir), env=e, stdout=subprocess.PIPE, stderr=subprocess.STDOUT, text=True, timeout=timeout)
        out, rc = p.stdout, p.returncode
    except subprocess.TimeoutExpired as ex:
        out = (ex.stdout.decode() if isinstance(ex.stdout, bytes) else (ex.stdout or "")) + "\nError: TLC timed out after %ds\n" % timeout
        rc = 124
    wall = time.time() - t0
    shutil.rmtree(meta, ignore_errors=True)
    envs = " ".join("%s=%s" % kv for kv in sorted((env or {}).items()))
    res = TlcResult(out, (envs + " " if envs else "") + " ".join(cmd), wall, rc)
    # rc 12 = safety violation, 13 liveness; anything else non-zero without parsed violations is a machinery error
    if rc not in (0, 12, 13) and not res.other_errors:
        res.other_errors.append("tlc exit code %d" % rc)
    return res


def tlc_must_pass(res: TlcResult, what: str) -> None:
    if res.other_errors or (res.rc not in (0, 12, 13)):
        tail = "\n".join(res.stdout.splitlines()[-40:])
        raise MachineryFailure("%s: TLC failed: %s\n%s" % (what, res.other_errors[:3], tail))


# ---------------------------------------------------------------------------------------------
# running the implementation
# ---------------------------------------------------------------------------------------------


def impl_env(tmpdir: pathlib.Path, hashseed: str = "0", extra: Optional[Dict[str, str]] = None) -> Dict[str, str]:
    tmpdir.mkdir(parents=True, exist_ok=True)
    e = dict(os.environ)
    e.update(
        {
            "PYTHONPATH": "%s:%s" % (REPO, VERIF),
            "PYTHONDONTWRITEBYTECODE": "1",
            "PYTHONHASHSEED": hashseed,
            "TMPDIR": str(tmpdir),
            "VERIF_REPO": str(REPO),
            "PIP_NO_INDEX": "1",
        }
    )
    e.pop("ICONTRACT_SLOW", None)
    e.update(extra or {})
    return e


def run_impl(module: str, args: Sequence[str], *, workdir: pathlib.Path, timeout: int = 3600, hashseed: str = "0", extra_env: Optional[Dict[str, str]] = None) -> subprocess.CompletedProcess:
    """Run ``python -m <module> args`` in a fresh interpreter bound to REPO's working tree with a private TMPDIR."""
    tmp = workdir / "tmp"
    if tmp.exists():
        shutil.rmtree(tmp, ignore_errors=True)
    e = impl_env(tmp, hashseed, extra_env)
    p = subprocess.run([PY, "-m", module, *args], cwd=str(VERIF), env=e, stdout=subprocess.PIPE, stderr=subprocess.PIPE, text=True, timeout=timeout)
    if p.returncode != 0:
        raise MachineryFailure("runner %s failed rc=%d:\n%s\n%s" % (module, p.returncode, p.stdout[-2000:], p.stderr[-4000:]))
    return p


def assert_repo_bound() -> None:
    """Called by runners: the imported package must come from REPO's working tree."""
    import aas_core_codegen

    here = pathlib.Path(aas_core_codegen.__file__).resolve()
    want = pathlib.Path(os.environ.get("VERIF_REPO", "/repo")).resolve()
    if want not in here.parents:
        raise SystemExit("aas_core_codegen imported from %s, expected under %s" % (here, want))


# ---------------------------------------------------------------------------------------------
# known findings
# ---------------------------------------------------------------------------------------------


def load_known() -> List[Dict[str, Any]]:
    """Committed findings: KNOWN_FINDINGS.json and known_findings.d/*.json (never written at run time)."""
    out: List[Dict[str, Any]] = []
    paths = [VERIF / "KNOWN_FINDINGS.json"] + sorted((VERIF / "known_findings.d").glob("*.json"))
    for p in paths:
        if p.exists():
            out.extend(json.loads(p.read_text()).get("findings", []))
    return out


def key_matches(pattern: Dict[str, Any], key: Dict[str, Any]) -> bool:
    """A finding's key matches if every field it lists equals the violation's field (exact, no wildcards)."""
    return all(key.get(k) == v for k, v in pattern.items())


# ---------------------------------------------------------------------------------------------
# the check context
# ---------------------------------------------------------------------------------------------


class Check:
    def __init__(self, pid: str, level: str) -> None:
        self.pid = pid
        self.level = level
        self.tier = os.environ.get("VERIF_TIER", "quick")
        if self.tier not in ("quick", "thorough"):
            self.tier = "quick"
        try:
            self.seed = int(os.environ.get("VERIF_SEED", "0"))
        except ValueError:
            self.seed = 0
        self.t0 = time.time()
        # VERIF_WORK_SUFFIX lets several runs of the same check (against different trees) coexist
        self.work = VERIF / "work" / ("%s-%s%s" % (pid, self.tier, os.environ.get("VERIF_WORK_SUFFIX", "")))
        if self.work.exists():
            shutil.rmtree(self.work, ignore_errors=True)
        self.work.mkdir(parents=True)
        if not os.environ.get("VERIF_REPLAY"):
            shutil.rmtree(VERIF / "replays" / pid, ignore_errors=True)
        self.violations: List[Dict[str, Any]] = []
        self.cov: Dict[str, Any] = {
            "evaluations": 0,
            "distinct_nontrivial": 0,
            "rule": "",
            "samples": [],
            "states": 0,
            "transitions": 0,
            "traces_validated_against_impl": 0,
            "tlc_runs": [],
        }
        self.assumptions: List[str] = []
        self.notes: List[str] = []

    @property
    def quick(self) -> bool:
        return self.tier == "quick"

    @property
    def replay_case(self) -> Any:
        """The abstract case stored in the replay file given by --replay (env VERIF_REPLAY), or None."""
        p = os.environ.get("VERIF_REPLAY")
        if not p:
            return None
        return json.loads(pathlib.Path(p).read_text())["case"]

    # -- TLC -------------------------------------------------------------------------------
    def tlc(self, module: str, cfg: Optional[str] = None, *, what: str = "", count: bool = True, must_pass: bool = True, **kw: Any) -> TlcResult:
        res = run_tlc(module, cfg, workdir=self.work, **kw)
        if count:
            self.cov["states"] += res.distinct
            self.cov["transitions"] += res.generated
        self.cov["tlc_runs"].append({"what": what or module, "cmd": res.cmd.replace(str(VERIF) + "/", ""), "generated": res.generated, "distinct": res.distinct, "wall_s": round(res.wall, 2), "violations": len(res.violations) + len(res.action_violations)})
        if must_pass:
            tlc_must_pass(res, what or module)
        return res

    def model_check(self, module: str, cfg: str, what: str, **kw: Any) -> TlcResult:
        """M phase: design-level model checking; a violation here is a machinery failure (the spec is wrong),
        because the design check involves no repo code."""
        res = self.tlc(module, cfg, what="M: " + what, **kw)
        if res.violations or res.action_violations:
            raise MachineryFailure("design-level model check %s/%s violated: %s" % (module, cfg, (res.violations or res.action_violations)[:1]))
        return res

    # -- impl ------------------------------------------------------------------------------
    def impl(self, module: str, args: Sequence[str], **kw: Any) -> subprocess.CompletedProcess:
        return run_impl(module, args, workdir=self.work, **kw)

    # -- violations ------------------------------------------------------------------------
    def violation(self, key: Dict[str, Any], clause: str, case: Any, observation: Any = None, detail: str = "") -> None:
        self.violations.append({"key": key, "clause": clause, "case": case, "observation": observation, "detail": detail})

    def finish(self) -> int:
        known = [f for f in load_known() if f["property"] == self.pid and f.get("status") == "open"]
        reported_known = set()
        new = []
        for v in self.violations:
            hit = None
            for f in known:
                if key_matches(f["key"], v["key"]):
                    hit = f
                    break
            if hit is not None:
                reported_known.add(json.dumps(hit["key"], sort_keys=True))
                hit.setdefault("_n", 0)
                hit["_n"] += 1
            else:
                new.append(v)
        hits_path = os.environ.get("VERIF_KNOWN_HITS")
        if hits_path:
            pathlib.Path(hits_path).write_text(json.dumps({"property": self.pid, "hit": [f["key"] for f in known if f.get("_n")], "unhit": [f["key"] for f in known if not f.get("_n")], "new": len(new)}))
        for f in known:
            if f.get("_n"):
                print("KNOWN-FINDING: property=%s %s (key=%s, %d case(s) in this run)" % (self.pid, f["what"], json.dumps(f["key"], sort_keys=True), f["_n"]))
        rdir = VERIF / "replays" / self.pid
        seen_keys = set()
        lines = []
        for v in new:
            ks = json.dumps([v["key"], v["clause"]], sort_keys=True)
            if ks in seen_keys:
                continue
            seen_keys.add(ks)
            if len(seen_keys) > 5:
                break
            rdir.mkdir(parents=True, exist_ok=True)
            h = hashlib.sha1(json.dumps(v, sort_keys=True, default=str).encode()).hexdigest()[:12]
            rp = rdir / (h + ".json")
            rp.write_text(json.dumps({"property": self.pid, **v}, indent=1, default=str))
            lines.append("VIOLATION property=%s replay=%s" % (self.pid, rp))
            print("  clause=%s key=%s %s" % (v["clause"], json.dumps(v["key"], sort_keys=True), v["detail"][:300]))
        for l in lines:
            print(l)
        self.write_evidence(len(new), len(self.violations) - len(new))
        shutil.rmtree(self.work, ignore_errors=True)
        return 1 if new else 0

    def write_evidence(self, n_new: int, n_known: int) -> None:
        if os.environ.get("VERIF_REPLAY") or os.environ.get("VERIF_NO_EVIDENCE"):
            return  # a replay of one case, or a run against a scratch tree, is not a coverage run of /repo
        cov = dict(self.cov)
        cov["samples"] = cov["samples"][:6]
        if not cov["samples"]:
            cov["samples"] = ["(none)"]
        cov["known_finding_cases"] = n_known
        ev = {
            "property_id": self.pid,
            "tier": self.tier,
            "seed": self.seed,
            "level": self.level,
            "coverage": cov,
            "assumptions": self.assumptions,
            "wall_s": round(time.time() - self.t0, 2),
            "violations": n_new,
            "repo": str(REPO),
            "notes": self.notes,
        }
        (VERIF / "evidence").mkdir(exist_ok=True)
        (VERIF / "evidence" / (self.pid + ".json")).write_text(json.dumps(ev, indent=1, default=str) + "\n")


# ---------------------------------------------------------------------------------------------
# helpers
# ---------------------------------------------------------------------------------------------


def cps(s: str) -> List[int]:
    return [ord(c) for c in s]


def from_cps(xs: Iterable[int]) -> str:
    return "".join(chr(x) for x in xs)


def write_json(p: pathlib.Path, obj: Any) -> None:
    p.parent.mkdir(parents=True, exist_ok=True)
    p.write_text(json.dumps(obj))


def read_json(p: pathlib.Path) -> Any:
    return json.loads(p.read_text())


def tla_seq_to_list(x: Any) -> Any:
    """JsonSerialize writes sequences as lists and records as dicts; functions with domain 1..n also as lists."""
    return x


def main_wrapper(fn) -> int:
    try:
        return fn()
    except MachineryFailure as ex:
        print("MACHINERY-FAILURE: %s" % ex, file=sys.stderr)
        return 2
