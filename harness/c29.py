"""C29 — Python SDK traversal and accessors are complete.

G: SdkWalkGen (instance graphs over the hierarchies of SdkModels);  R: run_c29 (descend_once / descend / accept / transform /
over_X_or_empty / X_or_default of the generated types, identities projected to paths);  V: SdkWalkTrace (section 3 of Sdk.tla).
"""
from __future__ import annotations

import collections
import json
import os
import pathlib
from typing import Any, Dict, List

from harness import core
from harness import sdk_tlc

DEPS = ["Sdk", "SdkModels"]


def shape(v: Dict[str, Any]) -> Dict[str, int]:
    """Size of an instance graph: nodes, maximal nesting, longest list of instances."""
    best = {"nodes": 0, "depth": 0, "list": 0}

    def walk(x: Dict[str, Any], d: int) -> None:
        best["nodes"] += 1
        best["depth"] = max(best["depth"], d)
        for f in x["fields"]:
            fv = f["v"]
            if fv["k"] == "inst":
                walk(fv, d + 1)
            elif fv["k"] == "list":
                insts = [i for i in fv["items"] if i["k"] == "inst"]
                best["list"] = max(best["list"], len(insts))
                for i in insts:
                    walk(i, d + 1)

    walk(v, 0)
    return best


def main() -> int:
    ck = core.Check("C29", "exploration")
    suffix = "" if ck.quick else "_thorough"
    nparts = 4 if ck.quick else 8
    gen = sdk_tlc.generate(ck, "SdkWalkGen", "SdkWalkGen%s.cfg" % suffix, DEPS, ["models", "instances"], nparts, "G: instance graphs")
    models, instances = gen["models"], gen["instances"]
    replay = os.environ.get("VERIF_REPLAY")
    if replay:
        case = core.read_json(pathlib.Path(replay))["case"]
        instances = [c for c in instances if c["mi"] == case["mi"] and c["x"] == case["x"]]
        if not instances:
            raise core.MachineryFailure("the replayed case is not in the generated case space (other tier / seed?)")
    core.write_json(ck.work / "models.json", models)
    core.write_json(ck.work / "instances.json", instances)
    ck.impl("harness.run_c29", [str(ck.work / "models.json"), str(ck.work / "instances.json"), str(ck.work / "obs.json"), str(ck.work / "sdk")], timeout=3000)
    obs = core.read_json(ck.work / "obs.json")
    viols, _ = sdk_tlc.validate(ck, "SdkWalkTrace", "SdkWalkTrace.cfg", obs, "V: traversal / dispatch / accessors on every node of every graph", sdk_tlc.MAX_PAR)
    for inv, idx in viols:
        rec = obs[idx]
        sh = shape(rec["x"])
        # structural fingerprint: clause + the classes of the nodes that disagree are not known here (TLC decides); use the root class and graph shape class
        key = {"clause": inv, "model": rec["mid"] if rec["pa"] == 0 else "param", "root": rec["x"]["cls"], "nested": sh["depth"] > 0, "lists": sh["list"] > 0}
        ck.violation(key, inv, {"mi": rec["mi"], "model": rec["mid"], "x": rec["x"]}, {"nodes": rec["nodes"], "walk": rec["walk"], "sdk": rec["sdk"], "built": rec["built"]},
                     detail="model=%s nodes=%d %s" % (rec["mid"], sh["nodes"], rec["detail"][:300]))
    shapes = [shape(r["x"]) for r in obs]
    nontrivial = sum(1 for r, s in zip(obs, shapes) if r["built"] and s["nodes"] > 1)
    nodes_total = sum(len(r["nodes"]) for r in obs)
    ck.cov["evaluations"] = len(obs)
    ck.cov["traces_validated_against_impl"] = len(obs)
    ck.cov["distinct_nontrivial"] = nontrivial
    ck.cov["nodes_observed"] = nodes_total
    ck.cov["rule"] = (
        "G (TLC): %d meta-models (6 fixed hierarchies incl. abstract root with model type, abstract middle class, concrete class with a concrete descendant, a diamond with descendable properties on the shared ancestor, "
        "multiple inheritance with a declared default, recursive class; + seeded sample of the parametric family), %d distinct instance graphs (nesting <= %d, "
        "lists of 0-2, optionals set/unset, every concrete descendant in every class-typed slot); every node of every graph is exercised (%d nodes); "
        "non-trivial = a graph with at least one nested instance" % (len(models), len(instances), max([s["depth"] for s in shapes] or [0]), nodes_total)
    )
    ck.cov["exhaustive"] = True
    ck.cov["max_nesting"] = max([s["depth"] for s in shapes] or [0])
    ck.cov["graphs_with_lists_of_2"] = sum(1 for s in shapes if s["list"] >= 2)
    ck.cov["accessor_observations"] = {"over_X_or_empty": sum(len(n["over"]) for r in obs for n in r["nodes"]), "X_or_default": sum(len(n["ordefault"]) for r in obs for n in r["nodes"])}
    big = sorted(range(len(obs)), key=lambda k: -shapes[k]["nodes"])[:1] + [len(obs) // 2]
    for k in big:
        if obs:
            r = obs[k]
            ck.cov["samples"].append({"model": r["mid"], "x": r["x"], "descend_of_root": r["nodes"][0]["all"] if r["nodes"] else [], "visit_of_root": r["nodes"][0]["visit"] if r["nodes"] else []})
    ck.assumptions += [
        "TLC, SANY, CommunityModules (Json, IOUtils, SequencesExt)",
        "X_or_default is implementation-specific in the Python target: the snippet is the literal transcription of the meta-model's reference body; what is checked of the generator is "
        "that the method lands on the declaring class, is inherited by every descendant and sees the property",
        "object identity is projected to the path from the root (the graphs are trees: every instance occurs once)",
    ]
    if not replay and (nontrivial == 0 or nodes_total == 0):
        raise core.MachineryFailure("vacuous run")
    return ck.finish()
