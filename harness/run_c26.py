"""R phase of C26: run the real yielding.linear.linearize_to_subroutines and project its result to the
vocabulary of specs/Yield.tla.

  python -m harness.run_c26 gen <flows.json> <obs.json>
        flows.json: [{"flow": [NODE...], "size": n}, ...] as written by YieldGen.tla
  python -m harness.run_c26 capture <obs.json> <scratch dir> <model.py> [<model.py> ...]
        code -> spec: the flows that ``--target cpp`` really builds (captured at
        cpp.yielding.generate_execute_body) on the given meta-models.

One record per flow: {"flow", "subs", "flat": false, "outcome": "ok"|"exception", "exc", "src"}.
"""
import json
import pathlib
import sys
from typing import Any, Dict, List, Optional

from harness import core

NONE = -1


def build_nodes(nodes: List[Dict[str, Any]]) -> list:
    """abstract flow (TLC records) -> yielding.flow nodes; code n is the text ``c<n>();`` / condition ``c<n>``."""
    from aas_core_codegen.common import Stripped
    from aas_core_codegen.yielding import flow as yf

    out = []
    for nd in nodes:
        k = nd["k"]
        if k == "cmd":
            out.append(yf.Command(Stripped("c%d();" % nd["code"])))
        elif k == "yield":
            out.append(yf.Yield())
        elif k in ("ift", "iff"):
            cls = yf.IfTrue if k == "ift" else yf.IfFalse
            out.append(cls(condition="c%d" % nd["code"], body=build_nodes(nd["body"]), or_else=build_nodes(nd["els"]) if nd["hasElse"] else None))
        elif k == "while":
            out.append(yf.While(condition="c%d" % nd["code"], body=build_nodes(nd["body"])))
        elif k == "for":
            out.append(yf.For(condition="c%d" % nd["code"], iteration="c%d" % nd["iter"], body=build_nodes(nd["body"]), init=("c%d" % nd["init"]) if nd["init"] != 0 else None))
        else:
            raise ValueError("unknown node kind %r" % k)
    return out


class Codes:
    """text -> small int; generated texts ``c<n>`` / ``c<n>();`` map back to n, other texts get fresh numbers."""

    def __init__(self) -> None:
        self.table: Dict[str, int] = {}

    def of(self, text: Optional[str]) -> int:
        if text is None:
            return 0
        t = str(text)
        core_t = t[:-3] if t.endswith("();") else t
        if core_t.startswith("c") and core_t[1:].isdigit():
            return int(core_t[1:])
        if t not in self.table:
            self.table[t] = 100000 + len(self.table)
        return self.table[t]


def project_subs(subroutines: Any, codes: Codes) -> List[List[Dict[str, Any]]]:
    from aas_core_codegen.yielding import linear as yl

    def lab(x: Optional[int]) -> int:
        return NONE if x is None else int(x)

    out = []
    for sub in subroutines:
        ss = []
        for st in sub:
            rec = {"k": "", "label": lab(st.label), "code": 0, "onT": NONE, "onF": NONE, "target": NONE}
            if isinstance(st, yl.Command):
                rec["k"] = "cmd"
                rec["code"] = codes.of(st.code)
            elif isinstance(st, yl.If):
                rec["k"] = "if"
                rec["code"] = codes.of(st.condition)
                rec["onT"] = lab(st.on_true)
                rec["onF"] = lab(st.on_false)
            elif isinstance(st, yl.Jump):
                rec["k"] = "jump"
                rec["target"] = lab(st.target)
            elif isinstance(st, yl.Yield):
                rec["k"] = "yield"
            elif isinstance(st, yl.Noop):
                rec["k"] = "noop"
            else:
                rec["k"] = "unknown:" + type(st).__name__
            ss.append(rec)
        out.append(ss)
    return out


def project_flow(nodes: Any, codes: Codes) -> List[Dict[str, Any]]:
    """yielding.flow nodes -> abstract flow (for captured flows)."""
    from aas_core_codegen.yielding import flow as yf

    out = []
    for nd in nodes:
        rec = {"k": "", "code": 0, "init": 0, "iter": 0, "body": [], "hasElse": False, "els": []}
        if isinstance(nd, yf.Command):
            rec["k"] = "cmd"
            rec["code"] = codes.of(nd.code)
        elif isinstance(nd, yf.Yield):
            rec["k"] = "yield"
        elif isinstance(nd, (yf.IfTrue, yf.IfFalse)):
            rec["k"] = "ift" if isinstance(nd, yf.IfTrue) else "iff"
            rec["code"] = codes.of(nd.condition)
            rec["body"] = project_flow(nd.body, codes)
            if nd.or_else is not None:
                rec["hasElse"] = True
                rec["els"] = project_flow(nd.or_else, codes)
        elif isinstance(nd, yf.While):
            rec["k"] = "while"
            rec["code"] = codes.of(nd.condition)
            rec["body"] = project_flow(nd.body, codes)
        elif isinstance(nd, yf.For):
            rec["k"] = "for"
            rec["code"] = codes.of(nd.condition)
            rec["init"] = codes.of(nd.init) if nd.init is not None else 0
            rec["iter"] = codes.of(nd.iteration)
            rec["body"] = project_flow(nd.body, codes)
        else:
            raise ValueError("unknown flow node %r" % type(nd).__name__)
        out.append(rec)
    return out


def flow_size(nodes: List[Dict[str, Any]]) -> int:
    return sum(1 + flow_size(nd["body"]) + flow_size(nd["els"]) for nd in nodes)


def observe(flow_abs: List[Dict[str, Any]], real_nodes: Any, codes: Codes, src: str) -> Dict[str, Any]:
    from aas_core_codegen.yielding import linear as yl

    try:
        subs = yl.linearize_to_subroutines(flow=real_nodes)
        ps = project_subs(subs, codes)
        return {"flow": flow_abs, "subs": ps, "flat": False, "outcome": "ok", "exc": "", "src": src, "n": sum(len(x) for x in ps), "size": flow_size(flow_abs)}
    except Exception as ex:  # an observation, not a harness crash
        return {"flow": flow_abs, "subs": [], "flat": False, "outcome": "exception", "exc": "%s: %s" % (type(ex).__name__, str(ex)[:300]), "src": src, "n": 0, "size": flow_size(flow_abs)}


def main_gen(flows_path: str, out_path: str) -> None:
    cases = json.load(open(flows_path))
    obs = []
    for c in cases:
        codes = Codes()
        obs.append(observe(c["flow"], build_nodes(c["flow"]), codes, "gen"))
    json.dump(obs, open(out_path, "w"))


def main_capture(out_path: str, scratch: str, models: List[str]) -> None:
    from aas_core_codegen.cpp import yielding as cpp_yielding
    from harness import mm

    captured: List[Any] = []
    original = cpp_yielding.generate_execute_body

    def wrapper(*args: Any, **kwargs: Any) -> Any:
        flow = kwargs.get("flow", args[0] if args else None)
        captured.append(flow)
        return original(*args, **kwargs)

    cpp_yielding.generate_execute_body = wrapper  # type: ignore
    # modules that imported the name directly
    import aas_core_codegen.cpp.lib._generate_iteration  # noqa: F401

    obs: List[Dict[str, Any]] = []
    seen = set()
    runs = []
    for i, m in enumerate(models):
        # "<model.py>::<snippets dir>" (snippets optional)
        mtext, _, stext = m.partition("::")
        mp = pathlib.Path(mtext)
        captured.clear()
        sd = pathlib.Path(scratch) / ("c%d" % i)
        sd.mkdir(parents=True, exist_ok=True)
        snip = pathlib.Path(stext) if stext else sd / "snippets"
        if not stext or not snip.exists():
            snip = sd / "snippets"
            mm.write_snippets(snip, mm.default_snippets("cpp"))
        res = mm.generate(mp, "cpp", snip, sd / "out")
        runs.append({"model": str(mp), "rc": res["rc"], "exc": res["exc"], "flows": len(captured)})
        for flow in captured:
            codes = Codes()
            try:
                fa = project_flow(flow, codes)
            except Exception as ex:
                raise SystemExit("cannot project a captured flow: %s" % ex)
            key = json.dumps(fa, sort_keys=True)
            if key in seen:
                continue
            seen.add(key)
            obs.append(observe(fa, flow, codes, "capture:" + mp.stem))
    json.dump({"obs": obs, "runs": runs}, open(out_path, "w"))


def main() -> None:
    core.assert_repo_bound()
    mode = sys.argv[1]
    if mode == "gen":
        main_gen(sys.argv[2], sys.argv[3])
    elif mode == "capture":
        main_capture(sys.argv[2], sys.argv[3], sys.argv[4:])
    else:
        raise SystemExit("unknown mode %r" % mode)


if __name__ == "__main__":
    main()
