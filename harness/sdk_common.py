"""Shared R-phase machinery of the `sdk` group (C10, C29, C30).

Vocabulary (see specs/Sdk.tla): a *raw model* is the JSON form of a meta-model of SdkModels.tla, a *value* is an
abstract instance ({"k": "inst", "cls", "fields": [{"n", "v"}]}, ...), a *jdoc* is an abstract JSON document
({"j": "obj", "members": [...]}, ...), an *xnode* an abstract XML element ({"tag", "ns", "text", "kids"}).

This module renders raw models to meta-model text, drives the generated Python SDK through its public API
(constructors, jsonization, xmlization) and projects what it sees back into the vocabulary.  The repository's
``python.naming`` is used only to *locate* generated classes / arguments / literals; everything the checks compare
(wire names, dispatch method names, orders, values) comes from the specification.
"""
from __future__ import annotations

import enum
import io
import json
import math
import pathlib
import traceback
import xml.etree.ElementTree as ET
from typing import Any, Dict, List, Optional, Sequence, Tuple

from harness import mm

NAMESPACE = "https://dummy.com"
OTHER_NAMESPACE = "https://other.example.com"


class HarnessError(Exception):
    """A problem of the machinery itself (never an observation)."""


# ---------------------------------------------------------------------------------------------------------
# text helpers
# ---------------------------------------------------------------------------------------------------------


def s_of(cps: List[int]) -> str:
    return "".join(chr(c) for c in cps)


def cps_of(s: str) -> List[int]:
    return [ord(c) for c in s]


def pystr(s: str) -> str:
    """A Python string literal (pure ASCII source) denoting exactly ``s`` (astral characters and lone surrogates too)."""
    return ascii(s)


def check_ident(ident: Dict[str, Any]) -> None:
    """S: the case variants the spec carries for an identifier are the ones of its '_'-separated parts."""
    parts = ident["src"].split("_")
    if [p.lower() for p in parts] != ident["lo"] or [p.capitalize() for p in parts] != ident["cap"] or [p.upper() for p in parts] != ident["up"]:
        raise HarnessError("identifier %r: inconsistent case variants in the spec: %r" % (ident["src"], ident))


# ---------------------------------------------------------------------------------------------------------
# raw model -> meta-model text
# ---------------------------------------------------------------------------------------------------------

_PRIM_PY = {"bool": "bool", "int": "int", "float": "float", "str": "str", "bytes": "bytearray"}


def type_text(t: Dict[str, Any]) -> str:
    if t["t"] in _PRIM_PY:
        return _PRIM_PY[t["t"]]
    if t["t"] in ("enum", "cls"):
        return t["name"]
    if t["t"] == "list":
        return "List[%s]" % type_text(t["item"])
    raise HarnessError("unknown type %r" % t)


class Model:
    """A raw model with the derived tables the harness needs (computed independently of TLC for navigation only)."""

    def __init__(self, raw: Dict[str, Any]) -> None:
        self.raw = raw
        self.id = raw["id"]
        self.root = raw["root"]
        self.classes = {c["name"]["src"]: c for c in raw["classes"]}
        self.enums = {e["name"]["src"]: e for e in raw["enums"]}
        for c in raw["classes"]:
            check_ident(c["name"])
            for p in c["props"]:
                check_ident(p["name"])
        for e in raw["enums"]:
            check_ident(e["name"])
            for l in e["lits"]:
                check_ident(l["name"])

    def all_props(self, cls: str) -> List[Dict[str, Any]]:
        c = self.classes[cls]
        out: List[Dict[str, Any]] = []
        for b in c["bases"]:
            out.extend(self.all_props(b))
        out.extend(c["props"])
        seen = set()
        uniq = []
        for p in out:  # a property reached along several inheritance paths (diamond) counts once
            if p["name"]["src"] not in seen:
                seen.add(p["name"]["src"])
                uniq.append(p)
        return uniq

    def all_defaults(self, cls: str) -> List[Dict[str, Any]]:
        c = self.classes[cls]
        out: List[Dict[str, Any]] = []
        for b in c["bases"]:
            out.extend(self.all_defaults(b))
        out.extend(c["defaults"])
        seen = set()
        uniq = []
        for d in out:
            if d["prop"] not in seen:
                seen.add(d["prop"])
                uniq.append(d)
        return uniq

    def ancestors(self, cls: str) -> List[str]:
        out: List[str] = []
        for b in self.classes[cls]["bases"]:
            out.append(b)
            out.extend(self.ancestors(b))
        return out

    # -- rendering ------------------------------------------------------------------------------------
    def render(self, extra_items: str = "", impl: Sequence[str] = ()) -> Tuple[str, Dict[str, str]]:
        """Meta-model text and the snippets (implementation-specific methods) it needs."""
        from aas_core_codegen.python import naming as pn
        from aas_core_codegen.common import Identifier

        parts = [mm.HEADER]
        snippets: Dict[str, str] = {}
        for e in self.raw["enums"]:
            s = "class %s(Enum):\n" % e["name"]["src"]
            for l in e["lits"]:
                s += "    %s = %s\n" % (l["name"]["src"], pystr(s_of(l["val"])))
            if not e["lits"]:
                s += "    pass\n"
            parts.append(s)
        for c in self.raw["classes"]:
            name = c["name"]["src"]
            s = ""
            if c["abstract"]:
                s += "@abstract\n"
            if name in impl:
                s += "@implementation_specific\n"
            if c["wmt"]:
                s += "@serialization(with_model_type=True)\n"
            s += "class %s(%s):\n" % (name, ", ".join(list(c["bases"]) + ["DBC"]))
            for p in c["props"]:
                t = type_text(p["type"])
                s += "    %s: %s\n" % (p["name"]["src"], "Optional[%s]" % t if p["opt"] else t)
            s += "\n"
            for d in c["defaults"]:
                meth = "%s_or_default" % d["prop"]
                s += (
                    "    @implementation_specific\n    @non_mutating\n"
                    '    def %s(self) -> "%s":\n'
                    "        return self.%s if self.%s is not None else %s.%s\n\n" % (meth, d["enum"], d["prop"], d["prop"], d["enum"], d["lit"])
                )
                py_prop = pn.property_name(Identifier(d["prop"]))
                snippets["Types/%s/%s.py" % (name, meth)] = "def %s(self) -> '%s':\n    return self.%s if self.%s is not None else %s.%s\n" % (
                    pn.method_name(Identifier(meth)),
                    pn.enum_name(Identifier(d["enum"])),
                    py_prop,
                    py_prop,
                    pn.enum_name(Identifier(d["enum"])),
                    pn.enum_literal_name(Identifier(d["lit"])),
                )
            allp = self.all_props(name)
            req = [p for p in allp if not p["opt"]]
            opt = [p for p in allp if p["opt"]]
            args = ["self"] + ["%s: %s" % (p["name"]["src"], type_text(p["type"])) for p in req] + ["%s: Optional[%s] = None" % (p["name"]["src"], type_text(p["type"])) for p in opt]
            if allp:
                s += "    def __init__(%s) -> None:\n" % ", ".join(args)
                for b in c["bases"]:
                    bp = self.all_props(b)
                    if bp:
                        s += "        %s.__init__(self, %s)\n" % (b, ", ".join("%s=%s" % (p["name"]["src"], p["name"]["src"]) for p in bp))
                for p in c["props"]:
                    s += "        self.%s = %s\n" % (p["name"]["src"], p["name"]["src"])
                if not c["props"] and not any(self.all_props(b) for b in c["bases"]):
                    s += "        pass\n"
            else:
                s += "    pass\n"
            parts.append(s)
        if extra_items:
            parts.append(extra_items)
        parts.append('__version__ = "V1"\n__xml_namespace__ = %s\n' % pystr(NAMESPACE))
        return "\n\n".join(parts), snippets


# ---------------------------------------------------------------------------------------------------------
# the generated SDK, wrapped
# ---------------------------------------------------------------------------------------------------------


class Sdk:
    def __init__(self, model: Model, scratch: pathlib.Path, extra_items: str = "", impl: Sequence[str] = (), need: Optional[Sequence[str]] = None) -> None:
        """``impl``: concrete classes to be declared ``@implementation_specific``; their ``Types/<cls>.py`` snippet is the class
        as the generator itself emits it (taken from a first generation without the decorator), the other snippets such a
        class needs are stubs.  ``need``: the modules that have to be importable (default: all)."""
        import inspect

        from aas_core_codegen.python import naming as pn
        from aas_core_codegen.common import Identifier

        self.model = model
        self.pn = pn
        self.Identifier = Identifier
        text, snippets = model.render(extra_items)
        self.text = text
        self.gen = mm.generate_python_sdk(text, scratch, snippets=snippets)
        if impl and self.gen["rc"] == 0 and "types" in self.gen["mods"]:
            first = self.gen
            for c in impl:
                low = pn.function_name(Identifier(c))
                snippets["Types/%s.py" % c] = inspect.getsource(getattr(first["mods"]["types"], pn.class_name(Identifier(c))))
                snippets["Jsonization/%s_from_jsonable.py" % c] = "def %s_from_jsonable(jsonable: Jsonable) -> aas_types.Class:\n    raise NotImplementedError()\n" % low
                snippets["Xmlization/read_%s.py" % c] = "def _read_%s_as_element(element: Element, iterator: Iterator[Tuple[str, Element]]) -> aas_types.Class:\n    raise NotImplementedError()\n" % low
                snippets["Verification/transform_%s.py" % c] = "def transform_%s(self, that: aas_types.Class) -> Iterator[Error]:\n    return\n    yield\n" % low
            mm.drop_sdk(first)
            text, _ = model.render(extra_items, impl=impl)
            self.text = text
            self.gen = mm.generate_python_sdk(text, pathlib.Path(str(scratch) + "_impl"), snippets=snippets)
        self.accepted = self.gen["rc"] == 0  # the front end and the generator took the meta-model
        errors = self.gen.get("import_errors") or {}
        self.ok = self.accepted and not (errors if need is None else [m for m in need if m in errors or m not in self.gen["mods"]])
        self.mods = self.gen["mods"]
        if not self.ok:
            return
        self.types = self.mods["types"]
        self.jsonization = self.mods.get("jsonization")
        self.xmlization = self.mods.get("xmlization")
        self.cls_by_src = {}
        self.src_by_cls = {}
        for src in model.classes:
            k = getattr(self.types, pn.class_name(Identifier(src)))
            self.cls_by_src[src] = k
            self.src_by_cls[k] = src
        self.enum_by_src = {}
        self.lit_src = {}
        for src, e in model.enums.items():
            k = getattr(self.types, pn.enum_name(Identifier(src)))
            self.enum_by_src[src] = k
            for l in e["lits"]:
                member = getattr(k, pn.enum_literal_name(Identifier(l["name"]["src"])))
                self.lit_src[member] = (src, l["name"]["src"])

    def why_not_ok(self) -> str:
        return json.dumps({"rc": self.gen["rc"], "stderr": self.gen["stderr"][:600], "exc": self.gen.get("exc"), "import_errors": self.gen.get("import_errors")})

    def drop(self) -> None:
        mm.drop_sdk(self.gen)

    # -- value -> SDK object --------------------------------------------------------------------------
    def build(self, v: Dict[str, Any], nodes: Optional[Dict[int, List[Any]]] = None, path: Optional[List[Any]] = None) -> Any:
        """Construct through the generated constructors. ``nodes`` collects id(obj) -> path of every class instance."""
        k = v["k"]
        if k == "none":
            return None
        if k == "bool":
            return v["b"]
        if k == "int":
            return int(v["tok"])
        if k == "float":
            return float(v["tok"])
        if k == "str":
            return s_of(v["cps"])
        if k == "bytes":
            return bytes(v["bs"])
        if k == "enum":
            return getattr(self.enum_by_src[v["enum"]], self.pn.enum_literal_name(self.Identifier(v["lit"])))
        if k == "list":
            out = []
            for i, item in enumerate(v["items"]):
                out.append(self.build(item, nodes, None if path is None else path[:-1] + [[path[-1][0], i + 1]]))
            return out
        if k == "inst":
            kwargs = {}
            for f in v["fields"]:
                sub = None if path is None else path + [[f["n"], 0]]
                kwargs[self.pn.argument_name(self.Identifier(f["n"]))] = self.build(f["v"], nodes, sub)
            obj = self.cls_by_src[v["cls"]](**kwargs)
            if nodes is not None and path is not None:
                nodes[id(obj)] = path
            return obj
        raise HarnessError("cannot build %r" % v)

    # -- SDK object -> value (by the run-time types, so that a bool in an int slot is seen) -------------
    def project(self, obj: Any) -> Dict[str, Any]:
        if obj is None:
            return {"k": "none"}
        if isinstance(obj, bool):
            return {"k": "bool", "b": obj}
        if isinstance(obj, int):
            return {"k": "int", "tok": str(obj)}
        if isinstance(obj, float):
            return {"k": "float", "tok": repr(obj)}
        if isinstance(obj, str):
            return {"k": "str", "cps": cps_of(obj)}
        if isinstance(obj, (bytes, bytearray)):
            return {"k": "bytes", "bs": list(obj)}
        if isinstance(obj, enum.Enum):
            if obj in self.lit_src:
                e, l = self.lit_src[obj]
                return {"k": "enum", "enum": e, "lit": l}
            return {"k": "enum", "enum": type(obj).__name__, "lit": "?" + obj.name}
        if isinstance(obj, (list, tuple)):
            return {"k": "list", "items": [self.project(i) for i in obj]}
        src = self.src_by_cls.get(type(obj))
        if src is not None:
            fields = []
            for p in self.model.all_props(src):
                fields.append({"n": p["name"]["src"], "v": self.project(getattr(obj, self.pn.property_name(self.Identifier(p["name"]["src"]))))})
            return {"k": "inst", "cls": src, "fields": fields}
        return {"k": "str", "cps": cps_of("<unprojectable %s>" % type(obj).__name__)}

    def from_jsonable_fn(self, cls_src: str):
        return getattr(self.jsonization, self.pn.function_name(self.Identifier("%s_from_jsonable" % cls_src)))

    def from_str_fn(self, cls_src: str):
        return getattr(self.xmlization, self.pn.function_name(self.Identifier("%s_from_str" % cls_src)))


# ---------------------------------------------------------------------------------------------------------
# deep comparison on the Python side (floats included)
# ---------------------------------------------------------------------------------------------------------


def deep_equal(a: Any, b: Any) -> bool:
    if type(a) is not type(b):
        if isinstance(a, (bytes, bytearray)) and isinstance(b, (bytes, bytearray)):
            return bytes(a) == bytes(b)
        return False
    if isinstance(a, float):
        if math.isnan(a) or math.isnan(b):
            return math.isnan(a) and math.isnan(b)
        return a == b and math.copysign(1.0, a) == math.copysign(1.0, b)
    if isinstance(a, (bool, int, str, bytes, bytearray)) or a is None or isinstance(a, enum.Enum):
        return a == b
    if isinstance(a, (list, tuple)):
        return len(a) == len(b) and all(deep_equal(x, y) for x, y in zip(a, b))
    da, db = vars(a), vars(b)
    return da.keys() == db.keys() and all(deep_equal(da[k], db[k]) for k in da)


# ---------------------------------------------------------------------------------------------------------
# abstract JSON <-> Python jsonable
# ---------------------------------------------------------------------------------------------------------


def jdoc_to_py(d: Dict[str, Any]) -> Any:
    j = d["j"]
    if j == "null":
        return None
    if j == "bool":
        return d["b"]
    if j == "num":
        return int(d["tok"]) if d["isint"] else float(d["tok"])
    if j == "str":
        return s_of(d["cps"])
    if j == "name":
        return d["s"]
    if j == "arr":
        return [jdoc_to_py(i) for i in d["items"]]
    if j == "obj":
        return {m["key"]: jdoc_to_py(m["val"]) for m in d["members"]}
    raise HarnessError("bad jdoc %r" % d)


def py_to_jdoc(o: Any, key: Optional[str] = None) -> Dict[str, Any]:
    if o is None:
        return {"j": "null"}
    if isinstance(o, bool):
        return {"j": "bool", "b": o}
    if isinstance(o, int):
        return {"j": "num", "isint": True, "tok": str(o)}
    if isinstance(o, float):
        return {"j": "num", "isint": False, "tok": repr(o)}
    if isinstance(o, str):
        if key == "modelType":
            return {"j": "name", "s": o}
        return {"j": "str", "cps": cps_of(o)}
    if isinstance(o, (list, tuple)):
        return {"j": "arr", "items": [py_to_jdoc(i) for i in o]}
    if isinstance(o, dict):
        return {"j": "obj", "members": [{"key": str(k), "val": py_to_jdoc(v, str(k))} for k, v in o.items()]}
    return {"j": "str", "cps": cps_of("<not jsonable: %s>" % type(o).__name__)}


# ---------------------------------------------------------------------------------------------------------
# abstract XML <-> text
# ---------------------------------------------------------------------------------------------------------


def _xml_escape(s: str) -> str:
    out = []
    for ch in s:
        if ch == "&":
            out.append("&amp;")
        elif ch == "<":
            out.append("&lt;")
        elif ch == ">":
            out.append("&gt;")
        elif ch == "\r":
            out.append("&#13;")
        else:
            out.append(ch)
    return "".join(out)


def float_to_xs(tok: str) -> str:
    f = float(tok)
    if math.isnan(f):
        return "NaN"
    if f == math.inf:
        return "INF"
    if f == -math.inf:
        return "-INF"
    return tok


def xs_to_float(text: str) -> Optional[float]:
    t = text.strip()
    if t == "NaN":
        return math.nan
    if t == "INF":
        return math.inf
    if t == "-INF":
        return -math.inf
    try:
        if t.lower().lstrip("+-") in ("inf", "infinity", "nan") or "_" in t:
            return None
        return float(t)
    except ValueError:
        return None


def xtext_to_str(t: Dict[str, Any]) -> str:
    if t["x"] == "none":
        return ""
    if t["x"] == "cps":
        return s_of(t["cps"])
    if t["x"] == "tok":
        return float_to_xs(t["tok"]) if t["cls"] == "float" else t["tok"]
    raise HarnessError("bad xtext %r" % t)


_NS_URI = {"ok": NAMESPACE, "other": OTHER_NAMESPACE, "none": ""}


def xnode_to_text(node: Dict[str, Any], parent_ns: Optional[str] = None) -> str:
    uri = _NS_URI[node["ns"]]
    attr = ""
    if parent_ns is None or uri != parent_ns:
        if not (parent_ns is None and uri == ""):
            attr = ' xmlns="%s"' % uri
    inner = _xml_escape(xtext_to_str(node["text"])) + "".join(xnode_to_text(k, uri) for k in node["kids"])
    if inner == "":
        return "<%s%s/>" % (node["tag"], attr)
    return "<%s%s>%s</%s>" % (node["tag"], attr, inner, node["tag"])


def _split_tag(tag: str) -> Tuple[str, str]:
    if tag.startswith("{"):
        uri, _, local = tag[1:].partition("}")
        return ("ok" if uri == NAMESPACE else "other"), local
    return "none", tag


def _align_text(text: Optional[str], expected: Optional[Dict[str, Any]]) -> Dict[str, Any]:
    """Project the text of a leaf element; number / boolean texts are compared here (opaque to TLC): when the text
    denotes the same value as the token the spec expects at this position, the token is reported."""
    if text is None or text == "":
        return {"x": "none"}
    if expected is not None and expected["text"]["x"] == "tok":
        et = expected["text"]
        if et["cls"] == "bool" and text in ("true", "false", "1", "0") and (text in ("true", "1")) == (et["tok"] in ("true", "1")):
            return et
        if et["cls"] == "int":
            try:
                if text.strip() == text and "_" not in text and int(text) == int(et["tok"]):
                    return et
            except ValueError:
                pass
        if et["cls"] == "float":
            f = xs_to_float(text)
            g = float(et["tok"])
            if f is not None and ((math.isnan(f) and math.isnan(g)) or (f == g and math.copysign(1.0, f) == math.copysign(1.0, g))):
                return et
    return {"x": "cps", "cps": cps_of(text)}


def etree_to_xnode(el: ET.Element, expected: Optional[Dict[str, Any]]) -> Dict[str, Any]:
    ns, local = _split_tag(el.tag)
    kids = list(el)
    ekids = expected["kids"] if expected is not None and expected["tag"] == local and len(expected["kids"]) == len(kids) else None
    out_kids = [etree_to_xnode(k, ekids[i] if ekids is not None else None) for i, k in enumerate(kids)]
    tnode = _align_text(el.text, expected if expected is not None and expected["tag"] == local else None)
    return {"tag": local, "ns": ns, "text": tnode, "kids": out_kids}


DUMMY_XNODE = {"tag": "", "ns": "none", "text": {"x": "none"}, "kids": []}
DUMMY_JDOC = {"j": "null"}
VNONE = {"k": "none"}


def exc_text(ex: BaseException) -> str:
    return "%s.%s: %s" % (type(ex).__module__, type(ex).__name__, str(ex)[:200])


def sdk_frame(ex: BaseException, sdk: "Sdk") -> str:
    """Name of the innermost function of the generated SDK on the traceback (structural fingerprint of an exception)."""
    root = str(sdk.gen.get("out_dir", "?"))
    name = ""
    for f in traceback.extract_tb(ex.__traceback__):
        if f.filename.startswith(root):
            name = "%s.%s" % (pathlib.Path(f.filename).stem, f.name)
    return name


def outcome_of(fn, arg, sdk: "Sdk", error_cls) -> Tuple[Dict[str, Any], Any, str]:
    """Run a de-serializer: ({"o": accepted|rejected|exception, "v": value}, object, detail).
    For an exception the detail starts with "<ExceptionType> in <sdk module.function>: "."""
    try:
        obj = fn(arg)
    except error_cls as ex:
        return {"o": "rejected", "v": VNONE}, None, exc_text(ex)
    except Exception as ex:  # an observation, not a harness crash
        return {"o": "exception", "v": VNONE}, None, "%s in %s: %s" % (type(ex).__name__, sdk_frame(ex, sdk), str(ex)[:200])
    return {"o": "accepted", "v": sdk.project(obj)}, obj, ""
