"""C22, configuration proc=inproc: a process that has already run another generation (different model, different
target) calls the command-line entry point of aas_core_codegen in the same interpreter.

usage: python -m harness.c22_host <warm model> <warm snippets dir> <warm out dir> <warm target> -- <cli args...>
"""
import io
import pathlib
import sys


def main() -> int:
    sep = sys.argv.index("--")
    wm, ws, wo, wt = sys.argv[1:sep]
    cli = sys.argv[sep + 1 :]
    from aas_core_codegen import main as cg_main

    # the earlier generation; whatever happens to it is not observed
    try:
        params = cg_main.Parameters(model_path=pathlib.Path(wm), target=cg_main.Target(wt), snippets_dir=pathlib.Path(ws), output_dir=pathlib.Path(wo), cache_model=True)
        cg_main.execute(params, stdout=io.StringIO(), stderr=io.StringIO())
    except Exception:
        pass
    sys.argv = ["aas-core-codegen"] + cli
    return cg_main.main(prog="aas-core-codegen")


if __name__ == "__main__":
    sys.exit(main())
