"""R phase of C25: materialise every generated directory tree and load it with the real code.

  python -m harness.run_c25 <trees.json> <obs.json> <scratch dir>

trees.json: [{"entries": [ENTRY...]}, ...] as written by SnippetsGen.tla (names / texts as code points, bytes).
Observation per tree: {"entries", "rd": {...}, "main": {...}, "selfcheck": [...]}.
"""
import io
import json
import os
import pathlib
import shutil
import sys
from typing import Any, Dict, List

from harness import core


def s(cps: List[int]) -> str:
    return "".join(chr(c) for c in cps)


def materialise(root: pathlib.Path, entries: List[Dict[str, Any]]) -> List[str]:
    """Create the tree; returns self-check complaints about the generator's text/bytes tables."""
    complaints = []
    if root.exists():
        shutil.rmtree(root)
    root.mkdir(parents=True)
    for e in entries:
        d = root
        for part in e["dirs"]:
            d = d / s(part)
        d.mkdir(parents=True, exist_ok=True)
        p = d / s(e["name"])
        if e["kind"] == "dir":
            p.mkdir(exist_ok=True)
            continue
        data = bytes(e["bytes"])
        p.write_bytes(data)
        # S: the spec's decoding table must agree with CPython's decoder
        try:
            text = data.decode("utf-8")
            ok = True
        except UnicodeDecodeError:
            text, ok = "", False
        if ok != bool(e["utf8"]) or (ok and [ord(c) for c in text] != list(e["text"])):
            complaints.append("content class %s: spec says utf8=%s text=%r, CPython says utf8=%s text=%r" % (e.get("ccls"), e["utf8"], s(e["text"]), ok, text))
    return complaints


def main() -> None:
    trees_path, out_path, scratch = sys.argv[1], sys.argv[2], pathlib.Path(sys.argv[3])
    core.assert_repo_bound()
    from aas_core_codegen import main as cg_main
    from aas_core_codegen import specific_implementations as si
    from harness import mm

    scratch.mkdir(parents=True, exist_ok=True)
    model = scratch / "meta_model.py"
    model.write_text(mm.render({"items": [{"kind": "class", "name": "Something", "props": [{"name": "x", "type": "int"}]}]}), encoding="utf-8")
    trees = json.load(open(trees_path))
    obs = []
    for t in trees:
        root = t.get("root", "plain")
        base = scratch / "roots"
        shutil.rmtree(base, ignore_errors=True)
        (base / "sub").mkdir(parents=True)
        real = {"plain": base / "sn", "hidden_ancestor": base / ".cache" / "sn", "hidden_self": base / ".sn", "dotdot": base / "sn"}[root]
        complaints = materialise(real, t["entries"])
        # the path as it is handed to the code under test
        sd = (base / "sub" / ".." / "sn") if root == "dotdot" else real
        # read_from_directory
        try:
            mapping, errors = si.read_from_directory(snippets_dir=sd)
            if errors is not None:
                rd = {"outcome": "errors", "mapping": [], "errors": [core.cps(str(x)) for x in errors], "exc": ""}
            else:
                rd = {"outcome": "mapping", "mapping": [{"key": core.cps(str(k)), "value": core.cps(str(v))} for k, v in sorted(mapping.items())], "errors": [], "exc": ""}
        except Exception as ex:  # observation
            rd = {"outcome": "exception", "mapping": [], "errors": [], "exc": "%s: %s" % (type(ex).__name__, str(ex)[:200])}
        # main.execute (cheapest target)
        out, err = io.StringIO(), io.StringIO()
        od = scratch / "out"
        try:
            params = cg_main.Parameters(model_path=model, target=cg_main.Target("jsonschema"), snippets_dir=sd, output_dir=od, cache_model=False)
            rc = cg_main.execute(params, stdout=out, stderr=err)
            mn = {"outcome": "returned", "rc": int(rc), "stderr": core.cps(err.getvalue()[:3000]), "exc": ""}
        except Exception as ex:  # observation
            mn = {"outcome": "exception", "rc": -1, "stderr": core.cps(err.getvalue()[:3000]), "exc": "%s: %s" % (type(ex).__name__, " ".join(str(ex).split())[:200])}
        obs.append({"entries": t["entries"], "root": root, "rd": rd, "main": mn, "selfcheck": complaints})
    shutil.rmtree(scratch / "roots", ignore_errors=True)
    json.dump(obs, open(out_path, "w"))


if __name__ == "__main__":
    main()
