"""R phase of C23: replay TLC-generated run histories (runs with / without --cache_model, on either of two
model texts, with evictions in between) through the real command line entry point ``main.main`` (argv
parsing included) and record, per run, every operation on the cache directory, every write outside the
output directory, and whether output / stdout / stderr / exit status equal those of the reference run.

usage: python -m harness.run_c23 <histories.json> <traces.json> <scratch dir>
"""
import contextlib
import hashlib
import io
import json
import os
import pathlib
import pickle
import shutil
import sys
import tempfile

from harness import core, mm

LOG = None  # list of events of the current run, or None
CACHE_DIR = ""
OUT_DIR = ""
ALLOWED_READ_ONLY = True


def _p(x):
    try:
        p = os.fspath(x)
    except TypeError:
        return None
    if isinstance(p, bytes):
        p = p.decode("utf-8", "replace")
    return os.path.abspath(p)


def audit(event, args):
    if LOG is None:
        return
    if event == "open":
        path, mode, _ = args
        p = _p(path) if isinstance(path, (str, bytes, os.PathLike)) else None
        if p is None:
            return
        w = any(c in (mode or "r") for c in "wax+")
        if p.startswith(CACHE_DIR):
            LOG.append(("OpenTmp" if w else "OpenRead", p))
        elif w and not p.startswith(OUT_DIR) and not p.startswith("/dev/"):
            LOG.append(("stray", p))
    elif event in ("os.mkdir", "os.remove", "os.rmdir"):
        p = _p(args[0])
        if p is None:
            return
        if p.startswith(CACHE_DIR):
            LOG.append(({"os.mkdir": "Mkdir", "os.remove": "Unlink", "os.rmdir": "Rmdir"}[event], p))
        elif not p.startswith(OUT_DIR):
            LOG.append(("stray", p))
    elif event == "os.rename":
        a, b = _p(args[0]), _p(args[1])
        if (a and a.startswith(CACHE_DIR)) or (b and b.startswith(CACHE_DIR)):
            LOG.append(("Rename", (a or "") + "\x00" + (b or "")))
        elif not ((a or "").startswith(OUT_DIR) and (b or "").startswith(OUT_DIR)):
            LOG.append(("stray", b))


def install():
    orig_exists = pathlib.Path.exists

    def exists(self, *a, **kw):
        res = orig_exists(self, *a, **kw)
        if LOG is not None:
            p = _p(self)
            if p and p.startswith(CACHE_DIR) and p != CACHE_DIR:
                LOG.append(("Exists", p, bool(res)))
        return res

    pathlib.Path.exists = exists  # type: ignore
    orig_load = pickle.load

    def load(fid, *a, **kw):
        if LOG is not None:
            LOG.append(("Load", getattr(fid, "name", "")))
        return orig_load(fid, *a, **kw)

    pickle.load = load  # type: ignore
    sys.addaudithook(audit)


def digest_dir(d: pathlib.Path) -> str:
    h = hashlib.sha256()
    if d.exists():
        for f in sorted(p for p in d.rglob("*") if p.is_file()):
            h.update(str(f.relative_to(d)).encode())
            h.update(b"\0")
            h.update(f.read_bytes())
            h.update(b"\0")
    return h.hexdigest()


def main() -> None:
    global LOG, CACHE_DIR, OUT_DIR
    hist_path, out_path, scratch = sys.argv[1], sys.argv[2], pathlib.Path(sys.argv[3])
    core.assert_repo_bound()
    sys.setrecursionlimit(20000)
    import aas_core_codegen
    from aas_core_codegen import main as cg_main, run

    spec = json.load(open(hist_path))
    texts = spec["texts"]
    targets = spec["targets"]
    scratch.mkdir(parents=True, exist_ok=True)
    model_path = scratch / "meta_model.py"
    sha_to_text = {hashlib.sha256(src.encode()).hexdigest(): t for t, src in texts.items()}
    cache_dir = pathlib.Path(tempfile.gettempdir()) / ("aas-core-codegen-%s" % aas_core_codegen.__version__)
    CACHE_DIR = str(cache_dir)
    ORIG_LOAD = pickle.load
    install()

    def classify(name):
        if name.startswith("model-") and name.endswith(".pickle"):
            sha = name[len("model-") : -len(".pickle")]
            return "final", sha_to_text.get(sha, "foreign:" + sha[:8])
        if name.startswith("model-") and name.endswith(".tmp"):
            return "tmp", tmp_label.get(name, "unlabelled")
        return "other", name

    def fs_view():
        out = []
        if os.path.isdir(CACHE_DIR):
            for f in sorted(os.listdir(CACHE_DIR)):
                cls, key = classify(f)
                ok = False
                try:
                    with open(os.path.join(CACHE_DIR, f), "rb") as fid:
                        obj = ORIG_LOAD(fid)
                    ok = isinstance(obj, run._Cached)
                except Exception:
                    ok = False
                out.append({"cls": cls, "key": key, "complete": ok})
        return out

    def one_run(text_id, flag, target, out_dir):
        """-> (events, observable outcome tuple)"""
        global LOG, OUT_DIR
        model_path.write_text(texts[text_id], encoding="utf-8")
        snippets = scratch / ("snippets_" + target)
        if not snippets.exists():
            mm.write_snippets(snippets, mm.default_snippets(target, module="vsdk"))
        if out_dir.exists():
            shutil.rmtree(out_dir)
        OUT_DIR = str(out_dir.resolve())
        argv = ["aas-core-codegen", "--model_path", str(model_path), "--snippets_dir", str(snippets), "--output_dir", str(out_dir), "--target", target]
        if flag:
            argv.append("--cache_model")
        so, se = io.StringIO(), io.StringIO()
        old_argv = sys.argv
        sys.argv = argv
        LOG = []
        exc = ""
        try:
            with contextlib.redirect_stdout(so), contextlib.redirect_stderr(se):
                rc = cg_main.main(prog="aas-core-codegen")
        except SystemExit as ex:
            rc = ex.code
        except Exception as ex:  # observation
            rc = "exception"
            exc = "%s: %s" % (type(ex).__name__, str(ex)[:200])
        finally:
            log, LOG = LOG, None
            sys.argv = old_argv
        outcome = (str(rc), so.getvalue().replace(str(out_dir), "<out>"), se.getvalue().replace(str(out_dir), "<out>"), digest_dir(out_dir), exc)
        return log, outcome

    traces = []
    reference = {}
    for hid, hist in enumerate(spec["histories"]):
        target = hist["target"]
        # reference: an uncached run in a pristine state (cache directory absent)
        for t in texts:
            if (t, target) not in reference:
                shutil.rmtree(CACHE_DIR, ignore_errors=True)
                _, outcome = one_run(t, False, target, scratch / "out_ref")
                reference[(t, target)] = outcome
        shutil.rmtree(CACHE_DIR, ignore_errors=True)
        tmp_label = {}
        events = []
        nstart = 0

        def ev(name, **kw):
            e = {"ev": name, "run": "r1", "text": "", "flag": False, "hit": False, "cls": "none", "key": "", "res": "", "stray": 0, "hasfs": False, "fs": []}
            e.update(kw)
            events.append(e)

        for k, step in enumerate(hist["steps"]):
            if step["a"] == "evict":
                # the OS temp cleaner removes every published entry of that text
                if os.path.isdir(CACHE_DIR):
                    for f in os.listdir(CACHE_DIR):
                        cls, key = classify(f)
                        if cls == "final" and key == step["text"]:
                            os.remove(os.path.join(CACHE_DIR, f))
                ev("Evict", cls="final", key=step["text"], hasfs=True, fs=fs_view())
                continue
            nstart += 1
            out_dir = scratch / ("out_%d" % (k % 2))  # alternate between two output locations
            log, outcome = one_run(step["text"], bool(step["flag"]), target, out_dir)
            ev("StartRun", text=step["text"], flag=bool(step["flag"]))
            stray = 0
            for item in log:
                op = item[0]
                if op == "stray":
                    stray += 1
                    continue
                path = item[1]
                if op == "Rename":
                    src, dst = path.split("\x00")
                    cls, key = classify(os.path.basename(dst))
                    ev("Rename", cls=cls, key=key)
                elif op == "Exists":
                    cls, key = classify(os.path.basename(path))
                    ev("Exists", cls=cls, key=key, hit=item[2])
                elif op == "OpenTmp":
                    nm = os.path.basename(path)
                    if nm.endswith(".tmp") and nm not in tmp_label:
                        tmp_label[nm] = str(nstart)
                    cls, key = classify(nm)
                    ev("OpenTmp", cls=cls, key=key)
                elif op in ("OpenRead", "Unlink"):
                    cls, key = classify(os.path.basename(path))
                    ev(op, cls=cls, key=key)
                elif op in ("Mkdir", "Load"):
                    ev(op)
                else:
                    ev(op)
            ref = reference[(step["text"], target)]
            res = "ok" if outcome == ref else ("raised" if outcome[0] == "exception" else "diff")
            ev("Return", res=res, stray=stray, hasfs=True, fs=fs_view())
            if res != "ok":
                events[-1]["diff"] = [i for i in range(5) if outcome[i] != ref[i]]
        traces.append({"id": hid, "silent": True, "target": target, "events": events})
    shutil.rmtree(CACHE_DIR, ignore_errors=True)
    json.dump(traces, open(out_path, "w"))


if __name__ == "__main__":
    main()
