"""R phase of C24 (and the in-process part of C23): replay TLC-generated schedules into the real
run.load_model with N threads gated at every shared-state step, record what the code did.

Gates (the acting thread blocks *before* the operation until the scheduler grants it one step):
  Exists      wrapper on pathlib.Path.exists           (paths inside the cache directory)
  OpenRead    sys.addaudithook "open" with a read mode (cache directory)
  Load        wrapper on pickle.load
  Mkdir       audit "os.mkdir"
  OpenTmp     audit "open" with a write mode
  WriteChunk  wrapper on pickle.dump: the bytes are written in CHUNKS flushed pieces, one gate each
  Rename      audit "os.rename"
  Unlink      audit "os.remove"
  Return      the call returned or raised (virtual gate)
A crash is an exception raised from the gate: the pending operation does not happen, and every later
operation of that thread on the cache directory is refused too (a killed process does nothing more).

usage: python -m harness.run_cache_gate <schedules.json> <traces.json> <scratch dir>
"""
import hashlib
import io
import json
import os
import pathlib
import pickle
import queue
import shutil
import sys
import tempfile
import threading
import traceback

from harness import core

CHUNKS = 2


class SimulatedCrash(BaseException):
    pass


class Sched:
    def __init__(self, cache_dir: pathlib.Path) -> None:
        self.cache_dir = str(cache_dir)
        self.q: "queue.Queue" = queue.Queue()
        self.grant = {}
        self.crashed = {}
        self.hit = {}
        self.active = False

    def run_of_thread(self):
        n = threading.current_thread().name
        return n if n in self.grant else None

    def gate(self, op: str, path: str) -> None:
        r = self.run_of_thread()
        if r is None or not self.active:
            return
        if self.crashed.get(r):
            raise SimulatedCrash()
        self.q.put(("at", r, op, path))
        self.grant[r].acquire()
        if self.crashed.get(r):
            raise SimulatedCrash()


SCHED = None  # type: Sched


def in_cache(path) -> bool:
    try:
        p = os.fspath(path)
    except TypeError:
        return False
    if isinstance(p, bytes):
        p = p.decode("utf-8", "replace")
    return SCHED is not None and os.path.abspath(p).startswith(SCHED.cache_dir)


def audit(event: str, args) -> None:
    if SCHED is None or not SCHED.active:
        return
    if event == "open":
        path, mode, _flags = args
        if isinstance(path, (str, bytes, os.PathLike)) and in_cache(path):
            m = mode or "r"
            if any(c in m for c in "wax+"):
                SCHED.gate("OpenTmp", os.fspath(path))
            else:
                SCHED.gate("OpenRead", os.fspath(path))
    elif event == "os.mkdir":
        if in_cache(args[0]):
            SCHED.gate("Mkdir", os.fspath(args[0]))
    elif event == "os.rename":
        if in_cache(args[0]) or in_cache(args[1]):
            SCHED.gate("Rename", os.fspath(args[0]) + "\x00" + os.fspath(args[1]))
    elif event == "os.remove":
        if in_cache(args[0]):
            SCHED.gate("Unlink", os.fspath(args[0]))


def install_wrappers() -> None:
    orig_exists = pathlib.Path.exists

    def exists(self, *a, **kw):
        if SCHED is not None and SCHED.active and in_cache(self):
            SCHED.gate("Exists", str(self))
            res = orig_exists(self, *a, **kw)
            r = SCHED.run_of_thread()
            if r is not None:
                SCHED.hit[r] = bool(res)
            return res
        return orig_exists(self, *a, **kw)

    pathlib.Path.exists = exists  # type: ignore

    orig_load = pickle.load

    def load(fid, *a, **kw):
        if SCHED is not None and SCHED.active and SCHED.run_of_thread() is not None:
            SCHED.gate("Load", getattr(fid, "name", ""))
        return orig_load(fid, *a, **kw)

    pickle.load = load  # type: ignore

    orig_dumps = pickle.dumps

    def dump(obj, fid, *a, **kw):
        if SCHED is not None and SCHED.active and SCHED.run_of_thread() is not None:
            data = orig_dumps(obj, *a, **kw)
            r = SCHED.run_of_thread()
            FULL.setdefault(r, []).append(hashlib.sha256(data).hexdigest())
            n = len(data)
            cut = [0] + [n * k // CHUNKS for k in range(1, CHUNKS)] + [n]
            for k in range(CHUNKS):
                SCHED.gate("WriteChunk", getattr(fid, "name", ""))
                fid.write(data[cut[k] : cut[k + 1]])
                fid.flush()
            return None
        return fid.write(orig_dumps(obj, *a, **kw))

    pickle.dump = dump  # type: ignore


FULL = {}  # run -> list of sha256 of complete dumps made by that run id


def classify(name: str, sha_to_text, tmp_label):
    """file name in the cache dir -> (cls, key)"""
    if name.startswith("model-") and name.endswith(".pickle"):
        sha = name[len("model-") : -len(".pickle")]
        return "final", sha_to_text.get(sha, "foreign:" + sha[:8])
    if name.startswith("model-") and name.endswith(".tmp"):
        return "tmp", tmp_label.get(name, "unlabelled:" + name[-12:])
    return "other", name


def main() -> None:
    global SCHED
    sched_path, out_path, scratch = sys.argv[1], sys.argv[2], pathlib.Path(sys.argv[3])
    core.assert_repo_bound()
    threading.stack_size(256 * 1024 * 1024)
    sys.setrecursionlimit(20000)
    import aas_core_codegen
    from aas_core_codegen import run, intermediate

    spec = json.load(open(sched_path))
    texts = spec["texts"]  # {"t1": text, "t2": text}
    scratch.mkdir(parents=True, exist_ok=True)
    model_paths = {}
    sha_to_text = {}
    for t, src in texts.items():
        p = scratch / ("model_%s.py" % t)
        p.write_text(src, encoding="utf-8")
        model_paths[t] = p
        sha_to_text[hashlib.sha256(src.encode()).hexdigest()] = t
    cache_dir = pathlib.Path(tempfile.gettempdir()) / ("aas-core-codegen-%s" % aas_core_codegen.__version__)
    # reference (uncached) results, taken before any instrumentation is active
    fresh = {}
    for t, p in model_paths.items():
        res, err = run.load_model(p, cache_model=False)
        if err is not None:
            raise SystemExit("model text %s is rejected by the front end: %s" % (t, err))
        fresh[t] = hashlib.sha256(intermediate.dump(res[0]).encode()).hexdigest()
    shutil.rmtree(cache_dir, ignore_errors=True)  # the pinned tree writes the cache even when told not to

    install_wrappers()
    sys.addaudithook(audit)
    SCHED = Sched(cache_dir)

    traces = []
    for sid, schedule in enumerate(spec["schedules"]):
        shutil.rmtree(cache_dir, ignore_errors=True)
        FULL.clear()
        SCHED.q = queue.Queue()
        SCHED.grant, SCHED.crashed, SCHED.hit = {}, {}, {}
        threads, pending, results, run_text, run_flag = {}, {}, {}, {}, {}
        complete_shas = {}  # text -> set of sha of complete dumps
        tmp_label = {}
        events = []
        nstart = [0]
        sid_of_run = {}

        def fs_view():
            out = []
            if cache_dir.exists():
                for f in sorted(os.listdir(cache_dir)):
                    cls, key = classify(f, sha_to_text, tmp_label)
                    try:
                        data = (cache_dir / f).read_bytes()
                    except OSError:
                        continue
                    sha = hashlib.sha256(data).hexdigest()
                    ok = any(sha in v for v in FULL.values())
                    out.append({"cls": cls, "key": key, "complete": bool(ok)})
            return out

        def body(r, t, f):
            try:
                res, err = run.load_model(model_paths[t], cache_model=f)
                if err is not None:
                    results[r] = "raised"
                else:
                    d = hashlib.sha256(intermediate.dump(res[0]).encode()).hexdigest()
                    results[r] = "ok" if d == fresh[t] else "diff"
            except SimulatedCrash:
                results[r] = "crashed"
            except BaseException as ex:  # the run raised: an observation
                results[r] = "raised"
                EXC.append("%s: %s" % (type(ex).__name__, str(ex)[:200]))
            finally:
                SCHED.q.put(("end", r, "Return", ""))

        EXC = []

        def wait_for(r):
            while True:
                msg = SCHED.q.get(timeout=120)
                if msg[1] == r:
                    pending[r] = msg
                    return
                raise RuntimeError("message from %s while waiting for %s: gating is broken" % (msg[1], r))

        def ev_record(name, r, **kw):
            e = {"ev": name, "run": r, "text": "", "flag": False, "hit": False, "cls": "none", "key": "", "res": "", "stray": 0, "hasfs": True, "fs": fs_view()}
            e.update(kw)
            events.append(e)

        def path_fields(op, path):
            if op == "Rename":
                src, dst = path.split("\x00")
                cls, key = classify(os.path.basename(dst), sha_to_text, tmp_label)
                return {"cls": cls, "key": key}
            if op in ("Exists", "OpenRead", "OpenTmp", "Unlink"):
                cls, key = classify(os.path.basename(path), sha_to_text, tmp_label)
                return {"cls": cls, "key": key}
            return {}

        SCHED.active = True
        try:
            for step in schedule:
                r = step["run"]
                if step["a"] == "start":
                    if r in threads and threads[r].is_alive():
                        ev_record("Noop", r)
                        continue
                    nstart[0] += 1
                    sid_of_run[r] = nstart[0]
                    run_text[r], run_flag[r] = step["text"], bool(step["flag"])
                    SCHED.grant[r] = threading.Semaphore(0)
                    SCHED.crashed[r] = False
                    SCHED.hit[r] = False
                    results.pop(r, None)
                    th = threading.Thread(target=body, args=(r, step["text"], bool(step["flag"])), name=r, daemon=True)
                    threads[r] = th
                    th.start()
                    wait_for(r)
                    ev_record("StartRun", r, text=step["text"], flag=bool(step["flag"]))
                elif step["a"] in ("step", "crash"):
                    if r not in pending or pending[r] is None:
                        ev_record("Noop", r)
                        continue
                    kind, _, op, path = pending[r]
                    if step["a"] == "crash":
                        if kind == "end":
                            # the call is over but its result was not delivered yet: dying now loses only the result
                            threads[r].join(timeout=60)
                            pending[r] = None
                            ev_record("Crash", r)
                            continue
                        SCHED.crashed[r] = True
                        SCHED.grant[r].release()
                        wait_for(r)  # the thread unwinds (refusing every further cache operation) and ends
                        while pending[r][0] != "end":
                            SCHED.grant[r].release()
                            wait_for(r)
                        threads[r].join(timeout=60)
                        pending[r] = None
                        ev_record("Crash", r)
                        continue
                    if kind == "end":
                        threads[r].join(timeout=60)
                        pending[r] = None
                        ev_record("Return", r, res=results.get(r, "raised"))
                        continue
                    # label a tmp name by the start number of the run that first opens it
                    if op == "OpenTmp":
                        nm = os.path.basename(path)
                        if nm.endswith(".tmp") and nm not in tmp_label:
                            tmp_label[nm] = str(sid_of_run[r])
                    fields = path_fields(op, path)
                    SCHED.grant[r].release()
                    wait_for(r)
                    if op == "Exists":
                        fields["hit"] = bool(SCHED.hit.get(r))
                    ev_record(op, r, **fields)
            # drain: whatever is still alive runs to its end (extra steps are recorded)
            for r in list(threads):
                guard = 0
                while pending.get(r) is not None and guard < 50:
                    guard += 1
                    kind, _, op, path = pending[r]
                    if kind == "end":
                        threads[r].join(timeout=60)
                        pending[r] = None
                        ev_record("Return", r, res=results.get(r, "raised"))
                        break
                    if op == "OpenTmp":
                        nm = os.path.basename(path)
                        if nm.endswith(".tmp") and nm not in tmp_label:
                            tmp_label[nm] = str(sid_of_run[r])
                    fields = path_fields(op, path)
                    SCHED.grant[r].release()
                    wait_for(r)
                    if op == "Exists":
                        fields["hit"] = bool(SCHED.hit.get(r))
                    ev_record(op, r, **fields)
        finally:
            SCHED.active = False
        traces.append({"id": sid, "silent": False, "events": events, "exceptions": EXC[:5]})
    shutil.rmtree(cache_dir, ignore_errors=True)
    json.dump(traces, open(out_path, "w"))


if __name__ == "__main__":
    main()
