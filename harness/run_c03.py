"""R phase of C03: the traced runs of the real CLIs (shared runner of the `pipeline` group)."""
from harness.run_pipeline import main

if __name__ == "__main__":
    main()
