"""Scenarios of specs/Constraints.tla -> abstract meta-models (harness.mm), instances, documents.

Shared by the `schema` group (C15, C11, C12) and reusable by the `xsd` group (C13, C14).
The scenario JSON format is documented in notes/C15.md (top) and in specs/Constraints.tla (header).

    scn = {"kind": "str"|"bytes"|"list"|"cprim"|"listcprim"|"enum", "opt": bool, "wmt": bool,
           "porder": [] | permutation of 1..len(prim): order in which P1.. are written in the file,
           "impl": 0 | k: class Ck (a leaf) is @implementation_specific (documents only),
           "shape": "chain" | "dia_ab" | "dia_ba"  (diamond C1<-C2, C1<-C3, C4(C2,C3) / C4(C3,C2); cls has 4 levels),
           "cls":  [[atom, ...] per class C1..Ck (k = depth 1..3)],
           "prim": [[atom, ...] per constrained primitive P1..Pj (j = 0..2)]}
    atom = {"k": "len"|"pat"|"set", "op": "<"|"<="|"=="|">"|">="|"!="|"", "c": int, "side": "L"|"R",
            "g": "none"|"isnone"|"notnot"|"other"|"othernot", "form": "const"|"nonconst"|"conj", "ids": [id, ...]}

Nothing in this module imports aas_core_codegen at module level (the orchestrators import it too).
"""
from __future__ import annotations

import ast
import base64
import json
import re
from typing import Any, Dict, List, Optional, Sequence

# ---------------------------------------------------------------------------------------------
# the libraries the spec refers to by id (Constraints.tla: PatAllowed, SetDef)
# ---------------------------------------------------------------------------------------------

#: id -> "literal": the exact text between the quotes of the Python string literal in the meta-model source;
#:       "ranges": the inclusive code-point ranges the pattern ^[...]*$ allows (Constraints.tla: PatRanges)
PATTERNS: Dict[str, Dict[str, Any]] = {
    "ab": {"literal": "^[ab]*$", "ranges": [[97, 98]]},
    "bc": {"literal": "^[bc]*$", "ranges": [[98, 99]]},
    "b": {"literal": "^b*$", "ranges": [[98, 98]]},
    "bmpx": {"literal": "^[b\\\\xe9]*$", "ranges": [[98, 98], [233, 233]]},  # the *regex* contains the escape \\xe9
    "astral": {"literal": "^[b\\U0001F600]*$", "ranges": [[98, 98], [0x1F600, 0x1F600]]},  # the regex contains U+1F600 itself
    # astral ranges whose UTF-16 form spans 1 / 2 / exactly 3 / 8 high surrogates
    # a multi-statement pattern function: the building block `part` is re-assigned after it was used
    "abc_re": {"literal": "^[abc]*$", "ranges": [[97, 99]],
               "body": ['part = "[abc]"', 'body = f"{part}*"', 'part = "x"', 'pattern = f"^{body}$"', "return match(pattern, text) is not None"]},
    "ar1": {"literal": "^[b\\U00010000-\\U0001000F]*$", "ranges": [[98, 98], [0x10000, 0x1000F]]},
    "ar2": {"literal": "^[b\\U00010005-\\U00010405]*$", "ranges": [[98, 98], [0x10005, 0x10405]]},
    "ar3": {"literal": "^[b\\U00010000-\\U00010BFF]*$", "ranges": [[98, 98], [0x10000, 0x10BFF]]},
    "ar8": {"literal": "^[b\\U000101D0-\\U00011FFF]*$", "ranges": [[98, 98], [0x101D0, 0x11FFF]]},
}
#: character ids of the document cases (ConstraintsDocs.tla: CharCP)
CHAR_CP = {"a": 97, "b": 98, "c": 99, "eacute": 233, "grin": 0x1F600, "u10000": 0x10000, "u1000f": 0x1000F, "u10005": 0x10005,
           "u103ff": 0x103FF, "u10400": 0x10400, "u10405": 0x10405, "u107ff": 0x107FF, "u10800": 0x10800, "u10bff": 0x10BFF,
           "u101d0": 0x101D0, "u10c00": 0x10C00, "u11bff": 0x11BFF, "u11fff": 0x11FFF}
#: the pattern text as the front end sees it (the value of the literal)
PATTERN_TEXT = {k: ast.literal_eval('"' + v["literal"] + '"') for k, v in PATTERNS.items()}

STR_SETS = {"S_ab": ["A", "B"], "S_bc": ["B", "C"], "S_c": ["C"]}
ENUM_SETS = {"E_rg": ["RED", "GREEN"], "E_gb": ["GREEN", "BLUE"], "E_b": ["BLUE"]}
ENUM_LITERALS = [["Red", "RED"], ["Green", "GREEN"], ["Blue", "BLUE"]]
ENUM_NAME_OF_VALUE = {"RED": "Red", "GREEN": "Green", "BLUE": "Blue"}

N_VALUE = 2  # the value given to self.n in instances (form "nonconst")


def selfcheck_library() -> List[str]:
    """S phase: the spec's declarative pattern semantics (all characters allowed) agrees with Python's re
    on all strings of length <= 3 over the union alphabet. Returns a list of disagreements (empty = fine)."""
    import itertools

    bad = []
    alphabet = sorted(set(CHAR_CP.values()))
    for pid, v in PATTERNS.items():
        rx = re.compile(PATTERN_TEXT[pid])
        for n in range(0, 3):
            for tup in itertools.product(alphabet, repeat=n):
                s = "".join(chr(c) for c in tup)
                spec = all(any(lo <= c <= hi for lo, hi in v["ranges"]) for c in tup)
                real = rx.match(s) is not None
                if spec != real:
                    bad.append("%s on %r: spec %s, re %s" % (pid, s, spec, real))
    return bad


# ---------------------------------------------------------------------------------------------
# rendering
# ---------------------------------------------------------------------------------------------


def atom_expr(a: Dict[str, Any], subject: str) -> str:
    """The lambda body of one atom; subject is 'self.x' (class) or 'self' (constrained primitive)."""
    k = a["k"]
    if k == "len":
        bound = "self.n" if a["form"] == "nonconst" else str(a["c"])
        cmp = "len(%s) %s %s" % (subject, a["op"], bound) if a["side"] == "L" else "%s %s len(%s)" % (bound, a["op"], subject)
        if a["form"] == "conj":
            cmp = "%s and %s" % (cmp, cmp)
    elif k == "pat":
        cmp = " and ".join("is_%s(%s)" % (i, subject) for i in a["ids"])
    elif k == "set":
        cmp = " and ".join("%s in %s" % (subject, i) for i in a["ids"])
    else:
        raise ValueError(k)
    g = a["g"]
    if g == "none":
        return cmp
    if g == "isnone":
        return "%s is None or %s" % (subject, cmp)
    if g == "notnot":
        return "not (%s is not None) or %s" % (subject, cmp)
    if g == "isnone3":
        return "%s is None or self.y is None or %s" % (subject, cmp)
    if g == "other":
        return "self.y is None or %s" % cmp
    if g == "othernot":
        return "not (self.y is not None) or %s" % cmp
    raise ValueError(g)


def all_atoms(scn: Dict[str, Any]) -> List[Dict[str, Any]]:
    return [a for lvl in scn["cls"] for a in lvl] + [a for lvl in scn["prim"] for a in lvl]


def needs_y(scn: Dict[str, Any]) -> bool:
    return any(a["g"] in ("other", "othernot", "isnone3") for a in all_atoms(scn))


def needs_n(scn: Dict[str, Any]) -> bool:
    return any(a["form"] == "nonconst" for a in all_atoms(scn))


def x_type(scn: Dict[str, Any]) -> str:
    kind = scn["kind"]
    last = "P%d" % len(scn["prim"])
    t = {"str": "str", "bytes": "bytearray", "list": "List[str]", "cprim": last, "listcprim": "List[%s]" % last, "enum": "Color"}[kind]
    return "Optional[%s]" % t if scn["opt"] else t


def class_bases(scn: Dict[str, Any], k: int) -> List[str]:
    """Direct parents of Ck: a chain C1 <- C2 <- C3, or the diamond C1 <- C2, C1 <- C3, C4(C2, C3) / C4(C3, C2)."""
    shape = scn.get("shape", "chain")
    if shape == "chain":
        return [] if k == 1 else ["C%d" % (k - 1)]
    if shape in ("dia_ab", "dia_ba"):
        if len(scn["cls"]) != 4:
            raise ValueError("a diamond has four classes")
        return {1: [], 2: ["C1"], 3: ["C1"], 4: ["C2", "C3"] if shape == "dia_ab" else ["C3", "C2"]}[k]
    raise ValueError(shape)


def scenario_mm(scn: Dict[str, Any]) -> Dict[str, Any]:
    """The abstract meta-model (harness.mm JSON shape) of a scenario."""
    items: List[Dict[str, Any]] = []
    atoms = all_atoms(scn)
    pat_ids = sorted({i for a in atoms if a["k"] == "pat" for i in a["ids"]})
    set_ids = sorted({i for a in atoms if a["k"] == "set" for i in a["ids"]})
    for pid in pat_ids:
        if "body" in PATTERNS[pid]:
            items.append({"kind": "raw", "text": "@verification\ndef is_%s(text: str) -> bool:\n%s\n" % (pid, "\n".join("    " + l for l in PATTERNS[pid]["body"]))})
        else:
            items.append({"kind": "raw", "text": '@verification\ndef is_%s(text: str) -> bool:\n    return match("%s", text) is not None\n' % (pid, PATTERNS[pid]["literal"])})
    if scn["kind"] == "enum" or any(s in ENUM_SETS for s in set_ids):
        items.append({"kind": "enum", "name": "Color", "literals": ENUM_LITERALS})
    for sid in set_ids:
        if sid in STR_SETS:
            items.append({"kind": "raw", "text": "%s: Set[str] = constant_set(values=[%s])\n" % (sid, ", ".join(json.dumps(v) for v in STR_SETS[sid]))})
        else:
            items.append({"kind": "raw", "text": "%s: Set[Color] = constant_set(values=[%s])\n" % (sid, ", ".join("Color.%s" % ENUM_NAME_OF_VALUE[v] for v in ENUM_SETS[sid]))})
    pbase = scn.get("pbase", "str")
    prim_items = []
    for j, lvl in enumerate(scn["prim"], start=1):
        prim_items.append({"kind": "cprim", "name": "P%d" % j, "base": pbase if j == 1 else "P%d" % (j - 1), "invs": [{"expr": atom_expr(a, "self"), "desc": "P%d inv %d" % (j, n)} for n, a in enumerate(lvl)]})
    # the constrained primitives in their order of declaration in the file (a child may stand above its parent)
    porder = scn.get("porder") or list(range(1, len(prim_items) + 1))
    items.extend(prim_items[j - 1] for j in porder)
    depth = len(scn["cls"])
    props = [{"name": "x", "type": x_type(scn)}]
    if scn.get("twin"):
        # another property of the same (constrained-primitive) type, declared before x
        props.insert(0, {"name": "z", "type": x_type(scn).replace("Optional[", "").rstrip("]") if scn["opt"] else x_type(scn)})
    if needs_n(scn):
        props.append({"name": "n", "type": "int"})
    if needs_y(scn):
        props.append({"name": "y", "type": "Optional[str]"})
    for k, lvl in enumerate(scn["cls"], start=1):
        it: Dict[str, Any] = {
            "kind": "class",
            "name": "C%d" % k,
            "bases": class_bases(scn, k),
            "props": props if k == 1 else [],
            "invs": [{"expr": atom_expr(a, "self.x"), "desc": "C%d inv %d" % (k, n)} for n, a in enumerate(lvl)],
            "wmt": True if (k == 1 and (depth > 1 or scn.get("wmt"))) else None,
            "impl": bool(scn.get("impl")) and scn.get("impl") == k,
        }
        items.append(it)
    items.append({"kind": "class", "name": "Something", "props": [{"name": "inner", "type": "C1"}], "invs": []})
    return {"items": items}


def render(scn: Dict[str, Any]) -> str:
    from harness import mm

    return mm.render(scenario_mm(scn))


# ---------------------------------------------------------------------------------------------
# projection of infer_for_schema results (C15)
# ---------------------------------------------------------------------------------------------

EMPTY_SLOT = {"has": False, "lenhas": False, "hasmin": False, "min": 0, "hasmax": False, "max": 0, "haspats": False, "pats": [], "haslits": False, "lits": []}

_TEXT_TO_PAT = {v: k for k, v in PATTERN_TEXT.items()}


def project_constraints(c: Any) -> Dict[str, Any]:
    """infer_for_schema.Constraints (or None) -> the spec's vocabulary."""
    if c is None:
        return dict(EMPTY_SLOT)
    out = dict(EMPTY_SLOT)
    out["has"] = True
    lc = c.len_constraint
    if lc is not None:
        out["lenhas"] = True
        if lc.min_value is not None:
            out["hasmin"], out["min"] = True, int(lc.min_value)
        if lc.max_value is not None:
            out["hasmax"], out["max"] = True, int(lc.max_value)
    if c.patterns is not None:
        out["haspats"] = True
        out["pats"] = [_TEXT_TO_PAT.get(p.pattern, "?" + p.pattern) for p in c.patterns]
    if c.set_of_primitives is not None:
        out["haslits"] = True
        out["lits"] = [str(l.value) for l in c.set_of_primitives.literals]
    if c.set_of_enumeration_literals is not None:
        out["haslits"] = True
        out["lits"] = out["lits"] + [str(l.value) for l in c.set_of_enumeration_literals.literals]
    return out


def observe_inference(scn: Dict[str, Any], scratch: Any) -> Dict[str, Any]:
    """R of C15 for one scenario: render, load_model, infer_constraints_by_class, project."""
    from harness import mm
    from aas_core_codegen import infer_for_schema, intermediate

    obs: Dict[str, Any] = {"outcome": "", "levels": [], "nerr": 0, "msg": "", "exc": "", "frame": ""}
    text = render(scn)
    lm = mm.load_model(text, scratch)
    if lm["outcome"] != "accepted":
        obs["outcome"] = "frontend_" + lm["outcome"]
        obs["msg"] = (lm["error"] or "")[:400] if lm["outcome"] == "rejected" else json.dumps(lm["exc"])[:400]
        return obs
    st = lm["st"]
    try:
        cbc, errs = infer_for_schema.infer_constraints_by_class(st)
    except Exception as ex:  # an observation
        e = mm.exc_obs(ex)
        obs.update({"outcome": "exception", "exc": e["type"], "frame": e["frame"], "msg": e["msg"][:300]})
        return obs
    if errs is not None:
        obs.update({"outcome": "error", "nerr": len(errs), "msg": "; ".join(str(getattr(e, "message", e)) for e in errs)[:400]})
        return obs
    by_name = {c.name: c for c in cbc}
    levels = []
    for k in range(1, len(scn["cls"]) + 1):
        cls = by_name["C%d" % k]
        cbv = cbc[cls]
        prop = cls.properties_by_name["x"]
        ta = intermediate.beneath_optional(prop.type_annotation)
        v = project_constraints(cbv.get(ta))
        if isinstance(ta, intermediate.ListTypeAnnotation):
            i = project_constraints(cbv.get(ta.items))
        else:
            i = dict(EMPTY_SLOT)
        levels.append({"v": v, "i": i})
    obs["outcome"] = "ok"
    obs["levels"] = levels
    return obs


# ---------------------------------------------------------------------------------------------
# instances and documents (C11 - C14)
# ---------------------------------------------------------------------------------------------


def value_of_length(kind: str, n: int, ch: str = "b") -> Any:
    """A Python value for x with 'length' n (for list kinds: n items, each item_len long — see make_x)."""
    if kind == "bytes":
        return bytearray(b"\x00" * n)
    return ch * n


def make_x(scn: Dict[str, Any], n: int, item_len: int = 1, text: Optional[str] = None, lit: Optional[str] = None, types: Any = None) -> Any:
    """The value of x: length n (slot v); for list kinds the items have length item_len (slot i)."""
    kind = scn["kind"]
    if kind == "enum":
        return getattr(types.Color, lit or "RED")
    if kind in ("str", "cprim"):
        return text if text is not None else "b" * n
    if kind == "bytes":
        return bytearray(b"\x00" * n)
    if kind in ("list", "listcprim"):
        return [(text if text is not None else "b" * item_len) for _ in range(n)]
    raise ValueError(kind)


def twin_value(scn: Dict[str, Any]) -> Any:
    """A filler for z (same constrained-primitive type as x): 'b' * n with the smallest n all primitive length atoms admit."""
    import operator

    ops = {"<": operator.lt, "<=": operator.le, "==": operator.eq, ">": operator.gt, ">=": operator.ge, "!=": operator.ne}
    atoms = [a for lvl in scn["prim"] for a in lvl if a["k"] == "len" and a["form"] == "const"]
    for n in range(0, 9):
        if all(ops[a["op"]](n, a["c"]) if a["side"] == "L" else ops[a["op"]](a["c"], n) for a in atoms):
            return ["b" * n] if scn["kind"] == "listcprim" else "b" * n
    raise ValueError("no filler value for z")


def make_instance(scn: Dict[str, Any], types: Any, k: int, x: Any, y_none: bool = True) -> Any:
    """Something(inner=Ck(x=..., [n=N_VALUE], [y=...]))."""
    kwargs: Dict[str, Any] = {"x": x}
    if scn.get("twin"):
        kwargs["z"] = twin_value(scn)
    if needs_n(scn):
        kwargs["n"] = N_VALUE
    if needs_y(scn):
        kwargs["y"] = None if y_none else "y"
    inner = getattr(types, "C%d" % k)(**kwargs)
    return types.Something(inner=inner)


def b64(n: int) -> str:
    return base64.b64encode(b"\x00" * n).decode("ascii")
