"""Orchestrator-side helpers of the regex group (C16, C17, C18): run the V specs on chunks of observations in
parallel TLC processes, and read violations (invariant, last state's variables) from TLC's output.

The V specs of this group have the variables (blk, i, culprit, failing): one initial state per block of observations
and one successor per observation, so that TLC's workers share the evaluation; the violating state therefore is the
*last* state of a two-state trace, which core.TlcResult does not extract."""
from __future__ import annotations

import concurrent.futures
import json
import os
import pathlib
import re
from typing import Any, Dict, List, Optional, Sequence, Tuple

from harness import core


def parse_violations(stdout: str) -> List[Dict[str, Any]]:
    out: List[Dict[str, Any]] = []
    blocks = re.split(r"(?=Error: Invariant \w+ is violated)", stdout)
    for b in blocks[1:]:
        m = re.match(r"Error: Invariant (\w+) is violated", b)
        assert m is not None
        states = re.findall(r"State \d+:[^\n]*\n(.*?)(?=\n\n|\Z)", b, re.S)
        if states:
            st = states[-1]
        else:  # violated by an initial state: the state follows directly
            st = b.split("\n", 1)[1] if "\n" in b else ""
        vars_: Dict[str, str] = {}
        for vm in re.finditer(r"(?:^|\n)(?:/\\ )?(\w+) = (.*?)(?=\n(?:/\\ )?\w+ = |\n\n|\Z)", st, re.S):
            vars_[vm.group(1)] = vm.group(2).strip()
        out.append({"invariant": m.group(1), "vars": vars_})
    return out


def culprit_of(vars_: Dict[str, str], invariant: str) -> str:
    """The per-clause structural fingerprint printed in the state variable `culprit` (a record of tuples)."""
    text = vars_.get("culprit", "")
    m = re.search(r"%s \|-> <<(.*?)>>" % re.escape(invariant), text, re.S)
    if not m:
        return "none"
    return "@".join(x.strip().strip('"') for x in m.group(1).split(","))


def validate(
    ck: core.Check,
    module: str,
    cfg: Optional[str],
    obs: Sequence[Any],
    what: str,
    chunk: Optional[int] = None,
    parallel: int = 4,
    workers: int = 4,
    timeout: int = 1500,
    env: Optional[Dict[str, str]] = None,
) -> Tuple[List[Dict[str, Any]], List[List[int]]]:
    """Run the V spec over all observations.  Returns (violations with global 0-based index `n`, counters: one
    list of ints per chunk taken from the '@@PRINT@@ counts' line)."""
    parallel = int(os.environ.get("VERIF_TLC_PARALLEL", parallel))  # to be gentle on a shared machine
    workers = int(os.environ.get("VERIF_TLC_WORKERS", workers))
    if chunk is None:
        # as many chunks as parallel TLC processes, but neither tiny (JVM start) nor huge (JSON loading) ones
        chunk = min(4100, max(150, -(-len(obs) // parallel)))
    parts = [list(obs[a : a + chunk]) for a in range(0, len(obs), chunk)]

    def one(k: int) -> core.TlcResult:
        wd = ck.work / ("v-%s-%d" % (module, k))
        wd.mkdir(parents=True, exist_ok=True)
        p = wd / "obs.json"
        core.write_json(p, parts[k])
        e = {"VERIF_OBS": str(p)}
        e.update(env or {})
        return core.run_tlc(module, cfg, workdir=wd, env=e, workers=workers, cont=True, timeout=timeout)

    with concurrent.futures.ThreadPoolExecutor(max_workers=parallel) as ex:
        results = list(ex.map(one, range(len(parts))))
    violations: List[Dict[str, Any]] = []
    counters: List[List[int]] = []
    for k, res in enumerate(results):
        ck.cov["states"] += res.distinct
        ck.cov["transitions"] += res.generated
        pv = parse_violations(res.stdout)
        ck.cov["tlc_runs"].append({"what": "%s [chunk %d/%d, %d records]" % (what, k + 1, len(parts), len(parts[k])), "cmd": res.cmd.replace(str(core.VERIF) + "/", ""), "generated": res.generated, "distinct": res.distinct, "wall_s": round(res.wall, 2), "violations": len(pv)})
        core.tlc_must_pass(res, what)
        if res.distinct < len(parts[k]):
            raise core.MachineryFailure("%s: TLC judged %d states for %d observations" % (what, res.distinct, len(parts[k])))
        for line in res.printed:
            m = re.search(r'counts",\s*(.*?)>>', line)
            if m:
                counters.append([int(x) for x in re.findall(r"-?\d+", m.group(1))])
        judged = set()
        for v in pv:
            i = int(v["vars"].get("i", "0"))
            if i <= 0:
                raise core.MachineryFailure("%s: violation without an observation index: %s" % (what, v))
            if i in judged:
                continue
            judged.add(i)
            # TLC reports the first violated invariant of a state only; the state variable `failing` (computed by the
            # spec when it takes the observation up) names every clause the observation violates
            names = re.findall(r'"(\w+)"', v["vars"].get("failing", "")) or [v["invariant"]]
            if v["invariant"] not in names:
                raise core.MachineryFailure("%s: reported invariant %s is not in failing = %s" % (what, v["invariant"], names))
            for name in sorted(names):
                violations.append({"invariant": name, "n": k * chunk + i - 1, "culprit": culprit_of(v["vars"], name)})
    return violations, counters


def generate(ck: core.Check, module: str, cfg: str, what: str, name: str, timeout: int = 900) -> List[Any]:
    p = ck.work / (name + ".json")
    res = ck.tlc(module, cfg, what=what, env={"VERIF_OUT": str(p)}, count=False, timeout=timeout)
    if not p.exists():
        raise core.MachineryFailure("%s wrote no cases\n%s" % (what, res.stdout[-2000:]))
    return core.read_json(p)
