"""R phase of C22: replay the plan of Determinism.tla (a sequence of run configurations) against the real command
line for every (meta-model, target) history and record a digest per run.

usage: python -m harness.run_c22 <plan.json> <obs.json> <scratch dir> <nproc> <quick|thorough>
"""
import hashlib
import json
import multiprocessing
import os
import pathlib
import shutil
import subprocess
import sys
import traceback

from harness import c22_models, core, genlib, mm

PY = "/venv/bin/python"
SHIM = str(pathlib.Path(__file__).resolve().parent / "c22_shim")
REPO = os.environ.get("VERIF_REPO", "/repo")
CONSOLE_SCRIPT = "/venv/bin/aas-core-codegen"

WARM_MODEL = {
    "doc": "",
    "enums": [{"name": "Flavour", "doc": "", "lits": [{"name": "Sweet", "value": "sweet", "doc": ""}, {"name": "Sour", "value": "sour", "doc": ""}]}],
    "consts": [],
    "fns": [],
    "cprims": [],
    "classes": [
        {"name": "Piece", "bases": [], "abstract": False, "impl": False, "wmt": "none", "props": [{"name": "flavour", "type": {"k": "ref", "n": "Flavour"}, "doc": ""}], "invs": [], "methods": [], "doc": ""},
        {"name": "Something", "bases": [], "abstract": False, "impl": False, "wmt": "none", "props": [{"name": "pieces", "type": {"k": "list", "of": {"k": "ref", "n": "Piece"}}, "doc": ""}], "invs": [], "methods": [], "doc": ""},
    ],
}


_TAIL = '\n\n__version__ = "V1"\n__xml_namespace__ = "https://dummy.com"\n'
CTOR_MISMATCH = (
    "from icontract import DBC\n\n\nclass Something(DBC):\n    text: str\n    alpha_value: int\n    beta_value: int\n    gamma_value: int\n    delta_value: int\n\n"
    "    def __init__(self, text: str, alpha_value: int, beta_value: int, gamma_value: int, delta_value: int, not_a_property: int) -> None:\n"
    "        self.text = text\n        self.alpha_value = alpha_value\n        self.beta_value = beta_value\n        self.gamma_value = gamma_value\n        self.delta_value = delta_value\n" + _TAIL
)
VALUE_DATA_TYPE_CLASS = (
    "from typing import Optional\n\nfrom icontract import DBC\n\n\nclass Value_data_type(DBC):\n    value: str\n\n    def __init__(self, value: str) -> None:\n        self.value = value\n\n\n"
    "class Something(DBC):\n    data_type: Optional[Value_data_type]\n\n    def __init__(self, data_type: Optional[Value_data_type] = None) -> None:\n        self.data_type = data_type\n" + _TAIL
)
VALUE_DATA_TYPE_ENUM = (
    "from enum import Enum\nfrom typing import Optional\n\nfrom icontract import DBC\n\n\nclass Value_data_type(Enum):\n    First = \"first\"\n    Second = \"second\"\n\n\n"
    "class Something(DBC):\n    data_type: Optional[Value_data_type]\n\n    def __init__(self, data_type: Optional[Value_data_type] = None) -> None:\n        self.data_type = data_type\n" + _TAIL
)


def sha(b: bytes) -> str:
    return hashlib.sha256(b).hexdigest()[:20]


def histories(tier: str):
    """(model name, text, target, snippets) for every history."""
    out = []
    rich_text = genlib.render(c22_models.rich())
    fail_text = genlib.render(c22_models.failing())
    disc = pathlib.Path(os.environ["TMPDIR"]) / "discover"
    disc.mkdir(parents=True, exist_ok=True)
    mp = disc / "meta_model.py"
    mp.write_text(rich_text, encoding="utf-8")
    for t in genlib.TARGETS:
        sn = genlib.discover_snippets(mp, t, mm.default_snippets(t), disc / t)
        out.append(("rich", rich_text, t, sn))
        if tier != "quick" or t in ("csharp", "java", "jsonschema", "typescript"):
            out.append(("failing", fail_text, t, mm.default_snippets(t)))
    # two snippet files whose names are not valid keys: the report lists them -- in which order?
    small = genlib.render(WARM_MODEL)
    for t in (["csharp", "jsonschema"] if tier == "quick" else genlib.TARGETS):
        sn = dict(mm.default_snippets(t))
        sn["bad name one.txt"] = "x"
        sn["another bad-name.txt"] = "y"
        sn["Zzz/yet another.txt"] = "z"
        out.append(("bad_snippet_names", small, t, sn))
    # a model the FRONT END rejects with a message that lists names (constructor arguments that are not properties)
    for t in (["jsonschema", "python"] if tier == "quick" else genlib.TARGETS):
        out.append(("ctor_arg_not_property", CTOR_MISMATCH, t, mm.default_snippets(t)))
    # names that are hard-wired in a generator: the XSD generator treats ``Value_data_type`` specially and reports an
    # error when it is not a constrained primitive of str
    for kind, text in (("class", VALUE_DATA_TYPE_CLASS), ("enum", VALUE_DATA_TYPE_ENUM)):
        for t in (["xsd"] if tier == "quick" else ["xsd", "jsonschema", "python", "java"]):
            out.append(("value_data_type_" + kind, text, t, mm.default_snippets(t)))
    names = ["constrained_primitives"] if tier == "quick" else ["constrained_primitives", "deep_class_hierarchy", "list_of_classes", "list_of_enums"]
    for name, text, snippets in c22_models.repo_models(pathlib.Path(REPO), names):
        for t in genlib.TARGETS:
            if t not in ("jsonschema", "python", "xsd"):
                continue
            if t in snippets:
                out.append((name, text, t, snippets[t]))
    return out


def count_files(d: pathlib.Path) -> int:
    return sum(1 for p in d.rglob("*") if p.is_file()) if d.exists() else 0


def one_history(args):
    idx, (mname, text, target, snippets), plan, scratch = args
    try:
        base = pathlib.Path(scratch) / ("h%03d" % idx)
        if base.exists():
            shutil.rmtree(base)
        base.mkdir(parents=True)
        mp = base / "meta_model.py"
        mp.write_text(text, encoding="utf-8")
        sd = base / "snippets"
        mm.write_snippets(sd, snippets)
        tmp = base / "tmp"
        tmp.mkdir()
        locs = {"A": base / "outA", "B": base / "nested" / "one more level" / "out_B"}
        # the earlier generation of the in-process host
        wdir = base / "warm"
        wdir.mkdir()
        (wdir / "meta_model.py").write_text(genlib.render(WARM_MODEL), encoding="utf-8")
        wt = "python" if target != "python" else "jsonschema"
        mm.write_snippets(wdir / "snippets", mm.default_snippets(wt))
        runs = []
        for step, cfg in enumerate(plan):
            out = locs[cfg["loc"]]
            # -- establish the environment the configuration asks for
            if cfg["pre"] == "none":
                if out.exists():
                    shutil.rmtree(out)
            elif cfg["pre"] == "stale":
                # what an earlier run left behind, aged: contents changed, one file more, one directory more
                for p in sorted(out.rglob("*")):
                    if p.is_file():
                        p.write_bytes(p.read_bytes()[: max(1, p.stat().st_size // 2)] + b"\nSTALE CONTENT\n")
                (out / "STALE_EXTRA.txt").write_text("left over\n")
                (out / "stale_dir").mkdir(exist_ok=True)
                (out / "stale_dir" / "old.py").write_text("x = 1\n")
            elif cfg["pre"] == "crlf":
                # the output of an earlier run of the same generation, equal to it up to the line endings
                # (a CRLF working copy, an editor that normalised the line endings)
                out.mkdir(parents=True, exist_ok=True)
                for p in sorted(out.rglob("*")):
                    if p.is_file():
                        data = p.read_bytes().replace(b"\r\n", b"\n")
                        p.write_bytes(data.replace(b"\n", b"\r\n"))
                (out / "CRLF_NOTE.txt").write_bytes(b"line endings changed\r\n")
            elif cfg["pre"] == "unrelated":
                if out.exists():
                    shutil.rmtree(out)
                (out / "docs").mkdir(parents=True)
                (out / "README.md").write_text("# unrelated\n")
                (out / "docs" / "unrelated.bin").write_bytes(bytes(range(256)))
            pre_count = count_files(out)
            cache_dirs = [d for d in tmp.glob("aas-core-codegen-*") if d.is_dir()]
            if cfg["cache"] == "cold":
                for d in cache_dirs:
                    shutil.rmtree(d)
                cache_dirs = []
            cache_before = sum(1 for d in cache_dirs for p in d.glob("model-*.pickle"))
            audit = base / "audit.log"
            if audit.exists():
                audit.unlink()
            env = dict(os.environ)
            env.update(
                {
                    "PYTHONPATH": "%s:%s:%s" % (SHIM, REPO, str(core.VERIF)),
                    "PYTHONDONTWRITEBYTECODE": "1",
                    "PYTHONHASHSEED": cfg["seed"],
                    "TMPDIR": str(tmp),
                    "VERIF_AUDIT_LOG": str(audit),
                    "VERIF_AUDIT_ROOT": str(out),
                    "VERIF_GLOB_ORDER": cfg["order"] + (":%d" % (step + 3) if cfg["order"] == "shuffled" else ""),
                }
            )
            cli = ["--model_path", str(mp), "--snippets_dir", str(sd), "--output_dir", str(out), "--target", target, "--cache_model"]
            if cfg["proc"] == "sub":
                # the installed console script (entry_point); `python -m aas_core_codegen` drops the exit status
                cmd = [PY, CONSOLE_SCRIPT] + cli
            else:
                cmd = [PY, "-m", "harness.c22_host", str(wdir / "meta_model.py"), str(wdir / "snippets"), str(wdir / "out"), wt, "--"] + cli
            p = subprocess.run(cmd, cwd=str(base), env=env, stdout=subprocess.PIPE, stderr=subprocess.PIPE, timeout=1800)
            written = []
            if audit.exists():
                written = sorted(set(l for l in audit.read_text(encoding="utf-8").split("\n") if l))
            entries = []
            for rel in written:
                f = out / rel
                entries.append((rel, sha(f.read_bytes()) if f.is_file() else "missing"))
            so = p.stdout.decode("utf-8", "replace").replace(str(out), "<OUT>")
            se = p.stderr.decode("utf-8", "replace").replace(str(out), "<OUT>")
            cache_after = sum(1 for d in tmp.glob("aas-core-codegen-*") if d.is_dir() for _ in d.glob("model-*.pickle"))
            runs.append(
                {
                    "cfg": cfg,
                    "cache_after": cache_after,
                    "files": sha(json.dumps(entries).encode("utf-8")),
                    "nfiles": len(entries),
                    "stdout": sha(so.encode("utf-8")),
                    "stderr": sha(se.encode("utf-8")),
                    "rc": p.returncode,
                    "pre_count": pre_count,
                    "cache_before": cache_before,
                    "entries": entries[:400],
                    "stdout_text": so[:400],
                    "stderr_text": se[:1500],
                }
            )
        shutil.rmtree(base, ignore_errors=True)
        return idx, {"model": mname, "target": target, "runs": runs}
    except Exception:
        return idx, {"model": mname, "target": target, "harness_error": traceback.format_exc()[-1500:]}


def main() -> None:
    plan_path, out_path, scratch, nproc, tier = sys.argv[1], sys.argv[2], sys.argv[3], int(sys.argv[4]), sys.argv[5]
    core.assert_repo_bound()
    plan = json.load(open(plan_path))
    pathlib.Path(scratch).mkdir(parents=True, exist_ok=True)
    hs = histories(tier)
    only = os.environ.get("VERIF_C22_ONLY")  # "model:target" for replays
    if only:
        hs = [h for h in hs if "%s:%s" % (h[0], h[2]) == only]
    jobs = [(i, h, plan, scratch) for i, h in enumerate(hs)]
    res = {}
    with multiprocessing.Pool(nproc) as pool:
        for idx, rec in pool.imap_unordered(one_history, jobs, chunksize=1):
            res[idx] = rec
    json.dump([res[i] for i in range(len(hs))], open(out_path, "w"))


if __name__ == "__main__":
    main()
