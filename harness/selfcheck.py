"""Setup-time self check: SANY parses every spec; the harness imports; MANIFEST validates."""
import pathlib
import subprocess
import sys

from harness import core


def main() -> int:
    import json

    bad = 0
    registered = set()
    for f in (core.VERIF / "manifest.d").glob("*.json"):
        registered.update(json.loads(f.read_text()).get("specs", []))
    specs = sorted(core.SPECS.glob("*.tla"))
    for s in specs:
        p = subprocess.run(["java", "-cp", core.JAVA_CP, "tla2sany.SANY", s.name], cwd=str(core.SPECS), stdout=subprocess.PIPE, stderr=subprocess.STDOUT, text=True)
        if p.returncode != 0 or "Semantic errors" in p.stdout or "***Parse Error***" in p.stdout or "Fatal errors" in p.stdout:
            if s.stem in registered:
                print("SANY FAILED: %s\n%s" % (s.name, p.stdout[-1500:]))
                bad += 1
            else:
                print("SANY warning (spec not registered in manifest.d, ignored): %s" % s.name)
    print("selfcheck: %d specs parsed, %d failed" % (len(specs), bad))
    return 1 if bad else 0


if __name__ == "__main__":
    sys.exit(main())
