"""Orchestration shared by C11 and C12 (G: ConstraintsDocGen, R: run_schema_docs, V: ConstraintsDocTrace)."""
import json
import os
import random
import re
from typing import Any, Dict, List

from harness import core, schema_scen
from harness.c15 import check_library

CLAUSES = {
    "Inv_SchemaValid": "the generated schema does not conform to its declared draft, or a $ref does not resolve",
    "Inv_GenerationDoesNotRaise": "the JSON Schema generator raised an exception on an accepted meta-model (no schema at all)",
    "Inv_ValidAdmitted": "a document the SDK produced from an instance satisfying all invariants is rejected by the schema",
    "Inv_OracleAgrees": "spec and generated verification disagree on whether the instance satisfies the invariants",
    "Inv_ViolationRejected": "a document with one broken length / pattern / list-size constraint validates",
    "Inv_ModelTypeEnforced": "a document with a wrong or missing modelType validates",
    "Inv_RequiredEnforced": "a document lacking a required property validates",
    "Inv_TypeEnforced": "a document with a mistyped value validates",
    "Inv_ViolationIsInvalid": "the generated verification accepts an instance that breaks a recognised invariant",
    "Inv_CorpusExpectedAdmitted": "an example document the repository declares valid is rejected by the schema generated from the same meta-model",
    "Inv_CorpusUnexpectedRejected": "an example document the repository declares invalid validates against the schema generated from the same meta-model",
}
ORACLE = {"Inv_OracleAgrees", "Inv_ViolationIsInvalid"}


DUMMY_SCN = {"kind": "str", "opt": False, "wmt": False, "shape": "chain", "cls": [[]], "prim": []}


def corpus_entries() -> List[Dict[str, Any]]:
    """code -> spec inputs: the jsonschema cases of the repository's own test data (meta-model, snippets, example documents)."""
    out = []
    base = core.REPO / "dev" / "test_data" / "main" / "jsonschema" / "expected"
    common = core.REPO / "dev" / "test_data" / "common_meta_models"
    if not base.is_dir():
        return out
    for case_dir in sorted(base.iterdir()):
        mp = case_dir / "meta_model.py"
        if not mp.exists():
            mp = common / (case_dir.name + ".py")
        sn = case_dir / "input" / "snippets"
        if not mp.exists() or not sn.is_dir():
            continue
        out.append({"scn": DUMMY_SCN, "valid": [], "viol": [], "corpus": {
            "name": case_dir.name, "model_path": str(mp), "snippets_dir": str(sn),
            "expected": [str(p) for p in sorted((case_dir / "examples" / "Expected").glob("**/*.json"))],
            "unexpected": [str(p) for p in sorted((case_dir / "examples" / "Unexpected").glob("**/*.json"))]}})
    return out


def run(pid: str) -> int:
    which = "valid" if pid == "C11" else "viol"
    cfg = "ConstraintsDocTrace11.cfg" if pid == "C11" else "ConstraintsDocTrace12.cfg"
    ck = core.Check(pid, "model_checking")
    rnd = random.Random(ck.seed)
    suffix = "" if ck.quick else "_thorough"
    nproc = min(int(os.environ.get("VERIF_NPROC", "12")), os.cpu_count() or 4)

    replay = os.environ.get("VERIF_REPLAY")
    fam = "replay"
    if replay:
        case = json.load(open(replay))["case"]
        origin = case.get("origin", "spec")
        if origin.startswith("corpus:"):
            entries = [e for e in corpus_entries() if e["corpus"]["name"] == origin.split(":", 1)[1]]
        else:
            entries = [{"scn": case["scn"], "valid": [case["case"]] if case.get("case") and which == "valid" else [], "viol": [case["case"]] if case.get("case") and which == "viol" else []}]
    else:
        out_p = ck.work / "docs.json"
        g = ck.tlc("ConstraintsDocGen", "ConstraintsDocGen%s.cfg" % suffix, what="G: scenarios with valid documents and single-constraint violations", env={"VERIF_OUT": str(out_p)}, count=False, timeout=2400)
        entries = core.read_json(out_p)
        fam = g.printed[0] if g.printed else ""
        bad = schema_scen.selfcheck_library()
        if bad:
            raise core.MachineryFailure("spec pattern semantics disagrees with Python re: %s" % bad[:3])
        entries.sort(key=lambda e: json.dumps(e["scn"], sort_keys=True))
        rnd.shuffle(entries)
        entries.extend(corpus_entries())

    in_p, obs_p, keys_p = ck.work / "cases.json", ck.work / "obs.json", ck.work / "keys.json"
    core.write_json(in_p, entries)
    ck.impl("harness.run_schema_docs", [str(in_p), str(obs_p), which, str(nproc)], timeout=2400)
    obs = core.read_json(obs_p)
    herr = [s for s in obs["schemas"] if s["gen"] == "harness_error"]
    if herr:
        raise core.MachineryFailure("harness error in R: %s" % herr[0]["msg"])

    res = ck.tlc("ConstraintsDocTrace", cfg, what="V: schema validity and document verdicts vs the spec", env={"VERIF_OBS": str(obs_p), "VERIF_KEYS": str(keys_p)}, cont=True, workers=1, timeout=2400)
    keys = core.read_json(keys_p)
    if res.distinct != len(obs["schemas"]) + len(obs["cases"]):
        raise core.MachineryFailure("V consumed %d of %d records" % (res.distinct, len(obs["schemas"]) + len(obs["cases"])))
    oracle_doubts: List[str] = []
    for v in res.violations:
        m, w = re.search(r"\bi = (\d+)", v["state"]), re.search(r'what = "(\w+)"', v["state"])
        if not m or not w:
            raise core.MachineryFailure("cannot read a TLC violation: %r" % v["state"][:200])
        idx = int(m.group(1)) - 1
        if w.group(1) == "schema":
            s, k = obs["schemas"][idx], keys["schemas"][idx]
            key = {"clause": v["invariant"], "cause": k["cause"], "kind": k["kind"], "origin": k["origin"], "multi_parent": bool(k["multi_parent"])}
            ck.violation(key, v["invariant"], {"scn": s["scn"], "origin": s["origin"]}, {"gen": s["gen"], "draft_ok": s["draft_ok"], "refs_ok": s["refs_ok"], "msg": s["msg"]}, detail="%s: %s; model:\n%s" % (CLAUSES[v["invariant"]], s["msg"][:200], schema_scen.render(s["scn"])[-700:]))
        else:
            c, k = obs["cases"][idx], keys["cases"][idx]
            if v["invariant"] in ORACLE:
                oracle_doubts.append("%s: %s %s sdk_valid=%s" % (v["invariant"], json.dumps(c["scn"])[:300], c["case"], c["sdk_valid"]))
                continue
            key = {"clause": v["invariant"], "cause": k["cause"], "kind": k["kind"], "mut": k["mut"], "origin": k["origin"]}
            ck.violation(key, v["invariant"], {"scn": c["scn"], "case": c["case"], "origin": c["origin"]}, {"accepted": c["accepted"], "sdk_valid": c["sdk_valid"], "msg": c["msg"], "doc": c.get("doc", "")}, detail="%s: doc %s (%s); sources %s" % (CLAUSES[v["invariant"]], c.get("doc", ""), c["msg"][:120], k.get("sources")))
    if oracle_doubts:
        raise core.MachineryFailure("oracle self-check failed (spec vs generated verification), %d case(s): %s" % (len(oracle_doubts), oracle_doubts[0]))

    gen_ok = [s for s in obs["schemas"] if s["gen"] == "ok"]
    ck.cov["scenarios"] = len(obs["schemas"])
    ck.cov["corpus_models"] = sum(1 for s in obs["schemas"] if s["origin"] != "spec")
    ck.cov["corpus_documents"] = sum(1 for c in obs["cases"] if c["origin"] != "spec")
    ck.cov["schemas_generated"] = len(gen_ok)
    ck.cov["generation_refused_or_raised"] = {x: sum(1 for s in obs["schemas"] if s["gen"] == x) for x in ("failed", "exception")}
    ck.cov["evaluations"] = len(obs["cases"]) + (len(gen_ok) if pid == "C11" else 0)
    ck.cov["traces_validated_against_impl"] = len(obs["schemas"]) + len(obs["cases"])
    if pid == "C11":
        nontriv = {json.dumps([c["scn"], c["case"]], sort_keys=True) for c, k in zip(obs["cases"], keys["cases"]) if k["spec_valid"] and c["sdk_valid"]}
        ck.cov["rule"] = "G: TLC enumerates the document scenario families of ConstraintsDocGen.tla (%s) and, per scenario and class level, one SDK-valid document per admitted boundary length (min, max), per allowed non-ASCII character, with x absent when optional, with y None / present under foreign guards. Non-trivial = distinct (scenario, case) whose instance satisfies all invariants by the spec AND by the generated verification, validated against a generated schema" % (fam,)
    else:
        nontriv = {json.dumps([c["scn"], c["case"]], sort_keys=True) for c, k in zip(obs["cases"], keys["cases"]) if k["must_reject"]}
        ck.cov["rule"] = "G: as C11 (%s); per scenario and class level the spec yields every length next to an admitted one (min-1, max+1) for the value, the list and the items, one string outside each recognised pattern, and five structural mutations (wrong / missing modelType, missing required property at two depths, mistyped value). Non-trivial = distinct (scenario, case) that the property demands to be rejected (violation not excluded, or applicable structural mutation)" % (fam,)
        ck.cov["excluded_bytes_cases"] = sum(1 for k in keys["cases"] if k["excluded"])
        ck.cov["violations_by_mutation"] = {m: sum(1 for k in keys["cases"] if k["mut"] == m and k["must_reject"]) for m in sorted({k["mut"] for k in keys["cases"]})}
        ck.cov["tightening_violations"] = sum(1 for k in keys["cases"] if k["tightening"])
    ck.cov["distinct_nontrivial"] = len(nontriv)
    ck.cov["exhaustive"] = not replay
    ck.cov["samples"] = [{"scenario": c["scn"], "case": c["case"], "doc": c.get("doc"), "accepted": c["accepted"]} for c in obs["cases"][:3]]
    ck.assumptions += [
        "TLC, SANY, CommunityModules Json; jsonschema (Draft 2019-09 meta-schema and validation)",
        "UTF-16 convention: `pattern` is evaluated on UTF-16 code units of pattern and subject; minLength/maxLength count characters (length scenarios use BMP strings only)",
        "documents are produced by the generated Python SDK (jsonization.to_jsonable); an instance is valid when verification.verify yields nothing and the spec agrees (disagreement = exit 2)",
    ]
    if not replay and (len(gen_ok) == 0 or len(nontriv) == 0):
        raise core.MachineryFailure("vacuous run: %d schemas generated, %d non-trivial cases" % (len(gen_ok), len(nontriv)))
    return ck.finish()
