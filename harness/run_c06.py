"""R phase of C06: render each abstract meta-model (or read a real meta-model text), ask the real front end
(run.load_model) for its verdict, and read the text back with the independent reader.

usage: python -m harness.run_c06 <entries.json> <out.json>
entry: {"m": <abstract meta-model>, ...} | {"path": <meta-model file>}
"""
import json
import pathlib
import sys
import tempfile

from harness import core, mm, rulesmm


def main() -> None:
    in_path, out_path = sys.argv[1], sys.argv[2]
    core.assert_repo_bound()
    entries = json.load(open(in_path))
    scratch = pathlib.Path(tempfile.mkdtemp(prefix="c06-"))
    out = []
    for e in entries:
        rec = {"src": e.get("path", ""), "extract_ok": True, "extract_diff": "", "unsure": [], "syntax_ok": True}
        if "m" in e:
            text = rulesmm.render(e["m"])
        else:
            text = pathlib.Path(e["path"]).read_text(encoding="utf-8")
        try:
            m, unsure = rulesmm.extract(text)
        except SyntaxError:
            # not Python at all: nothing to read, nothing claimed
            m, unsure = {"types": [], "consts": [], "funcs": []}, sorted(rulesmm.ALL_RULES)
            rec["syntax_ok"] = False
        if "m" in e and rec["syntax_ok"] and m != e["m"]:
            rec["extract_ok"] = False
            rec["extract_diff"] = "case=%s extracted=%s" % (json.dumps(e["m"]), json.dumps(m))
        rec["m"] = e["m"] if "m" in e else m
        rec["unsure"] = unsure
        res = mm.load_model(text, scratch)
        rec["outcome"] = res["outcome"]
        rec["exc"] = json.dumps(res["exc"]) if res["exc"] else ""
        rec["error"] = str(res["error"]).strip()[-400:] if res["error"] is not None else ""
        out.append(rec)
    json.dump(out, open(out_path, "w"))


if __name__ == "__main__":
    main()
