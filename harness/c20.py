"""C20 — generated sources are syntactically well-formed; payload text cannot end a comment / docstring / literal early.

M: MC_Lexers (lexer machines), MC_XmlLex (XML machine + escaping lemma)
G: LexPayloadGen (payloads = sequences of hostile fragments in three layouts; sampled after a docutils pre-filter)
R: harness.run_c20 (full generation for all eight targets, payload in every description kind, invariant message,
   string constant, pattern; twin = same model with a harmless word)
V: LexFileTrace (TLC streams the twin files through the lexer machines and branches into every hunk where a variant
   differs: equal machine states after both spellings), XmlDocTrace (C# /// blocks are well-formed XML),
   ParseObsTrace (verdicts of the real parsers: CPython ast, json, expat, javac)
"""
from __future__ import annotations

import collections
import io
import json
import os
import pathlib
import random
import re
import subprocess
import xml.etree.ElementTree as ET
from typing import Any, Dict, List, Tuple

from harness import core

JVM = ("-Xmx8g", "-Xss256m")
TARGETS = ["cpp", "csharp", "golang", "java", "python", "typescript", "jsonschema", "xsd"]
K = 240
PLAIN_REGEX = re.compile(r"^[A-Za-z0-9 \"'&<>`!/=-]*$")


def docutils_accepts(text: str) -> bool:
    """The same check as parse/_translate.py does (only used to spend the case budget on accepted texts;
    what is accepted is decided by the real front end in R)."""
    import docutils.core

    w = io.StringIO()
    try:
        docutils.core.publish_doctree(text, settings_overrides={"warning_stream": w})
    except Exception:
        return False
    return not w.getvalue()


FRAGMENT_NAMES = [
    "double quote", "three double quotes", "single quote", "backslash", "block comment end", "block comment start", "line comment start",
    "XML comment start", "XML comment end", "end tag </summary>", "ampersand", "less than", "greater than", "backtick", "template substitution start",
    "paragraph break", "star", "space", "word", "block comment end inside an inline literal", "Java Unicode escape of a line feed",
    "Java Unicode escape of a star, then slash", "line feed inside a paragraph", "LINE SEPARATOR U+2028", "opening brace",
    "CDATA section end", "CDATA section start", "processing instruction start", "entity reference as text", "character reference as text",
    "emphasised word", "slash", "inline literal",
]
PATTERN_NAMES = [
    "double quote", "single quote", "backslash", "block comment end", "block comment start", "line comment start", "XML comment start", "XML comment end",
    "ampersand", "less than", "greater than", "backtick", "template substitution start", "line feed", "CDATA end", "LINE SEPARATOR U+2028", "NUL", "space",
]
HARMLESS = "W zq"


QUOTING = (1, 2, 3, 4)  # double quote, three double quotes, single quote, backslash: what ends / escapes literals


def choose_cases(ck: core.Check, gen: Dict[str, Any], rnd: random.Random, n_quick: int = 5) -> Tuple[List[Dict[str, Any]], int]:
    """Spend the budget. Always: every single fragment at the end of a short text; every pair (thorough: triple) of
    quoting fragments (quotes, backslash) at the end of a short text - escaping decisions depend on what precedes the
    last character; (break fragment, word). Sampled (seeded): the same quoting endings after a long text (targets switch
    to multi-line forms), other layouts, other sequences. Patterns: every single one (quick: a sample)."""
    accepted = 0

    def mk(p: Dict[str, Any]) -> Dict[str, Any]:
        return {"kind": "text", "ids": p["ids"], "layout": p["layout"], "rst": core.from_cps(p["rst"]), "plain": core.from_cps(p["plain"]), "pattern": None, "twin_id": 0}

    def take(pool: List[Dict[str, Any]], n: int) -> List[Dict[str, Any]]:
        # the docutils pre-filter is applied lazily: only to what might be chosen
        nonlocal accepted
        out = []
        for p in pool:
            if len(out) >= n:
                break
            c = mk(p)
            if docutils_accepts(c["rst"]):
                accepted += 1
                out.append(c)
        return out

    pl = sorted(gen["payloads"], key=lambda p: (len(p["ids"]), p["ids"], p["layout"]))
    quoting = lambda p: all(i in QUOTING for i in p["ids"])
    singles_tail = [p for p in pl if len(p["ids"]) == 1 and p["layout"] == "tail"]
    # (break fragment, word): a second paragraph / line; (inline node, slash) and (star, slash): a comment terminator
    # assembled across the boundary of two inline nodes (emphasis renders as *w*)
    breaks = [p for p in pl if p["layout"] in ("tail", "mid") and p["ids"] in ([16, 19], [23, 19], [24, 19], [31, 32], [33, 32], [17, 32], [31, 32, 31])
              and (p["layout"] == "tail" or p["ids"][0] in (31, 33))]
    quoting_tail = [p for p in pl if len(p["ids"]) > 1 and p["layout"] == "tail" and quoting(p)]
    quoting_long = [p for p in pl if p["layout"] == "longtail" and quoting(p)]
    fixed = singles_tail + breaks + quoting_tail
    rest_single = [p for p in pl if len(p["ids"]) == 1 and p["layout"] != "tail" and p not in quoting_long]
    rest_longer = [p for p in pl if len(p["ids"]) > 1 and p not in fixed and p not in quoting_long]
    rnd.shuffle(quoting_long)
    rnd.shuffle(rest_single)
    rnd.shuffle(rest_longer)
    pats = [{"kind": "pattern", "ids": p["ids"], "layout": "pattern", "rst": HARMLESS, "plain": HARMLESS, "pattern": core.from_cps(p["re"]), "twin_id": 1} for p in gen["patterns"]]
    pats.sort(key=lambda c: (len(c["ids"]), c["ids"], c["pattern"]))
    p_single_tail = [c for c in pats if len(c["ids"]) == 1 and c["pattern"].startswith("z")]
    p_rest = [c for c in pats if c not in p_single_tail]
    rnd.shuffle(p_rest)
    if ck.quick:
        rnd.shuffle(p_single_tail)
        chosen = take(fixed, 10**6) + take(quoting_long, 5) + take(rest_single, 3) + take(rest_longer, n_quick) + p_single_tail[:6] + p_rest[:1]
    else:
        chosen = take(fixed, 10**6) + take(quoting_long, 10**6) + take(rest_single, 10**6) + take(rest_longer, 80) + p_single_tail + p_rest[:40]
    for i, c in enumerate(chosen):
        c["id"] = i + 1
    return chosen, accepted


def fragment_names(c: Dict[str, Any]) -> List[str]:
    names = PATTERN_NAMES if c["kind"] == "pattern" else FRAGMENT_NAMES
    return [("pattern: " if c["kind"] == "pattern" else "") + names[i - 1] for i in c["ids"]]


def java_parse(ck: core.Check, dumped: List[Dict[str, Any]]) -> List[Dict[str, Any]]:
    files = [d for d in dumped if d["file"].endswith(".java")]
    if not files:
        return []
    lst = ck.work / "java_files.txt"
    lst.write_text("\n".join(d["file"] for d in files) + "\n", encoding="utf-8")
    p = subprocess.run(["java", str(core.VERIF / "harness" / "shims_lex" / "ParseOnly.java"), str(lst)], stdout=subprocess.PIPE, stderr=subprocess.PIPE, text=True, errors="replace", timeout=1200)
    if p.returncode != 0:
        raise core.MachineryFailure("javac parse driver failed: %s" % p.stderr[-1500:])
    verdict = {}
    for line in p.stdout.splitlines():
        parts = line.split("\t")
        if len(parts) >= 2:
            verdict[parts[1]] = (parts[0] == "OK", parts[2] if len(parts) > 2 else "")
    out = []
    for d in files:
        if d["file"] not in verdict:
            raise core.MachineryFailure("javac parse driver gave no verdict for %s" % d["file"])
        ok, msg = verdict[d["file"]]
        out.append({"case": d["case"], "target": "java", "path": d["path"], "parser": "javac JavacTask.parse", "ok": ok, "msg": msg[:200]})
    return out


def expat_says(units: List[int]) -> str:
    try:
        ET.fromstring(core.from_cps(units).encode("utf-8", "surrogatepass"))
        return "yes"
    except (ET.ParseError, ValueError, UnicodeError):
        return "no"


def rec_field(text: str, name: str) -> str:
    m = re.search(r"\b%s \|-> (\"[^\"]*\"|-?\d+|TRUE|FALSE)" % re.escape(name), text or "")
    return m.group(1).strip('"') if m else ""


def rec_fields(text: str) -> Dict[str, str]:
    return {m.group(1): m.group(2) for m in re.finditer(r"\b(\w+) \|-> (<<.*?>>|\"[^\"]*\"|-?\d+|TRUE|FALSE)", text or "", re.S)}


def main() -> int:
    return run(core.Check("C20", "exploration"))


def run(ck: core.Check, model_check: bool = True, n_quick: int = 5) -> int:
    rnd = random.Random(ck.seed)
    suffix = "" if ck.quick else "_thorough"
    replay = os.environ.get("VERIF_REPLAY")
    # M
    if model_check and not replay:
      ck.model_check("MC_Lexers", "MC_Lexers.cfg", "lexer machines: totality, mode discipline, error absorbing, skeleton lemmas", workers=4, jvm=JVM, timeout=900)
      ck.model_check("MC_XmlLex", "MC_XmlLex%s.cfg" % suffix, "XML machine: total; escaped text is always well-formed, lone markup never", workers=4, jvm=JVM, timeout=900)
    # G
    pay_p = ck.work / "payloads.json"
    ck.tlc("LexPayloadGen", "LexPayloadGen%s.cfg" % suffix, what="G: payloads (fragment sequences x layouts)", env={"VERIF_OUT": str(pay_p)}, count=False, jvm=JVM, timeout=600)
    gen = core.read_json(pay_p)
    payloads = gen["payloads"]
    if replay:
        rc = core.read_json(pathlib.Path(replay))["case"]
        cases, n_accepted = [], 0
        if "payload_rst" in rc:
            is_pat = rc.get("pattern") is not None
            cases = [{"id": 1, "kind": "pattern" if is_pat else "text", "ids": [], "layout": rc.get("layout", ""), "rst": rc["payload_rst"], "plain": rc.get("payload_plain", rc["payload_rst"]), "pattern": rc.get("pattern"), "twin_id": 1 if is_pat else 0}]
    else:
        cases, n_accepted = choose_cases(ck, gen, rnd, n_quick)
    by_id = {c["id"]: c for c in cases}
    # the harmless twins: one per structure of the meta-model (without / with the pattern function)
    twin_list = [{"id": 0, "twin_id": 0, "rst": HARMLESS, "plain": HARMLESS, "pattern": None}, {"id": -1, "twin_id": 1, "rst": HARMLESS, "plain": HARMLESS, "pattern": core.from_cps(gen["twin_pattern"])}]
    twin = twin_list[0]
    # R
    in_p, obs_p = ck.work / "in.json", ck.work / "obs.json"
    core.write_json(in_p, {"cases": cases, "twins": twin_list, "k": K, "targets": TARGETS, "procs": 4, "dump_dir": str(ck.work / "dump")})
    ck.impl("harness.run_c20", [str(in_p), str(obs_p)])
    obs = core.read_json(obs_p)
    gens = obs["gens"]
    n_generated = sum(1 for g in gens if g["outcome"] == "generated" and g["case"] > 0)
    # real parsers outside the runner
    parses = obs["parses"] + java_parse(ck, obs["dumped"])
    # V 1: files through the lexer machines
    twins_all = obs["twins"]
    used = {(h["twin_id"], h["target"], h["twinpath"]) for h in obs["hunks"] if h["twinpath"] is not None}
    if ck.quick:
        twins = [t for t in twins_all if (t["twin_id"], t["target"], t["path"]) in used]
    else:
        # everything the first twin generates (big static C++ files excepted), of the second what the variants touch
        twins = [t for t in twins_all if (t["twin_id"], t["target"], t["path"]) in used or (t["twin_id"] == 0 and not (t["target"] == "cpp" and len(t["text"]) > 60000))]
    index = {(t["twin_id"], t["target"], t["path"]): i + 1 for i, t in enumerate(twins)}
    hunks = []
    whole = []  # files of a variant that have no twin at all: streamed on their own
    for h in obs["hunks"]:
        if h["twinpath"] is None:
            whole.append(h)
        else:
            hunks.append({"twin": index[(h["twin_id"], h["target"], h["twinpath"])], "tb": h["tb"], "te": h["te"], "text": h["text"], "case": h["case"], "target": h["target"], "path": h["path"]})
    for w in whole:
        twins.append({"target": w["target"], "lang": {"csharp": "cs", "golang": "go", "java": "java", "typescript": "ts", "python": "py", "cpp": "cpp"}[w["target"]], "path": "case%d:%s" % (w["case"], w["path"]), "text": w["text"]})
    files_p = ck.work / "files.json"
    core.write_json(files_p, {"k": K, "twins": [{"lang": t["lang"], "text": t["text"]} for t in twins], "hunks": [{"twin": h["twin"], "tb": h["tb"], "te": h["te"], "text": h["text"]} for h in hunks]})
    res = ck.tlc("LexFileTrace", what="V: twin files and variant hunks through the lexer machines", env={"VERIF_FILES": str(files_p)}, cont=True, workers=4, jvm=JVM, timeout=2400, extra=["-difftrace"])
    parse_ok = {(p["case"], p["target"], p["path"]): p["ok"] for p in parses}
    found: List[Dict[str, Any]] = []  # violations before attribution
    hunk_fail: List[Dict[str, Any]] = []
    seen = set()
    for v in res.violations:
        f = int(re.match(r"\s*(\d+)", res.var_of(v, "f") or "0").group(1))
        hk = int(re.match(r"\s*(\d+)", res.var_of(v, "hk") or "0").group(1))
        st, stv = res.var_of(v, "st") or "", res.var_of(v, "stv") or ""
        if v["invariant"] == "Inv_LexicallyComplete":
            t = twins[f - 1]
            if ("twin", f) in seen:
                continue
            seen.add(("twin", f))
            why = rec_field(st, "why") or ("ends in mode " + rec_field(st, "m"))
            if parse_ok.get((-t.get("twin_id", 0), t["target"], t["path"])) is True:
                raise core.MachineryFailure("the lexer machine rejects %s/%s (%s) which the real parser accepts" % (t["target"], t["path"], why))
            key = {"clause": "Inv_LexicallyComplete", "target": t["target"], "trigger": "harmless text", "effect": why}
            ck.violation(key, "Inv_LexicallyComplete", {"target": t["target"], "path": t["path"], "payload": "harmless twin"}, {"lexer": why}, detail="%s/%s: %s" % (t["target"], t["path"], why))
        else:
            if ("hunk", hk) in seen:
                continue
            seen.add(("hunk", hk))
            h = hunks[hk - 1]
            env = (res.var_of(v, "env") or "").strip().strip('"')
            if rec_field(stv, "m") == "err":
                effect = "lexical error: " + rec_field(stv, "why")
            elif rec_field(stv, "m") != rec_field(st, "m"):
                effect = "ends in mode %s instead of %s" % (rec_field(stv, "m"), rec_field(st, "m"))
            elif rec_field(stv, "h1") != rec_field(st, "h1") or rec_field(stv, "h2") != rec_field(st, "h2"):
                effect = "other code units / tokens outside comments and literals"
            else:
                a, b = rec_fields(st), rec_fields(stv)
                effect = "other machine state: " + ",".join(sorted(k for k in a if a.get(k) != b.get(k)))
            hunk_fail.append({"clause": "Inv_SkeletonIndependentOfPayload", "hunk": hk, "twin": h["twin"], "case": h["case"], "target": h["target"], "path": h["path"], "envelope": env, "effect": effect, "text": core_units_to_text(h["text"])[-400:]})
    # A line diff may align repeated identical code lines of twin and variant differently; the pieces then differ although
    # the files as wholes have the same skeleton. Where a file of a case has several hunks and one of them fails, the
    # verdict is taken on ONE hunk spanning them all (second TLC run, only for those files).
    by_file: Dict[Tuple[int, int], List[int]] = collections.defaultdict(list)
    for i, h in enumerate(hunks):
        by_file[(h["twin"], h["case"])].append(i)
    redo = sorted({(x["twin"], x["case"]) for x in hunk_fail if len(by_file[(x["twin"], x["case"])]) > 1})
    final_fail = [x for x in hunk_fail if len(by_file[(x["twin"], x["case"])]) == 1]
    if redo:
        t_index = sorted({tw for tw, _ in redo})
        t_map = {tw: i + 1 for i, tw in enumerate(t_index)}
        merged = []
        for tw, case in redo:
            hs = sorted((hunks[i] for i in by_file[(tw, case)]), key=lambda h: h["tb"])
            ttext = twins[tw - 1]["text"]
            text: List[int] = []
            at = hs[0]["tb"]
            for h in hs:
                text += ttext[at : h["tb"]] + h["text"]
                at = h["te"]
            merged.append({"twin": t_map[tw], "tb": hs[0]["tb"], "te": hs[-1]["te"], "text": text, "case": case, "target": hs[0]["target"], "path": hs[0]["path"], "orig_twin": tw})
        files2_p = ck.work / "files2.json"
        core.write_json(files2_p, {"k": K, "twins": [{"lang": twins[tw - 1]["lang"], "text": twins[tw - 1]["text"]} for tw in t_index], "hunks": [{"twin": m["twin"], "tb": m["tb"], "te": m["te"], "text": m["text"]} for m in merged]})
        res2 = ck.tlc("LexFileTrace", what="V: failing files again with all their hunks as one", env={"VERIF_FILES": str(files2_p)}, cont=True, workers=4, jvm=JVM, timeout=2400, extra=["-difftrace"])
        seen2 = set()
        for v in res2.violations:
            if v["invariant"] != "Inv_SkeletonIndependentOfPayload":
                continue
            hk = int(re.match(r"\s*(\d+)", res2.var_of(v, "hk") or "0").group(1))
            if hk in seen2:
                continue
            seen2.add(hk)
            m = merged[hk - 1]
            firsts = [x for x in hunk_fail if (x["twin"], x["case"]) == (m["orig_twin"], m["case"])]
            final_fail.append(firsts[0])
    found.extend({k: x[k] for k in ("clause", "case", "target", "path", "envelope", "effect", "text")} for x in final_fail)
    # V 2: C# documentation comments are XML
    docs = {}
    for d in obs["csdocs"]:
        docs.setdefault(tuple(d["text"]), d)
    doc_list = [{"text": list(t), "real": expat_says(list(t))} for t in docs]
    doc_meta = list(docs.values())
    if doc_list:
        dp = ck.work / "docs.json"
        core.write_json(dp, doc_list)
        r2 = ck.tlc("XmlDocTrace", what="V: C# documentation comments are well-formed XML", env={"VERIF_DOCS": str(dp)}, cont=True, workers=4, jvm=JVM, timeout=900)
        for v in r2.violations:
            i = int(re.match(r"\s*(\d+)", r2.var_of(v, "i") or "0").group(1))
            d = doc_meta[i - 1]
            text = core.from_cps(doc_list[i - 1]["text"])
            if v["invariant"] == "Inv_SpecAgreesWithExpat":
                raise core.MachineryFailure("XmlLex disagrees with expat (%s) on %r" % (doc_list[i - 1]["real"], text[:300]))
            found.append({"clause": "Inv_DocCommentIsWellFormedXml", "case": d["case"], "target": "csharp", "path": d["path"], "envelope": "xml", "effect": "not well-formed", "text": text[:400]})
    # V 3: verdicts of the real parsers
    if parses:
        pp = ck.work / "parses.json"
        core.write_json(pp, [{"parser": p["parser"], "ok": bool(p["ok"])} for p in parses])
        r3 = ck.tlc("ParseObsTrace", what="V: real parsers accept every generated file", env={"VERIF_PARSES": str(pp)}, cont=True, workers=4, jvm=JVM, timeout=900)
        twin_msgs = {(p["case"], p["target"], p["path"]): re.sub(r"\d+", "N", p["msg"])[:80] for p in parses if p["case"] <= 0 and not p["ok"]}
        for v in r3.violations:
            i = int(re.match(r"\s*(\d+)", r3.var_of(v, "i") or "0").group(1))
            p = parses[i - 1]
            msg = re.sub(r"\d+", "N", p["msg"])[:80]
            if p["case"] <= 0:
                key = {"clause": "Inv_RealParserAccepts", "target": p["target"], "trigger": "harmless text", "effect": "%s: %s" % (p["parser"], msg)}
                ck.violation(key, "Inv_RealParserAccepts", {"target": p["target"], "path": p["path"], "payload": "harmless twin"}, {"parser": p["parser"], "message": p["msg"]}, detail="%s %s (harmless twin): %s says %s" % (p["target"], p["path"], p["parser"], p["msg"][:160]))
                continue
            c = by_id[p["case"]]
            tmsg = twin_msgs.get((-c["twin_id"], p["target"], p["path"]))
            if tmsg is not None and tmsg == msg:
                # the harmless twin of this file fails in the same way: not caused by the payload
                key = {"clause": "Inv_RealParserAccepts", "target": p["target"], "trigger": "harmless text", "effect": "%s: %s" % (p["parser"], msg)}
                ck.violation(key, "Inv_RealParserAccepts", {"target": p["target"], "path": p["path"], "payload_rst": c["rst"]}, {"parser": p["parser"], "message": p["msg"]}, detail="%s %s: %s says %s (as for the harmless twin)" % (p["target"], p["path"], p["parser"], p["msg"][:160]))
                continue
            found.append({"clause": "Inv_RealParserAccepts", "case": p["case"], "target": p["target"], "path": p["path"], "envelope": p["parser"], "effect": p["msg"][:160], "text": ""})
    # attribution: a violating payload is put down to the first fragment (in the order of the fragment table) that violates
    # the same clause for the same target on its own (the single-fragment cases are part of every run) and whose hostile
    # text occurs in the payload; otherwise to the combination of its fragments
    frag_text = {"text": [core.from_cps(f["plain"]) for f in gen["fragments"]], "pattern": [core.from_cps(f["re"]) for f in gen["pattern_fragments"]]}
    single = set()
    for x in found:
        c = by_id[x["case"]]
        if len(c["ids"]) == 1:
            single.add((x["clause"], x["target"], c["kind"], frag_text[c["kind"]][c["ids"][0] - 1]))
    for x in found:
        c = by_id[x["case"]]
        names = fragment_names(c)
        body = c["pattern"] if c["kind"] == "pattern" else c["plain"]
        table = PATTERN_NAMES if c["kind"] == "pattern" else FRAGMENT_NAMES
        hit = [("pattern: " if c["kind"] == "pattern" else "") + table[i] for i, t in enumerate(frag_text[c["kind"]]) if (x["clause"], x["target"], c["kind"], t) in single and t in body]
        if len(c["ids"]) == 1:
            trigger = names[0]  # a single fragment is its own trigger
        else:
            trigger = hit[0] if hit else "combination: " + " + ".join(names)
        key = {"clause": x["clause"], "target": x["target"], "trigger": trigger}
        ck.violation(
            key,
            x["clause"],
            {"target": x["target"], "path": x["path"], "payload_rst": c["rst"], "payload_plain": c["plain"], "pattern": c["pattern"], "fragments": names, "layout": c["layout"]},
            {"envelope": x["envelope"], "effect": x["effect"], "variant_text": x["text"]},
            detail="%s %s payload %s%s: %s [%s]" % (x["target"], x["path"], json.dumps(c["rst"]), (" pattern " + json.dumps(c["pattern"])) if c["pattern"] else "", x["effect"], x["envelope"]),
        )
    # evidence
    hostile_units = sum(len(h["text"]) for h in hunks)
    nontrivial_cases = len({h["case"] for h in hunks})
    ck.cov["evaluations"] = len(hunks) + len(twins) + len(doc_list) + len(parses)
    ck.cov["distinct_nontrivial"] = len({(h["case"], h["target"], h["path"], h["tb"]) for h in hunks})
    ck.cov["traces_validated_against_impl"] = len(twins) + len(hunks)
    ck.cov["rule"] = (
        "G (TLC): %d payloads (sequences of <= %d of 30 hostile fragments x 4 layouts), %d of those examined pass docutils, %d chosen (all single fragments and all quote/backslash sequences at the end of a short text + seeded sample incl. long texts); "
        "R: 8 targets generated per payload with the payload as module/class/property/enumeration/literal/constant/function/argument description, invariant message, constant value, pattern; "
        "evaluations = twin files + hunks streamed by TLC + distinct C# doc comments + real-parser verdicts; non-trivial = distinct hunks (places where a generated file differs from its harmless twin)"
        % (len(payloads), 2 if ck.quick else 3, n_accepted, len(cases))
    )
    ck.cov["payload_cases"] = len(cases)
    ck.cov["generations_with_payload"] = n_generated
    ck.cov["generation_outcomes"] = dict(collections.Counter("%s:%s" % (g["target"], g["outcome"]) for g in gens if g["case"] > 0))
    ck.cov["cases_reaching_generated_files"] = nontrivial_cases
    ck.cov["twin_files_streamed"] = len(twins)
    ck.cov["twin_units_streamed"] = sum(len(t["text"]) for t in twins)
    ck.cov["hunk_units_streamed"] = hostile_units
    ck.cov["cs_doc_comments"] = len(doc_list)
    ck.cov["real_parser_verdicts"] = dict(collections.Counter(p["parser"] for p in parses))
    ck.cov["exhaustive"] = False
    ck.cov["samples"] = [{"payload_rst": c["rst"], "payload_plain": c["plain"], "pattern": c["pattern"], "layout": c["layout"]} for c in ([cases[0], cases[len(cases) // 2], cases[-1]] if cases else [])]
    ck.assumptions += [
        "TLC, SANY, CommunityModules Json",
        "Lexers.tla machines (validated against CPython, g++, javac, node by C19's S phase; C#, Go from the language references only)",
        "no parser exists here for C#, Go, TypeScript and C++ is not compiled: for those only the lexical clauses are decided",
        "a variant file equals its twin outside the hunks (checked by the runner: twin with hunks substituted == variant)",
    ]
    if not replay and (not hunks or nontrivial_cases < 2):
        raise core.MachineryFailure("vacuous run: no payload reached a generated file")
    return ck.finish()


def core_units_to_text(units: List[int]) -> str:
    return "".join(chr(u) if u < 0x110000 else "?" for u in units)
