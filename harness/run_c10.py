"""R phase of C10: drive the generated jsonization / xmlization of every model of the family.

argv: models.json instances.json mutants.json out_rt.json out_mut.json scratch_dir
One observation record per instance (serialize, de-serialize, compare) and one per mutated document.
"""
from __future__ import annotations

import io
import json
import pathlib
import sys
import xml.etree.ElementTree as ET
from typing import Any, Dict, List

from harness import core
from harness import sdk_common as sc


def text_mutants(xml_text: str) -> List[Dict[str, str]]:
    """Text-level malformations of a serialized XML document (well-formedness is opaque to TLC)."""
    n = len(xml_text)
    cands = [
        ("truncated_half", xml_text[: n // 2]),
        ("truncated_last_char", xml_text[:-1]),
        ("empty", ""),
        ("not_xml", "this is not XML"),
        ("unclosed_extra_tag", xml_text + "<"),
        ("double_open", xml_text.replace("<", "<<", 1)),
        ("raw_ampersand", xml_text.replace(">", ">&", 1)),
        ("mismatched_end", xml_text[: xml_text.rfind("</")] + "</wrong>" if "</" in xml_text else xml_text + "</wrong>"),
        ("two_roots", xml_text + xml_text),
        ("control_character", xml_text.replace(">", ">\x01", 1)),
    ]
    out = []
    for name, t in cands:
        try:
            ET.fromstring(t)
        except ET.ParseError:
            # is the damage only *after* the closed root element?  (a streaming reader need not look there)
            depth, closed = 0, False
            try:
                for event, _ in ET.iterparse(io.StringIO(t), events=("start", "end")):
                    depth += 1 if event == "start" else -1
                    if depth == 0:
                        closed = True
                        break
            except ET.ParseError:
                pass
            out.append({"at": name, "text": t, "after_root": closed})
    return out


def main() -> None:
    models_p, inst_p, mut_p, out_rt, out_mut, scratch = sys.argv[1:7]
    core.assert_repo_bound()
    models = json.load(open(models_p))
    instances = json.load(open(inst_p))
    mutants = json.load(open(mut_p))
    by_model_inst: Dict[int, List[Dict[str, Any]]] = {}
    for c in instances:
        by_model_inst.setdefault(c["mi"], []).append(c)
    by_model_mut: Dict[int, List[Dict[str, Any]]] = {}
    for c in mutants:
        by_model_mut.setdefault(c["mi"], []).append(c)

    rt_obs: List[Dict[str, Any]] = []
    mut_obs: List[Dict[str, Any]] = []
    details: Dict[str, str] = {}

    for entry in models:
        mi = entry["mi"]
        model = sc.Model(entry["raw"])
        sdk = sc.Sdk(model, pathlib.Path(scratch) / ("m%d" % mi))
        base_rt = {"mi": mi, "pa": entry["pa"], "pb": entry["pb"], "mid": model.id}
        if not sdk.ok:
            details["sdk:%d" % mi] = sdk.why_not_ok()
        root = model.root
        first_xml = None
        for c in by_model_inst.get(mi, []):
            rec = dict(base_rt)
            rec.update(
                {"x": c["x"], "xmlok": c["xmlok"], "accepted": sdk.accepted, "sdk": sdk.ok, "built": False, "jo": "none", "j": sc.DUMMY_JDOC, "rtj": {"o": "none", "v": sc.VNONE},
                 "rtjt": {"o": "none", "v": sc.VNONE}, "deepj": False, "deepjt": False, "xo": "none", "xparsed": False, "xml": sc.DUMMY_XNODE,
                 "rtx": {"o": "none", "v": sc.VNONE}, "deepx": False, "detail": ""}
            )
            rt_obs.append(rec)
            if not sdk.ok:
                continue
            try:
                inst = sdk.build(c["x"])
                rec["built"] = True
            except Exception as ex:
                rec["detail"] = "build: " + sc.exc_text(ex)
                continue
            notes = []
            # JSON
            try:
                j = sdk.jsonization.to_jsonable(inst)
                rec["jo"] = "ok"
            except Exception as ex:
                rec["jo"] = "exception"
                notes.append("to_jsonable: " + sc.exc_text(ex))
                j = None
            if rec["jo"] == "ok":
                rec["j"] = sc.py_to_jdoc(j)
                fn = sdk.from_jsonable_fn(root)
                rec["rtj"], obj, d = sc.outcome_of(fn, j, sdk, sdk.jsonization.DeserializationException)
                if d:
                    notes.append("from_jsonable: " + d)
                rec["deepj"] = obj is not None and sc.deep_equal(inst, obj)
                try:
                    j2 = json.loads(json.dumps(j))
                except Exception as ex:
                    j2 = None
                    rec["rtjt"] = {"o": "exception", "v": sc.VNONE}
                    notes.append("json text: " + sc.exc_text(ex))
                if j2 is not None:
                    rec["rtjt"], obj2, d = sc.outcome_of(fn, j2, sdk, sdk.jsonization.DeserializationException)
                    if d:
                        notes.append("from_jsonable(text): " + d)
                    rec["deepjt"] = obj2 is not None and sc.deep_equal(inst, obj2)
            # XML (only demanded for XML-representable text; observed anyway when representable)
            if c["xmlok"]:
                try:
                    xml_text = sdk.xmlization.to_str(inst)
                    rec["xo"] = "ok"
                except Exception as ex:
                    rec["xo"] = "exception"
                    notes.append("to_str: " + sc.exc_text(ex))
                    xml_text = None
                if xml_text is not None:
                    if first_xml is None:
                        first_xml = xml_text
                    try:
                        rec["xml"] = sc.etree_to_xnode(ET.fromstring(xml_text), c["xexp"])
                        rec["xparsed"] = True
                    except ET.ParseError as ex:
                        notes.append("to_str output is not well-formed: " + str(ex))
                    rec["rtx"], objx, d = sc.outcome_of(sdk.from_str_fn(root), xml_text, sdk, sdk.xmlization.DeserializationException)
                    if d:
                        notes.append("from_str: " + d)
                    rec["deepx"] = objx is not None and sc.deep_equal(inst, objx)
            rec["detail"] = " ; ".join(notes)[:600]

        # mutated documents
        for c in by_model_mut.get(mi, []):
            rec = {"mi": mi, "pa": entry["pa"], "pb": entry["pb"], "mid": model.id, "fmt": c["fmt"], "kind": c["kind"], "at": c["at"], "doc": c["doc"],
                   "accepted": sdk.accepted, "sdk": sdk.ok, "outcome": {"o": "none", "v": sc.VNONE}, "detail": "", "text": "", "after_root": False}
            mut_obs.append(rec)
            if not sdk.ok:
                continue
            if c["fmt"] == "json":
                rec["outcome"], _, d = sc.outcome_of(sdk.from_jsonable_fn(root), sc.jdoc_to_py(c["doc"]), sdk, sdk.jsonization.DeserializationException)
            else:
                text = sc.xnode_to_text(c["doc"])
                # S: the harness's own XML rendering must denote the mutated tree
                try:
                    back = sc.etree_to_xnode(ET.fromstring(text), c["doc"])
                except ET.ParseError as ex:
                    raise sc.HarnessError("rendered mutant is not well-formed: %r: %s" % (text, ex))
                if back != c["doc"]:
                    raise sc.HarnessError("XML rendering does not round-trip:\n%s\n%s\n%s" % (json.dumps(c["doc"]), text, json.dumps(back)))
                rec["outcome"], _, d = sc.outcome_of(sdk.from_str_fn(root), text, sdk, sdk.xmlization.DeserializationException)
            rec["detail"] = d[:400]
        # text-level malformed XML
        if sdk.ok and first_xml is not None:
            for tm in text_mutants(first_xml):
                rec = {"mi": mi, "pa": entry["pa"], "pb": entry["pb"], "mid": model.id, "fmt": "xmltext", "kind": "Malformed", "at": tm["at"], "doc": sc.DUMMY_JDOC,
                       "accepted": True, "sdk": True, "outcome": {"o": "none", "v": sc.VNONE}, "detail": "", "after_root": tm["after_root"]}
                rec["outcome"], _, d = sc.outcome_of(sdk.from_str_fn(root), tm["text"], sdk, sdk.xmlization.DeserializationException)
                rec["detail"] = d[:400]
                rec["text"] = tm["text"][:300]
                mut_obs.append(rec)
        sdk.drop()

    json.dump(rt_obs, open(out_rt, "w"))
    json.dump(mut_obs, open(out_mut, "w"))
    json.dump(details, open(out_rt + ".details", "w"))


if __name__ == "__main__":
    main()
