"""C06 -- accepted meta-models satisfy the structural rules (one direction: a broken rule => rejected with an error).

M: MC_RulesMut (templates are well-formed; applying Break_<rule> makes <rule> a member of Violated)
G: RulesGen (templates and everything reachable by <= Depth mutation actions)
R: run_c06 (render -> run.load_model verdict; the text is read back by an independent `ast` reader); also every
   meta-model text of dev/test_data (negative fixtures included), read by the same reader (code -> spec)
V: RulesTrace (per rule: Broken(rule) => outcome = rejected; accepted and exception are distinct fingerprints)
"""
import concurrent.futures
import hashlib
import json
import os
import pathlib
import random
import re

from harness import core, rulesmm

PROCS = int(os.environ.get("VERIF_PROCS", "8"))


def real_entries():
    td = core.REPO / "dev" / "test_data"
    out, seen = [], set()
    for p in sorted((td / "common_meta_models").glob("*.py")) + sorted(td.rglob("meta_model.py")):
        try:
            text = p.read_text(encoding="utf-8")
        except Exception:
            continue
        d = hashlib.sha1(text.encode()).hexdigest()
        if d in seen:
            continue
        seen.add(d)
        out.append({"path": str(p)})
    return out


def run_r(ck, entries):
    n = max(1, min(PROCS, (len(entries) + 99) // 100))
    chunks = [entries[i::n] for i in range(n)]
    results = [None] * n

    def one(i):
        wd = ck.work / ("r-%d" % i)
        wd.mkdir(parents=True, exist_ok=True)
        ip, op = wd / "in.json", wd / "out.json"
        core.write_json(ip, chunks[i])
        core.run_impl("harness.run_c06", [str(ip), str(op)], workdir=wd, timeout=3000)
        results[i] = core.read_json(op)

    with concurrent.futures.ThreadPoolExecutor(max_workers=n) as ex:
        for f in [ex.submit(one, i) for i in range(n)]:
            f.result()
    out = [None] * len(entries)
    for i in range(n):
        for j, rec in enumerate(results[i]):
            out[i + j * n] = rec
    return out


def main() -> int:
    ck = core.Check("C06", "model_checking")
    rnd = random.Random(ck.seed)
    replay = os.environ.get("VERIF_REPLAY")
    suffix = "" if ck.quick else "_thorough"
    n_spec = 0
    if replay:
        entries = [json.loads(pathlib.Path(replay).read_text())["case"]["entry"]]
    else:
        ck.model_check("MC_RulesMut", "MC_RulesMut%s.cfg" % suffix, "templates well-formed; Break_<rule> => <rule> in Violated", workers=PROCS, timeout=2400)
        cases_p = ck.work / "cases.json"
        ck.tlc("RulesGen", "RulesGen%s.cfg" % suffix, what="G: templates and their mutants", env={"VERIF_OUT": str(cases_p)}, count=False, timeout=2400, jvm=("-Xss64m", "-Xms1g", "-Xmx8g"))
        cases = core.read_json(cases_p)
        # distinct meta-models only (two orders of the same two mutations give the same text)
        seen, uniq = set(), []
        for c in cases:
            d = hashlib.sha1(json.dumps(c["m"], sort_keys=True).encode()).hexdigest()
            if d not in seen:
                seen.add(d)
                uniq.append(c)
        cases = uniq
        cap = 4000 if ck.quick else 15000
        if len(cases) > cap:
            keep = [c for c in cases if c["depth"] <= 1]
            rest = [c for c in cases if c["depth"] > 1]
            rnd.shuffle(rest)
            cases = keep + rest[: cap - len(keep)]
        n_spec = len(cases)
        entries = [{"m": c["m"], "applied": c["applied"], "depth": c["depth"]} for c in cases] + real_entries()
    # R
    obs = run_r(ck, entries)
    bad = [r for r in obs if not r["extract_ok"]]
    if bad:
        raise core.MachineryFailure("the independent reader disagrees with the rendered case (renderer or reader wrong): %s" % bad[0]["extract_diff"][:800])
    if not replay:
        for e, r in zip(entries, obs):
            if e.get("depth") == 0 and r["outcome"] != "accepted":
                raise core.MachineryFailure("a valid template is not accepted by the front end (its mutants would prove nothing): %s %s %s" % (r["m"]["types"][0]["name"], r["error"][-300:], r["exc"]))
    # V
    pp = ck.work / "obs.json"
    pp.write_text(json.dumps([{"m": r["m"], "outcome": r["outcome"], "unsure": r["unsure"]} for r in obs], separators=(",", ":")))
    res = ck.tlc("RulesTrace", what="V: a broken rule implies a rejection", env={"VERIF_OBS": str(pp)}, cont=True, workers=PROCS, timeout=2400, jvm=("-Xms1g", "-Xmx8g"))
    broken_by = {}   # observation index -> set of broken (judged) rules, as found by TLC
    reports = []
    for v in res.violations:
        i = res.var_of(v, "i")
        name = v["invariant"]
        if i is None or not (name.startswith("Inv_") or name.startswith("Count_")):
            raise core.MachineryFailure("cannot read TLC violation: %r" % v)
        idx = int(i) - 1
        parts = name.split("_", 1)[1].split("__")
        rule, outcome, expl = parts[0], parts[1], (parts[2] if len(parts) > 2 else "")
        broken_by.setdefault(idx, set()).add(rule)
        if name.startswith("Inv_"):
            reports.append((idx, rule, outcome, expl))
    n_obs = len(obs)
    n_breaking = len(broken_by)
    n_breaking_rejected = sum(1 for i in broken_by if obs[i]["outcome"] == "rejected")
    n_wellformed = n_obs - n_breaking
    n_wellformed_accepted = sum(1 for i, r in enumerate(obs) if i not in broken_by and r["outcome"] == "accepted")
    rules_broken = sorted(set().union(*broken_by.values())) if broken_by else []
    if not replay and res.distinct != n_obs * 12:
        raise core.MachineryFailure("RulesTrace explored %d states, expected %d" % (res.distinct, n_obs * 12))
    for idx, rule, outcome, expl in reports:
        r, e = obs[idx], entries[idx]
        key = {"rule": rule, "outcome": outcome, "explained_by": expl}
        where = ""
        if r["outcome"] == "exception":
            exc = json.loads(r["exc"])
            # the raising site, without line numbers (refactor-tolerant): file and function
            frame = re.sub(r":\d+ in ", " in ", exc.get("frame", ""))
            key["where"] = frame
            where = "%s: %s" % (exc.get("type"), exc.get("msg", "")[:160].replace("\n", " "))
        else:
            key["where"] = ""
        case = {"entry": e, "m": r["m"], "text": rulesmm.render(e["m"]) if "m" in e else e.get("path")}
        ck.violation(key, rule, case, {"outcome": r["outcome"], "exc": r["exc"], "error": r["error"]}, detail="%s applied=%s %s" % (r["src"] or "generated", json.dumps(e.get("applied", "")), where))
    ck.cov["evaluations"] = n_obs
    ck.cov["traces_validated_against_impl"] = n_obs
    ck.cov["distinct_nontrivial"] = n_breaking
    ck.cov["rule"] = (
        "G: 3 well-formed templates (rich, chain, diamond) and every meta-model reachable by <= %d mutation actions Break_<rule>(variant, targets) "
        "(%d distinct TLC-generated meta-models), plus %d meta-model texts of dev/test_data read by an independent ast reader; "
        "non-trivial = the abstract meta-model breaks at least one judged rule (Rules!Violated # {})" % (1 if ck.quick else 2, n_spec, len(entries) - n_spec)
    )
    ck.cov["exhaustive"] = n_spec < (4000 if ck.quick else 15000)
    ck.cov["breaking"] = n_breaking
    ck.cov["breaking_and_rejected"] = n_breaking_rejected
    ck.cov["well_formed"] = n_wellformed
    ck.cov["well_formed_and_accepted"] = n_wellformed_accepted
    ck.cov["rules_broken_by_some_case"] = rules_broken
    ck.cov["outcomes"] = {}
    for r in obs:
        ck.cov["outcomes"][r["outcome"]] = ck.cov["outcomes"].get(r["outcome"], 0) + 1
    picks = [k for k in (1, len(obs) // 3, len(obs) // 2) if k < len(obs)]
    ck.cov["samples"] = [{"applied": entries[k].get("applied", entries[k].get("path")), "outcome": obs[k]["outcome"], "error": obs[k]["error"][-200:]} for k in picks]
    ck.assumptions += [
        "TLC, SANY, CommunityModules Json; CPython's ast to read the meta-model text independently of the front end",
        "the documented lists of reserved names are represented by the samples in Rules.tla; order of constructor arguments = the partial order 'ancestor's properties first, own in textual order' within the arguments with / without default",
    ]
    if not replay and set(rules_broken) != set(rulesmm.ALL_RULES):
        raise core.MachineryFailure("vacuous run: no case breaks %s" % sorted(set(rulesmm.ALL_RULES) - set(rules_broken)))
    if not replay and (n_breaking == 0 or n_wellformed_accepted == 0):
        raise core.MachineryFailure("vacuous run: breaking=%d well-formed accepted=%d" % (n_breaking, n_wellformed_accepted))
    return ck.finish()
