"""R phase of C14 (shared with C13): see harness/xsd_runner.py."""
from harness.xsd_runner import main

if __name__ == "__main__":
    main()
