"""R phase of C16: retree.parse / retree.render / retree.parse(render) on every case, plus Python `re` on the
original text and on the rendering over the case's strings.  One uniform observation record per case."""
import sys

from harness import core
from harness import regex_common as rc


def observe(case):
    from aas_core_codegen.parse import retree

    text = rc.from_cps(case["text"])
    strings = rc.strings_up_to(case["alpha"], case["maxlen"])
    smax = case["smax"]
    o = {
        "src": case["src"],
        "text": case["text"],
        "has_tree": case["has_tree"],
        "tree": case["tree"],
        "alpha": case["alpha"],
        "maxlen": case["maxlen"],
        "smax": smax,
        "outcome": "",
        "positioned": False,
        "exc": dict(rc.NO_EXC),
        "parsed": rc.EMPTY_TREE,
        "render": "none",
        "render_exc": dict(rc.NO_EXC),
        "render_text": [],
        "render_compiles": False,
        "re_render_full": [],
        "re_render_search": [],
        "orig_compiles": False,
        "re_orig_full": [],
        "re_orig_search": [],
        "reparse": "none",
        "reparse_exc": dict(rc.NO_EXC),
        "reparsed": rc.EMPTY_TREE,
    }
    orig = rc.re_compile(text)
    if orig is not None:
        o["orig_compiles"] = True
        o["re_orig_full"], o["re_orig_search"] = rc.re_language(orig, strings, smax)
    # -- parse
    try:
        regex, error = retree.parse([text])
    except Exception as ex:  # an observation
        o["outcome"] = "exception"
        o["exc"] = rc.observe_exception(ex)
        return o
    if error is not None:
        o["outcome"] = "error"
        cur = getattr(error, "cursor", None)
        o["positioned"] = bool(isinstance(getattr(error, "message", None), str) and isinstance(cur, retree.Cursor) and 0 <= cur.major_cursor <= len(cur.values))
        if o["positioned"]:
            # the position must be presentable: render_pointer is how every caller turns the cursor into a position
            try:
                regex_line, pointer_line = retree.render_pointer(cur)
                o["positioned"] = isinstance(regex_line, str) and isinstance(pointer_line, str) and pointer_line.endswith("^")
            except Exception as ex:
                o["positioned"] = False
                o["exc"] = rc.observe_exception(ex)
        return o
    o["outcome"] = "parsed"
    o["parsed"] = rc.project(regex)
    # -- render
    try:
        parts = retree.render(regex)
        rendered = "".join(parts)
    except Exception as ex:
        o["render"] = "exception"
        o["render_exc"] = rc.observe_exception(ex)
        return o
    o["render"] = "ok"
    o["render_text"] = rc.cps(rendered)
    comp = rc.re_compile(rendered)
    if comp is not None:
        o["render_compiles"] = True
        o["re_render_full"], o["re_render_search"] = rc.re_language(comp, strings, smax)
    # -- parse(render)
    try:
        regex2, error2 = retree.parse(parts)
    except Exception as ex:
        o["reparse"] = "exception"
        o["reparse_exc"] = rc.observe_exception(ex)
        return o
    if error2 is not None:
        o["reparse"] = "error"
        o["reparse_exc"] = {"type": "Error", "where": "", "msg": str(error2.message)[:160]}
        return o
    o["reparse"] = "parsed"
    o["reparsed"] = rc.project(regex2)
    return o


def main() -> None:
    cases_path, out_path = sys.argv[1], sys.argv[2]
    core.assert_repo_bound()
    cases = rc.load(cases_path)
    obs = rc.pmap(observe, cases)
    rc.dump(out_path, obs)


if __name__ == "__main__":
    main()
