"""C03 — exit status and error-report contract.

M: Pipeline strict + loose, ReportLexer.  G: PipeConfigGen (target x snippet directory x model x argument defect;
same-rule mutation pairs) + PipeSyntaxGen items.  R: traced main.execute.  V: PipelineTrace_C03.cfg:
ExitIffSilent, StdoutTail, ReportShape (+ strict shape where a report was due), FoundSubsetReported, PairBoth,
exit code / silence follow the stages, no output without a model.
"""
import json
import random

from harness import core, pipe_check, pipe_render, pipe_trace


def build_cases(ck: core.Check, rnd: random.Random):
    cfg = pipe_check.gen_configs(ck)
    g = pipe_check.gen_syntax(ck)
    cases = []

    def add(desc, text, **kw):
        c = {"id": len(cases), "t": "main", "text": text, "target": "jsonschema", "desc": desc}
        c.update(kw)
        cases.append(c)

    # configurations (histories of one run, or of two runs into the same output directory: PipeConfig.Histories)
    reruns = {json.dumps(c, sort_keys=True) for c in cfg["reruns"]}
    n_cfg = 0
    for c in sorted(cfg["configs"], key=lambda c: json.dumps(c, sort_keys=True)):
        if ck.quick and c["target"] == "cpp" and not (c["snippets"] == "default" and c["arg"] == "none" and c["model"] in ("valid", "type_error", "impl_class")):
            continue  # the C++ generator needs seconds per run
        sn = pipe_render.config_snippets(c["target"], c["snippets"])
        arg = c["arg"]
        add({"src": "config", "config": c}, pipe_render.render_config_model(c["model"]), target=c["target"], snippets=sn["snippets"], snippets_raw=sn["snippets_raw"], argDefect=("none" if arg == "out_blocked" else arg), outBlock=(arg == "out_blocked"), surrogatepass=True, twice=(json.dumps(c, sort_keys=True) in reruns))
        n_cfg += 1
    # histories with the model cache on: run, damage the cache file, run again
    for h in sorted(cfg["cache_histories"], key=lambda h: json.dumps(h, sort_keys=True)):
        sn = pipe_render.config_snippets(h["target"], "default")
        c = {"target": h["target"], "snippets": "default", "model": "valid", "arg": "none"}
        add({"src": "config", "config": c, "cache": h["between"]}, pipe_render.render_config_model("valid"), target=h["target"], snippets=sn["snippets"], twice=True, cacheFlag=True, betweenRuns=h["between"])
    # the same through ``python -m aas_core_codegen`` (package __main__): process-level exit status
    n_mod = 0
    for model in ("valid", "front_error", "syntax_error", "import_error", "infer_error"):
        for arg in ("none", "model_not_file"):
            sn = pipe_render.config_snippets("jsonschema", "default")
            c = {"target": "jsonschema", "snippets": "default", "model": model, "arg": arg}
            add({"src": "config", "config": c, "via": "module"}, pipe_render.render_config_model(model), target="jsonschema", snippets=sn["snippets"], argDefect=arg, viaModule=True)
            n_mod += 1
    # same-rule pairs
    pair_ids = {}
    for p in sorted(cfg["pairs"], key=lambda p: json.dumps(p, sort_keys=True)):
        add({"src": "pair", "rule": p["rule"], "on": p["on"]}, pipe_render.render_pair_model(p["rule"], p["on"]), keep_msgs=True)
        pair_ids[(p["rule"], tuple(p["on"]))] = cases[-1]["id"]
    # syntax items (the traces of C01): every one-slot deviation; thorough: + a sample of two-slot deviations
    items1_keys = {pipe_check.item_key(i) for i in g["items1"]}
    for it in g["items1"]:
        add({"src": "items", "items": [it]}, pipe_render.render_module({"items": [it]}))
    n2 = 0
    if not ck.quick:
        items2 = [i for i in g["items"] if pipe_check.item_key(i) not in items1_keys]
        rnd.shuffle(items2)
        for it in items2[:4000]:
            add({"src": "items", "items": [it]}, pipe_render.render_module({"items": [it]}))
            n2 += 1
    # the repository's negative fixtures and golden models, whole (deep error trees)
    corpus = pipe_check.corpus_texts(rnd, n_lines=0 if ck.quick else 600, n_bytes=0, n_big=0 if ck.quick else 2, whole=True)
    for desc, text in corpus:
        add(desc, text)
    counts = {"configs": n_cfg, "via_module": n_mod, "pair_cases": len(pair_ids), "items_dev1": len(g["items1"]), "items_dev2": n2, "corpus": len(corpus)}
    return cases, counts, pair_ids


def bind_pairs(cases, traces, meta, pair_ids):
    """Projection for Inv_PairBoth: expected = messages reported for the single mutations, found = those present in
    the report of the double mutation."""
    by_case = {}
    for i, me in enumerate(meta):
        by_case.setdefault(me["id"], i)
    rules = sorted({r for (r, on) in pair_ids})
    n = 0
    for r in rules:
        try:
            ia, ib, iab = (by_case[pair_ids[(r, on)]] for on in (("Alpha",), ("Beta",), ("Alpha", "Beta")))
        except KeyError:
            continue
        # multiset: a message reported c times for a single mutation is expected c times more in the double one
        expected = []  # (flattened message, ordinal of this copy among the copies of that message)
        copies = {}
        for i in (ia, ib):
            msgs = meta[i].get("msgs") or {}
            stderr = pipe_trace._flat(meta[i]["stderr"])
            for m in msgs:
                fm = pipe_trace._flat(m).strip()
                if not fm:
                    continue
                for _ in range(stderr.count(fm)):
                    copies[fm] = copies.get(fm, 0) + 1
                    expected.append((fm, copies[fm]))
        both = pipe_trace._flat(meta[iab]["stderr"])
        tr = traces[iab]
        tr["obs"]["hasPair"] = True
        tr["obs"]["pairExpected"] = list(range(1, len(expected) + 1))
        tr["obs"]["pairFound"] = [k + 1 for k, (fm, q) in enumerate(expected) if both.count(fm) >= q]
        expected = ["%s (copy %d)" % e for e in expected]
        meta[iab]["pair_expected"] = expected
        if expected:
            n += 1
    return n


def main() -> int:
    ck = core.Check("C03", "model_checking")
    rnd = random.Random(ck.seed)
    # M (three design-level checks) and G run concurrently: they are independent TLC jobs
    rp = pipe_check.replay_case()
    pair_ids = {}
    built = {}

    def build():
        built["v"] = build_cases(ck, rnd)

    jobs = [
        lambda: ck.model_check("ReportLexer", "MC_ReportLexer.cfg" if ck.quick else "MC_ReportLexer_thorough.cfg", "report lexer: accepts exactly headline + bulleted entries", workers=2, timeout=900),
        lambda: ck.model_check("Pipeline", "MC_Pipeline.cfg", "pipeline design (strict): ExitIffSilent, StdoutTail, ReportShape, FoundSubsetReported, NoOtherTermination", workers=2, timeout=900),
        lambda: ck.model_check("Pipeline", "MC_PipelineLoose_quick.cfg" if ck.quick else "MC_PipelineLoose.cfg", "pipeline contract (any order of passes, skipped stages): same clauses", workers=6, timeout=1500),
    ]
    if rp is None:
        jobs.append(build)
    pipe_check.in_parallel(jobs)
    if rp is not None:
        cases, counts = [dict(rp, desc=rp.get("desc", {"src": "replay"}))], {"replay": 1}
    else:
        cases, counts, pair_ids = built["v"]
    traces, meta, installed = pipe_check.run_cases(ck, cases, "harness.run_c03", "c03")
    n_pairs = bind_pairs(cases, traces, meta, pair_ids)
    viols, counters = pipe_check.validate(ck, traces, "PipelineTrace_C03.cfg", "exit status <=> silence, stdout tail, report shape, found errors reported, pairs")
    by_id = {c["id"]: c for c in cases}
    for v in viols:  # a finer key for the pair clause
        if v["invariant"] == "Inv_PairBoth":
            d = by_id[meta[v["index"]]["id"]]["desc"]
            tr = traces[v["index"]]
            missing = [m for k, m in enumerate(meta[v["index"]].get("pair_expected", [])) if (k + 1) not in tr["obs"]["pairFound"]]
            ck.violation({"clause": "Inv_PairBoth", "rule": d.get("rule")}, "Inv_PairBoth", {"runner_case": by_id[meta[v["index"]]["id"]]}, {"missing": missing, "stderr": meta[v["index"]]["stderr"][:2000]}, detail="rule=%s missing=%r" % (d.get("rule"), missing[:2]))
    pipe_check.record_violations(ck, [v for v in viols if v["invariant"] != "Inv_PairBoth"], traces, meta, by_id, "NoOtherTermination")
    failing = sum(1 for t in traces if t["obs"]["rc"] == 1)
    ok = sum(1 for t in traces if t["obs"]["rc"] == 0)
    distinct_failing = len({(pipe_check.text_digest(by_id[m["id"]].get("text")), by_id[m["id"]].get("target"), json.dumps(by_id[m["id"]].get("snippets"), sort_keys=True), by_id[m["id"]].get("argDefect"), by_id[m["id"]].get("outBlock")) for t, m in zip(traces, meta) if t["obs"]["rc"] == 1})
    ck.cov["evaluations"] = len(traces)
    ck.cov["traces_validated_against_impl"] = len(traces)
    ck.cov["distinct_nontrivial"] = distinct_failing
    ck.cov["rule"] = "one traced run of main.execute per (model text, target, snippet directory, argument defect); non-trivial = distinct failing runs (exit status 1, so that the report clauses have something to say): %d (of %d runs; %d exit 0; %d same-rule pairs with messages to compare). Case mix: %s" % (distinct_failing, len(traces), ok, n_pairs, json.dumps(counts, sort_keys=True))
    ck.cov["exhaustive"] = False
    ck.cov["wrapped_functions"] = len(installed)
    ck.cov["samples"] = [{"case": pipe_check.short_desc(by_id[meta[i]["id"]].get("desc", {})), "rc": traces[i]["obs"]["rc"], "shape": pipe_check.shape_of(traces[i]), "found": sorted({x for e in traces[i]["events"] for x in e["ids"]}), "reported": traces[i]["obs"]["reported"]} for i in (0, len(traces) // 4, len(traces) // 2, len(traces) - 1) if i < len(traces)]
    ck.assumptions += ["TLC, SANY, CommunityModules Json", "existing paths only", "most permissive reading of the report shape: a failing run prints a one-line message or headline + '* ' bullets + indented/blank continuation lines; the strict shape is required where write_error_report was due and the text parses as Python"]
    if rp is None and (failing == 0 or ok == 0 or n_pairs == 0):
        raise core.MachineryFailure("vacuous run: %d failing, %d succeeding runs, %d pairs" % (failing, ok, n_pairs))
    return ck.finish()
