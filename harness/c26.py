"""C26 — yield-flow linearization preserves behaviour.

M: YieldAlgoGen (the transcribed algorithm evaluated by TLC on every small flow, after every pass) + the product
   machine (YieldTrace/YieldMachine) on those cases.
G: YieldGen (all flows up to a size, TLC-enumerated), YieldSim (larger flows, tlc -simulate, thorough tier).
R: harness.run_c26 — the real linearize_to_subroutines on every flow; the flows --target cpp really builds.
V: YieldTrace — TLC runs the product machine (structured small-step semantics || resumable state machine on the
   REAL output) under every condition-outcome sequence; invariants SameEvents, NoSilentCycle, LabelsAreConsecutive,
   AllTargetsExist, Linearized.
"""
import concurrent.futures
import threading
import copy
import hashlib
import json
import os
import pathlib
import random
import re
import shutil
from typing import Any, Dict, List, Optional, Tuple

from harness import core

JVM = ("-Xmx4g", "-XX:ParallelGCThreads=4")
CHUNK = 3000
BOOK = threading.Lock()
INVARIANTS = ["Linearized", "SameEvents", "NoSilentCycle", "LabelsAreConsecutive", "AllTargetsExist"]


# ---------------------------------------------------------------------------------------------
# helpers
# ---------------------------------------------------------------------------------------------


def spec_sha(names: List[str], extra: str = "") -> str:
    h = hashlib.sha1()
    for n in names:
        h.update((core.SPECS / n).read_bytes())
    h.update(extra.encode())
    return h.hexdigest()[:16]


def cached_generation(ck: core.Check, module: str, cfg: str, deps: List[str], what: str, out_name: str, workers: int = 1, timeout: int = 900) -> Tuple[pathlib.Path, bool]:
    """Run a generator spec (its output depends on the spec only) or reuse its cached output (DESIGN §2, G)."""
    sha = spec_sha(deps + [cfg])
    d = core.VERIF / "work" / "gen" / ("C26-" + sha)
    out = d / out_name
    if out.exists() and (d / "ok").exists():
        ck.notes.append("%s: reused cached generation %s" % (what, out.relative_to(core.VERIF)))
        return out, True
    shutil.rmtree(d, ignore_errors=True)
    d.mkdir(parents=True)
    res = ck.tlc(module, cfg, what=what, env={"VERIF_OUT": str(out)}, count=False, workers=workers, jvm=JVM, timeout=timeout)
    if res.violations or not out.exists():
        raise core.MachineryFailure("%s: generation failed\n%s" % (what, res.stdout[-2000:]))
    (d / "ok").write_text("ok")
    return out, False


def shape_sig(nodes: List[Dict[str, Any]]) -> str:
    out = []
    for nd in nodes:
        k = nd["k"]
        if k in ("cmd", "yield"):
            out.append(k)
        elif k in ("ift", "iff"):
            s = "%s(%s)" % (k, shape_sig(nd["body"]))
            if nd["hasElse"]:
                s += "else(%s)" % shape_sig(nd["els"])
            out.append(s)
        elif k == "for":
            out.append("for%s(%s)" % ("i" if nd["init"] else "", shape_sig(nd["body"])))
        else:
            out.append("%s(%s)" % (k, shape_sig(nd["body"])))
    return ";".join(out)


def decode_shape(enc: List[int]) -> List[Dict[str, Any]]:
    """YieldSim.tla's prefix encoding -> numbered abstract flow (pre-order numbering as Yield!Numbered)."""
    pos = [0]
    counter = [0]

    def seq() -> List[Dict[str, Any]]:
        out = []
        while pos[0] < len(enc) and enc[pos[0]] != 0:
            out.append(node())
        return out

    def close() -> None:
        if pos[0] >= len(enc) or enc[pos[0]] != 0:
            raise core.MachineryFailure("bad flow encoding %r" % (enc,))
        pos[0] += 1

    def node() -> Dict[str, Any]:
        t = enc[pos[0]]
        pos[0] += 1
        counter[0] += 1
        j = counter[0]
        nd = {"k": "", "code": 10 * j + 1, "init": 0, "iter": 0, "body": [], "hasElse": False, "els": []}
        if t == 1:
            nd["k"] = "cmd"
        elif t == 2:
            nd["k"] = "yield"
            nd["code"] = 0
        elif t == 3:
            nd["k"] = "while"
            nd["body"] = seq()
            close()
        elif t in (4, 5):
            nd["k"] = "for"
            nd["init"] = 10 * j + 2 if t == 5 else 0
            nd["iter"] = 10 * j + 3
            nd["body"] = seq()
            close()
        elif t in (6, 7, 8, 9):
            nd["k"] = "ift" if t in (6, 7) else "iff"
            nd["body"] = seq()
            close()
            if t in (7, 9):
                nd["hasElse"] = True
                nd["els"] = seq()
                close()
        else:
            raise core.MachineryFailure("bad flow encoding %r" % (enc,))
        return nd

    flow = seq()
    if pos[0] != len(enc):
        raise core.MachineryFailure("bad flow encoding %r" % (enc,))
    return flow


def run_product(ck: core.Check, obs: List[Dict[str, Any]], what: str, tag: str, parallel: int = 2, workers: int = 4) -> Tuple[List[Tuple[int, str, str]], Dict[str, int]]:
    """TLC product machine over the records; returns ([(index in obs, invariant, state text)], counters)."""
    chunks = [(off, obs[off : off + CHUNK]) for off in range(0, len(obs), CHUNK)]
    found: List[Tuple[int, str, str]] = []
    counters = {"records": 0, "cond": 0, "yield": 0, "multi": 0, "nontrivial": 0}

    def one(item: Tuple[int, List[Dict[str, Any]]]) -> Tuple[int, core.TlcResult]:
        off, part = item
        wd = ck.work / ("%s-%d" % (tag, off))
        wd.mkdir(parents=True, exist_ok=True)
        pp = wd / "obs.json"
        core.write_json(pp, part)
        res = core.run_tlc("YieldTrace", "YieldTrace.cfg", workdir=wd, env={"VERIF_OBS": str(pp)}, cont=True, workers=workers, jvm=JVM, timeout=1500)
        pp.unlink()
        return off, res

    with concurrent.futures.ThreadPoolExecutor(max_workers=parallel) as ex:
        results = list(ex.map(one, chunks))
    BOOK.acquire()
    try:
        return _book(ck, results, what, found, counters)
    finally:
        BOOK.release()


def _book(ck: core.Check, results: Any, what: str, found: List[Tuple[int, str, str]], counters: Dict[str, int]) -> Tuple[List[Tuple[int, str, str]], Dict[str, int]]:
    for off, res in results:
        ck.cov["states"] += res.distinct
        ck.cov["transitions"] += res.generated
        ck.cov["tlc_runs"].append({"what": "%s [%d..]" % (what, off), "cmd": res.cmd.replace(str(core.VERIF) + "/", ""), "generated": res.generated, "distinct": res.distinct, "wall_s": round(res.wall, 2), "violations": len(res.violations)})
        core.tlc_must_pass(res, what)
        for line in res.printed:
            m = re.search(r"counters\", (\d+), (\d+), (\d+), (\d+), (\d+)", line)
            if m:
                for k, g in zip(["records", "cond", "yield", "multi", "nontrivial"], m.groups()):
                    counters[k] += int(g)
        seen = set()
        for v in res.violations:
            c = res.var_of(v, "c")
            if c is None:
                raise core.MachineryFailure("cannot read the case index from TLC's counterexample:\n%s" % v["state"][:500])
            idx = off + int(c) - 1
            if (idx, v["invariant"]) in seen:
                continue
            seen.add((idx, v["invariant"]))
            found.append((idx, v["invariant"], v["state"]))
    return found, counters


def negative_control(ck: core.Check, obs: List[Dict[str, Any]]) -> None:
    """The binding must be able to fail: corrupt one target of one real program; TLC has to reject it."""
    for o in obs:
        if o["outcome"] != "ok":
            continue
        for si, sub in enumerate(o["subs"]):
            for pi, st in enumerate(sub):
                if st["k"] == "if" and st["onF"] != core_none() and not (pi == len(sub) - 1 and si + 1 < len(o["subs"]) and o["subs"][si + 1][0]["label"] == st["onF"]):
                    bad = copy.deepcopy(o)
                    bad["subs"][si][pi]["onF"] = core_none()  # falls through instead of jumping
                    found, _ = run_product(ck, [bad], "negative control: one on_false target dropped", "neg", parallel=1, workers=1)
                    if not any(inv in ("SameEvents", "NoSilentCycle") for _, inv, _ in found):
                        raise core.MachineryFailure("negative control not rejected by TLC: %s" % json.dumps(bad)[:600])
                    ck.notes.append("negative control rejected: %s" % sorted({inv for _, inv, _ in found}))
                    return
    raise core.MachineryFailure("no program with a conditional jump available for the negative control")


def core_none() -> int:
    return -1


# ---------------------------------------------------------------------------------------------
# main
# ---------------------------------------------------------------------------------------------


def main() -> int:
    replay = os.environ.get("VERIF_REPLAY")
    # (core.Check wipes replays/<id>: read the replay file first)
    replay_doc = core.read_json(pathlib.Path(replay)) if replay else None
    ck = core.Check("C26", "model_checking")
    rnd = random.Random(ck.seed)
    suffix = "" if ck.quick else "_thorough"

    # ---- M: the algorithm as designed, against the structured semantics ----------------------
    if not replay:
        algo_p, _ = cached_generation(ck, "YieldAlgoGen", "YieldAlgoGen%s.cfg" % suffix, ["Yield.tla", "YieldAlgo.tla", "YieldAlgoGen.tla"], "M: transcribed algorithm evaluated on every small flow, all passes", "algo.json")
        algo = core.read_json(algo_p)
        # the design-level run proceeds in the background while G / R / V go on; it is joined before the verdict
        m_pool = concurrent.futures.ThreadPoolExecutor(max_workers=1)
        m_future = m_pool.submit(run_product, ck, algo, "M: every pass of the transcribed algorithm simulates the structured flow", "m", 2, 4)
        ck.cov["design_cases"] = len(algo)

    # ---- G ------------------------------------------------------------------------------------
    n_enum = n_sampled_out = n_sim = 0
    if replay:
        rp = replay_doc
        flows = [{"flow": rp["case"]["flow"], "size": 0}]
    else:
        flows_p, _ = cached_generation(ck, "YieldGen", "YieldGen.cfg", ["Yield.tla", "YieldGen.tla"], "G: all flows of size <= 4", "flows.json")
        allflows = core.read_json(flows_p)
        n_enum = len(allflows)
        if ck.quick:
            small = [f for f in allflows if f["size"] <= 3]
            big = sorted((f for f in allflows if f["size"] > 3), key=lambda f: json.dumps(f, sort_keys=True))
            rnd.shuffle(big)
            keep = 1000
            n_sampled_out = max(0, len(big) - keep)
            flows = small + big[:keep]
        else:
            flows = allflows
            # larger flows: the growth machine under tlc -simulate
            res = ck.tlc("YieldSim", "YieldSim.cfg", what="G: larger flows by simulation of the growth machine", count=False, simulate="num=150", depth=9, seed=ck.seed + 1, workers=4, jvm=JVM, timeout=900)
            encs = set()
            for m in re.finditer(r'<<"@@FLOW@@",\s*<<([\d,\s]*)>>\s*>>', res.stdout):
                encs.add(tuple(int(x) for x in m.group(1).replace("\n", " ").split(",") if x.strip()))
            sim = [{"flow": decode_shape(list(e)), "size": 0} for e in sorted(encs)]
            rnd.shuffle(sim)
            sim = sim[:4000]
            n_sim = len(sim)
            if n_sim == 0:
                raise core.MachineryFailure("the simulation produced no flows:\n%s" % res.stdout[-1500:])
            flows = flows + sim
    flows_in = ck.work / "flows_in.json"
    core.write_json(flows_in, flows)

    # ---- R ------------------------------------------------------------------------------------
    obs_p = ck.work / "obs.json"
    ck.impl("harness.run_c26", ["gen", str(flows_in), str(obs_p)])
    obs = core.read_json(obs_p)
    n_gen = len(obs)
    n_cap = 0
    cap_runs: List[Dict[str, Any]] = []
    if not replay:
        d = core.REPO / "dev" / "test_data"
        names = ["constrained_primitives", "list_of_classes", "deep_class_hierarchy", "list_of_constrained_primitives", "list_of_primitives", "primitive_types", "enum", "list_of_enums"]
        if not ck.quick:
            names.append("aas_core_meta.v3")
        args = []
        for n in names:
            mp = d / "common_meta_models" / (n + ".py")
            if mp.exists():
                args.append("%s::%s" % (mp, d / "main" / "cpp" / "expected" / n / "input" / "snippets"))
        if args:
            cap_p = ck.work / "cap.json"
            ck.impl("harness.run_c26", ["capture", str(cap_p), str(ck.work / "cap")] + args)
            cap = core.read_json(cap_p)
            cap_runs = cap["runs"]
            obs.extend(cap["obs"])
            n_cap = len(cap["obs"])

    # ---- V ------------------------------------------------------------------------------------
    found, cnt = run_product(ck, obs, "V: product machine on the real linearize_to_subroutines output", "v", parallel=2, workers=4)
    by_case: Dict[int, List[Tuple[str, str]]] = {}
    for idx, inv, state in found:
        by_case.setdefault(idx, []).append((inv, state))
    for idx in sorted(by_case):
        o = obs[idx]
        invs = [i for i, _ in by_case[idx]]
        inv = next((i for i in INVARIANTS if i in invs), invs[0])  # the most basic violated clause
        state = next(s for i, s in by_case[idx] if i == inv)
        key = {"clause": inv, "shape": shape_sig(o["flow"]), "src": o["src"].split(":")[0]}
        ck.violation(key, inv, {"flow": o["flow"]}, {"subs": o["subs"], "outcome": o["outcome"], "exc": o["exc"]}, detail="flow %s (%s): %s; TLC state: %s" % (shape_sig(o["flow"]), o["src"], o["exc"] or "linearized to %d subroutine(s)" % len(o["subs"]), " ".join(state.split())[:400]))

    if not replay:
        negative_control(ck, obs)
        m_found, m_cnt = m_future.result()
        m_pool.shutdown()
        if m_found:
            idx, inv, state = m_found[0]
            raise core.MachineryFailure("design-level model check violated %s on pass %s of flow %s" % (inv, algo[idx]["pass"], shape_sig(algo[idx]["flow"])))

    ck.cov["evaluations"] = len(obs)
    ck.cov["traces_validated_against_impl"] = len(obs)
    ck.cov["distinct_nontrivial"] = min(cnt["nontrivial"], len(obs))
    ck.cov["exhaustive"] = True
    ck.cov["rule"] = (
        "G: TLC enumerates every flow of size <= 4 over Command / Yield / IfTrue / IfFalse (with, without and with an EMPTY else) / For (with, without init) / While "
        "(%d flows; quick keeps all of size <= 3 and a seeded sample of size 4, %d left out)%s; + %d distinct flows captured from --target cpp on the common meta-models. "
        "Every flow is linearized by the real code and TLC explores the product machine under every condition-outcome sequence (unbounded length: the product is finite). "
        "non-trivial = the flow has a condition (if / loop) and its program more than one statement (TLC-counted); with yield: %d, more than one subroutine: %d"
        % (n_enum, n_sampled_out, ("; + %d larger flows (size 5..9) from tlc -simulate of the growth machine" % n_sim) if n_sim else "", n_cap, cnt["yield"], cnt["multi"])
    )
    pick = [obs[i] for i in (min(7, len(obs) - 1), len(obs) // 2, len(obs) - 1)]
    ck.cov["samples"] = [{"flow": shape_sig(o["flow"]), "src": o["src"], "subroutines": [[("%s%s" % (st["k"], "" if st["label"] < 0 else "@%d" % st["label"])) + ("" if st["k"] not in ("if", "jump") else "->%s" % [x for x in (st["onT"], st["onF"], st["target"])]) for st in sub] for sub in o["subs"]]} for o in pick]
    ck.cov["capture_runs"] = cap_runs
    ck.assumptions += [
        "TLC, SANY, CommunityModules Json",
        "resumable state machine = dispatch on the subroutine label, fall-through between subroutines, resume after a yield at the next subroutine (as rendered by cpp/yielding.py)",
        "termination of the run is not an event: what the generated C++ does after the last statement is outside the sentence",
    ]
    if cnt["nontrivial"] == 0 and not replay:
        raise core.MachineryFailure("vacuous run")
    return ck.finish()
