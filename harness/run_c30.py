"""R phase of C30: generated ``constants``, ``types`` (enumerations) and ``stringification``.

argv: prims.json sets.json enums.json out.json scratch_dir
"""
from __future__ import annotations

import enum as pyenum
import json
import pathlib
import sys
from typing import Any, Dict, List, Optional, Tuple

from harness import core, mm
from harness import sdk_common as sc

# (the Python generator of the pinned tree crashes on a meta-model without any class, so every model here has one)
FOOTER = (
    "\n\nclass Something(DBC):\n    some_property: int\n\n    def __init__(self, some_property: int) -> None:\n        self.some_property = some_property\n"
    '\n__version__ = "V1"\n__xml_namespace__ = %s\n' % sc.pystr(sc.NAMESPACE)
)

# literal pools for the constant sets (ids 1..3 of the spec's universe)
POOLS: Dict[str, List[Any]] = {
    # 2: quotes, backslash, non-printable characters above U+00FF and above U+FFFF; 3: CR LF, astral, and U+2028 (a line boundary for str.splitlines)
    "str": ["x", "y'\"\\\u200b\U000e0001", "z\r\n\U0001F600\u2028w"],
    "int": [0, 7, 12345678901234567890],
    "enum": ["Lit_one", "Lit_two", "Lit_URL"],
}
ENUM_VALUES = {"Lit_one": "one", "Lit_two": "t'w\"o", "Lit_URL": "U R\\L"}


def prim_decl(name: str, v: Dict[str, Any]) -> str:
    k = v["k"]
    if k == "bool":
        return "%s: bool = constant_bool(value=%s)\n" % (name, "True" if v["b"] else "False")
    if k == "int":
        return "%s: int = constant_int(value=%s)\n" % (name, v["tok"])
    if k == "float":
        lit = {"inf": "1e999", "-inf": "-1e999"}.get(v["tok"], v["tok"])
        return "%s: float = constant_float(value=%s)\n" % (name, lit)
    if k == "str":
        return "%s: str = constant_str(value=%s)\n" % (name, sc.pystr(sc.s_of(v["cps"])))
    if k == "bytes":
        return "%s: bytearray = constant_bytearray(value=b\"%s\")\n" % (name, "".join("\\x%02x" % b for b in v["bs"]))
    raise sc.HarnessError("bad primitive %r" % v)


def generate(text: str, scratch: pathlib.Path) -> Dict[str, Any]:
    res = mm.generate_python_sdk(text, scratch)
    res["ok"] = res["rc"] == 0 and not res.get("import_errors") and res.get("exc") is None
    return res


def project_plain(o: Any) -> Dict[str, Any]:
    if isinstance(o, bool):
        return {"k": "bool", "b": o}
    if isinstance(o, int):
        return {"k": "int", "tok": str(o)}
    if isinstance(o, float):
        return {"k": "float", "tok": repr(o)}
    if isinstance(o, str):
        return {"k": "str", "cps": sc.cps_of(o)}
    if isinstance(o, (bytes, bytearray)):
        return {"k": "bytes", "bs": list(o)}
    return {"k": "str", "cps": sc.cps_of("<%s>" % type(o).__name__)}


def set_decls(prefix: str, sets: List[Dict[str, Any]], kind: str, reverse: bool) -> str:
    lines = []
    order = list(range(len(sets)))
    if reverse:
        order.reverse()
    for i in order:
        s = sets[i]
        ids = sorted(s["own"])
        if kind == "enum":
            vals = ", ".join("Lit_enum.%s" % POOLS["enum"][j - 1] for j in ids)
            ty = "Lit_enum"
        elif kind == "str":
            vals = ", ".join(sc.pystr(POOLS["str"][j - 1]) for j in ids)
            ty = "str"
        else:
            vals = ", ".join(str(POOLS["int"][j - 1]) for j in ids)
            ty = "int"
        sup = ", superset_of=[%s]" % ", ".join("%sSet_%d" % (prefix, j) for j in sorted(s["supersetOf"])) if s["supersetOf"] else ""
        lines.append("%sSet_%d: Set[%s] = constant_set(values=[%s]%s)\n" % (prefix, i + 1, ty, vals, sup))
    return "\n".join(lines)


ENUM_DECL = "class Lit_enum(Enum):\n" + "".join("    %s = %s\n" % (n, sc.pystr(ENUM_VALUES[n])) for n in POOLS["enum"]) + "\n"


def observe_sets(res: Dict[str, Any], prefix: str, n: int, kind: str) -> List[List[int]]:
    from aas_core_codegen.python import naming as pn
    from aas_core_codegen.common import Identifier

    consts = res["mods"]["constants"]
    out = []
    for i in range(n):
        name = pn.constant_name(Identifier("%sSet_%d" % (prefix, i + 1)))
        got = getattr(consts, name, None)
        if got is None:
            out.append([0])
            continue
        ids = []
        for v in got:
            if kind == "enum":
                key = None
                for j, lit in enumerate(POOLS["enum"]):
                    if isinstance(v, pyenum.Enum) and v.value == ENUM_VALUES[lit] and v.name == pn.enum_literal_name(Identifier(lit)):
                        key = j + 1
                ids.append(key or 0)
            else:
                pool = POOLS[kind]
                ids.append(next((j + 1 for j, p in enumerate(pool) if p == v and type(p) is type(v)), 0))
        out.append(sorted(ids))
    return out


def main() -> None:
    prims_p, sets_p, enums_p, out_p, scratch_s = sys.argv[1:6]
    core.assert_repo_bound()
    from aas_core_codegen.python import naming as pn
    from aas_core_codegen.common import Identifier

    scratch = pathlib.Path(scratch_s)
    out: List[Dict[str, Any]] = []

    # ---- primitive constants -----------------------------------------------------------------------------
    for c in json.load(open(prims_p)):
        text = mm.HEADER + prim_decl("Some_constant_URL", c["declared"]) + FOOTER
        res = generate(text, scratch / "p")
        rec = {"rec": "prim", "id": c["id"], "accepted": res["ok"], "declared": c["declared"], "found": False, "observed": sc.VNONE, "detail": ""}
        if res["rc"] == 0 and not res["ok"]:
            # the front end accepted the meta-model but the generated constants module cannot be imported: the constant is not exposed
            rec["accepted"] = True
            rec["detail"] = json.dumps(res.get("import_errors"))[:300]
        elif not res["ok"]:
            rec["detail"] = (res["stderr"] or json.dumps(res.get("exc")))[:300]
        if res["ok"]:
            name = pn.constant_name(Identifier("Some_constant_URL"))
            consts = res["mods"]["constants"]
            if hasattr(consts, name):
                rec["found"] = True
                got = getattr(consts, name)
                rec["observed"] = project_plain(got)
                # a float constant declared by an integer literal: compare exact values (float -> int is exact)
                if c["declared"]["k"] == "float" and c["declared"]["tok"].lstrip("-").isdigit() and isinstance(got, float) and got.is_integer():
                    rec["observed"] = {"k": "float", "tok": str(int(got))}
        out.append(rec)
        mm.drop_sdk(res)

    # ---- constant sets -----------------------------------------------------------------------------------
    scen = json.load(open(sets_p))
    for kind in ("str", "int", "enum"):
        head = mm.HEADER + (ENUM_DECL if kind == "enum" else "")
        conf = [s for s in scen if s["conforming"]]
        non = [s for s in scen if not s["conforming"]]

        def record(s: Dict[str, Any], res: Dict[str, Any], prefix: str) -> None:
            rec = {"rec": "sets", "id": s["id"], "kind": kind, "accepted": res["ok"], "sets": s["sets"], "conforming": s["conforming"], "observed": [], "detail": ""}
            if res["ok"]:
                rec["observed"] = observe_sets(res, prefix, len(s["sets"]), kind)
            else:
                rec["detail"] = (res["stderr"] or json.dumps(res.get("exc")) or json.dumps(res.get("import_errors")))[:300]
            out.append(rec)

        batch = 40
        for off in range(0, len(conf), batch):
            part = conf[off : off + batch]
            text = head + "\n".join(set_decls("S%d_" % s["id"], s["sets"], kind, s["id"] % 2 == 0) for s in part) + FOOTER
            res = generate(text, scratch / "s")
            if res["ok"]:
                for s in part:
                    record(s, res, "S%d_" % s["id"])
                mm.drop_sdk(res)
            else:
                mm.drop_sdk(res)
                for s in part:
                    r1 = generate(head + set_decls("", s["sets"], kind, s["id"] % 2 == 0) + FOOTER, scratch / "s")
                    record(s, r1, "")
                    mm.drop_sdk(r1)
        for s in non:
            r1 = generate(head + set_decls("", s["sets"], kind, s["id"] % 2 == 0) + FOOTER, scratch / "s")
            record(s, r1, "")
            mm.drop_sdk(r1)

    # ---- enumerations ------------------------------------------------------------------------------------
    for c in json.load(open(enums_p)):
        e = c["enum"]
        sc.check_ident(e["name"])
        text = mm.HEADER + "class %s(Enum):\n" % e["name"]["src"]
        for l in e["lits"]:
            sc.check_ident(l["name"])
            text += "    %s = %s\n" % (l["name"]["src"], sc.pystr(sc.s_of(l["val"])))
        text += FOOTER
        res = generate(text, scratch / "e")
        texts = [list(t) for t in c["texts"]]
        # code -> spec: texts the spec did not think of: names, python names, case variants, stripped / padded values
        extra = set()
        for l in e["lits"]:
            v = sc.s_of(l["val"])
            for t in (l["name"]["src"], pn.enum_literal_name(Identifier(l["name"]["src"])), v.lower(), v.upper(), v.strip(), v + "\n", "\t" + v, v.replace(" ", ""), v):
                extra.add(t)
        for t in sorted(extra):
            if sc.cps_of(t) not in texts:
                texts.append(sc.cps_of(t))
        rec = {"rec": "enum", "id": c["id"], "accepted": res["ok"], "enum": e, "distinct": c["distinct"], "members": [], "roundtrip": [], "texts": texts, "results": [], "detail": ""}
        if res["ok"]:
            enum_cls = getattr(res["mods"]["types"], pn.enum_name(Identifier(e["name"]["src"])))
            from_str = getattr(res["mods"]["stringification"], pn.function_name(Identifier("%s_from_str" % e["name"]["src"])))
            back = {pn.enum_literal_name(Identifier(l["name"]["src"])): l["name"]["src"] for l in e["lits"]}

            def name_of(m: Any) -> str:
                if m is None:
                    return ""
                if isinstance(m, enum_cls):
                    return back.get(m.name, "?" + m.name)
                return "?" + repr(m)[:40]

            for m in enum_cls:
                rec["members"].append({"name": name_of(m), "val": sc.cps_of(m.value) if isinstance(m.value, str) else sc.cps_of("<%s>" % type(m.value).__name__)})
                try:
                    rec["roundtrip"].append(name_of(from_str(m.value)))
                except Exception as ex:
                    rec["roundtrip"].append("!" + type(ex).__name__)
            for t in texts:
                try:
                    rec["results"].append(name_of(from_str(sc.s_of(t))))
                except Exception as ex:
                    rec["results"].append("!" + type(ex).__name__)
        else:
            rec["detail"] = (res["stderr"] or json.dumps(res.get("exc")) or json.dumps(res.get("import_errors")))[:300]
        out.append(rec)
        mm.drop_sdk(res)

    json.dump(out, open(out_p, "w"))


if __name__ == "__main__":
    main()
