"""C19 — emitted literals denote exactly the original values.

M: MC_Lexers (the six lexer machines as a transition system + decode(canonical encoding) round trip)
G: LexGen (strings over the class alphabet)          R: harness.run_c19 (every emitter on every string)
S: harness.lex_real (CPython, g++, javac+java, node on the same emitted texts; must agree with the spec)
V: LexTrace (Decode_lang(emitted) = original, one invariant per clause); LexDiag (fingerprints)
"""
from __future__ import annotations

import collections
import json
import os
import re
from typing import Any, Dict, List

from harness import core, lex_real

JVM = ("-Xmx8g", "-Xss256m")
TOOLCHAIN = {"py_str": "python", "py_fstr": "python", "py_bytes": "python", "cpp_wstr": "cpp", "cpp_str": "cpp", "cpp_wchar": "cpp", "java_str": "java", "ts_str": "node", "ts_tmpl": "node"}


def s_phase(ck: core.Check, obs: List[Dict[str, Any]]) -> Dict[str, int]:
    """Attach real / realval to every observation; returns counts per tool chain."""
    by_tool: Dict[str, set] = collections.defaultdict(set)
    for o in obs:
        o["real"], o["realval"] = "na", []
        if o["outcome"] == "ok" and o["kind"] in TOOLCHAIN:
            by_tool[TOOLCHAIN[o["kind"]]].add(core.from_cps(o["text"]))
    verdicts: Dict[str, Dict[str, lex_real.Verdict]] = {}
    counts: Dict[str, int] = {}
    try:
        for tool, texts in sorted(by_tool.items()):
            ts = sorted(texts)
            if tool == "python":
                verdicts[tool] = lex_real.real_python(ts)
            elif tool == "cpp":
                verdicts[tool] = lex_real.real_cpp(ts, ck.work / "s_cpp")
            elif tool == "java":
                verdicts[tool] = lex_real.real_java(ts, ck.work / "s_java")
            else:
                verdicts[tool] = lex_real.real_node(ts, ck.work / "s_node")
            counts[tool] = len(ts)
    except (RuntimeError, OSError) as ex:
        raise core.MachineryFailure("S phase tool chain failed: %s" % ex)
    for o in obs:
        if o["outcome"] == "ok" and o["kind"] in TOOLCHAIN:
            v = verdicts[TOOLCHAIN[o["kind"]]][core.from_cps(o["text"])]
            o["real"], o["realval"] = v[0], (v[1] or [])
    return counts


def show(cpsq: List[int]) -> str:
    return json.dumps(core.from_cps(cpsq), ensure_ascii=True)


def main() -> int:
    ck = core.Check("C19", "model_checking")
    replay = os.environ.get("VERIF_REPLAY")
    suffix = "" if ck.quick else "_thorough"
    # M
    if not replay:
        ck.model_check("MC_Lexers", "MC_Lexers.cfg", "lexer machines (all special units, bounded depth): totality, mode discipline, error absorbing, skeleton lemmas", workers=4, jvm=JVM, timeout=900)
        if not ck.quick:
            ck.model_check("MC_Lexers", "MC_Lexers_deep.cfg", "lexer machines (literal and escape units, unbounded depth)", workers=4, jvm=JVM, timeout=900)
        ck.model_check("MC_LexCanon", "MC_LexCanon.cfg", "Decode(kind, Canon(kind, s)) = Expected(kind, s)", workers=4, jvm=JVM, timeout=600)
    # G
    cases_p = ck.work / "cases.json"
    if replay:
        rp = core.read_json(__import__("pathlib").Path(replay))
        core.write_json(cases_p, [core.cps(rp["case"]["orig"])])
    else:
        ck.tlc("LexGen", "LexGen%s.cfg" % suffix, what="G: strings over the class alphabet", env={"VERIF_OUT": str(cases_p)}, count=False, seed=ck.seed + 1, jvm=JVM, timeout=600)
    n_cases = len(core.read_json(cases_p))
    # R
    obs_p = ck.work / "obs.json"
    ck.impl("harness.run_c19", [str(cases_p), str(obs_p)])
    obs = core.read_json(obs_p)
    for o in obs:
        o.setdefault("what", "")
    # S
    s_counts = s_phase(ck, obs)
    # V
    chunk = 40000
    nontrivial = 0
    s_checked = 0
    bad: List[Dict[str, Any]] = []
    other: List[Dict[str, Any]] = []
    for off in range(0, len(obs), chunk):
        part = obs[off : off + chunk]
        pp = ck.work / "obs_part.json"
        core.write_json(pp, part)
        res = ck.tlc("LexTrace", what="V: emitted literals decode to the originals", env={"VERIF_OBS": str(pp)}, cont=True, workers=4, jvm=JVM, timeout=1700)
        for line in res.printed:
            m = re.search(r"counts\", (\d+), (\d+), (\d+)", line)
            if m:
                nontrivial += int(m.group(2))
                s_checked += int(m.group(3))
        for v in res.violations:
            i = int(re.match(r"\s*(\d+)", res.var_of(v, "i") or "0").group(1))
            o = part[i - 1]
            if v["invariant"] == "Inv_SpecAgreesWithCompiler":
                raise core.MachineryFailure(
                    "spec decoder disagrees with the real tool chain on %s %s (orig %s): real=%s %s" % (o["kind"], show(o["text"]), show(o["orig"]), o["real"], o["realval"])
                )
            if v["invariant"] == "Inv_Denotes":
                bad.append(o)
            else:
                other.append(dict(o, invariant=v["invariant"]))
    # fingerprints of the wrong literals, by the spec
    if bad:
        bp, dp = ck.work / "bad.json", ck.work / "diag.json"
        diags: List[Dict[str, Any]] = []
        for off in range(0, len(bad), 20000):
            core.write_json(bp, bad[off : off + 20000])
            ck.tlc("LexDiag", what="diagnosis of wrong literals", env={"VERIF_OBS": str(bp), "VERIF_OUT": str(dp)}, count=False, jvm=JVM, timeout=900)
            diags.extend(core.read_json(dp))
        for o, d in zip(bad, diags):
            key = {"family": o["emitter"].split("[")[0], "emitter": o["emitter"], "cause": d["cause"] + (": " + d["why"] if d["why"] else ""), "original": d["sig"]}
            ck.violation(
                key,
                "Inv_Denotes",
                {"emitter": o["emitter"], "kind": o["kind"], "orig": core.from_cps(o["orig"])},
                {"emitted": core.from_cps(o["text"]), "spec_decodes": d["val"] if d["ok"] else None, "ill_formed": d["why"], "real": o["real"], "realval": o["realval"]},
                detail="%s(%s) = %s : %s%s" % (o["emitter"], show(o["orig"]), show(o["text"]), d["cause"], (" (" + d["why"] + ")") if d["why"] else ""),
            )
    for o in other:
        key = {"family": o["emitter"].split("[")[0], "emitter": o["emitter"], "cause": o["invariant"], "original": o["exc"].split(":")[0].split(" at ")[0] if o["exc"] else ""}
        ck.violation(key, o["invariant"], {"emitter": o["emitter"], "kind": o["kind"], "orig": core.from_cps(o["orig"]), "what": o["what"]}, {"outcome": o["outcome"], "exc": o["exc"]}, detail="%s(%s): %s %s" % (o["emitter"], show(o["orig"]), o["outcome"], o["exc"]))
    ck.cov["evaluations"] = len(obs)
    ck.cov["traces_validated_against_impl"] = len(obs)
    ck.cov["distinct_nontrivial"] = nontrivial
    ck.cov["strings"] = n_cases
    ck.cov["validated_against_real_toolchain"] = s_checked
    ck.cov["real_toolchain_texts"] = s_counts
    ck.cov["rule"] = (
        "G (TLC): all strings of length <= 2 over the 26-unit class alphabet + all of length 3 over the 10 (thorough 14) escape-relevant units "
        "+ (thorough) 6000 / 3000 random strings of length 3 / 4 (%d strings); each emitter is called on every string of its documented domain; "
        "non-trivial = emitted literal whose original has at least one unit that is not plain printable ASCII" % n_cases
    )
    ck.cov["exhaustive"] = True
    pick = [o for o in obs if o["outcome"] == "ok" and len(o["orig"]) >= 2][:: max(1, len(obs) // 5)][:5]
    ck.cov["samples"] = [{"emitter": o["emitter"], "orig": core.from_cps(o["orig"]), "emitted": core.from_cps(o["text"]), "real": o["real"]} for o in pick]
    ck.assumptions += [
        "TLC, SANY, CommunityModules Json",
        "Lexers.tla decoders for Python, C++ (wchar_t 32 bit, UTF-8 execution charset), Java and ECMAScript are validated against CPython %s, g++, javac+java, node on every emitted text of this run" % ".".join(map(str, __import__("sys").version_info[:3])),
        "C# and Go decoders rest on the transcription of ECMA-334 and the Go spec alone (no tool chain in the sandbox)",
        "source files are read as UTF-8",
    ]
    if nontrivial == 0 or (not replay and s_checked == 0):
        raise core.MachineryFailure("vacuous run")
    return ck.finish()
