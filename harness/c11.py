"""C11 - JSON Schema is valid and never rejects valid data.  G: ConstraintsDocGen; R: run_schema_docs; V: ConstraintsDocTrace (cfg 11)."""
from harness import schema_doc_check


def main() -> int:
    return schema_doc_check.run("C11")
