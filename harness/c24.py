"""C24 — model cache survives crashes and concurrent runs.
M: ModelCache (all interleavings and crash points, small constants) + two negative-control designs;
G: ModelCacheSim (TLC -simulate writes schedules); R: run_cache_gate (real threads gated at every
shared-state step, crashes injected); V: ModelCacheTrace (every recorded step must be the spec's
action with the observed directory listing; spec invariants evaluated at every step)."""
import json
import random
import re

from harness import core

from harness import cache_texts

# the two texts of the concurrent runs are near-identical (one leading blank line apart): a key derivation that
# conflates them shows up as a foreign read
T1 = cache_texts.T1
T2 = cache_texts.T3


def parse_schedules(stdout: str):
    out = []
    for m in re.finditer(r'<<"@@SCHED@@", "(.*)">>', stdout):
        out.append(json.loads(json.loads('"' + m.group(1) + '"')))
    return out


def select(schedules, k, rnd):
    """distinct schedules; prefer those with interleaving (switches between runs) and crashes mid-write"""
    uniq = {json.dumps(s): s for s in schedules}
    items = list(uniq.values())

    def score(s):
        switches = sum(1 for a, b in zip(s, s[1:]) if a["run"] != b["run"])
        return switches * 2 + len(s) + 3 * sum(1 for x in s if x["a"] == "crash")

    items.sort(key=lambda s: (-score(s), json.dumps(s)))
    top = items[: k // 2]
    rest = items[k // 2 :]
    rnd.shuffle(rest)
    return top + rest[: k - len(top)]


def validate(ck, traces, what):
    """V: returns list of (trace, violation)"""
    p = ck.work / "traces.json"
    core.write_json(p, traces)
    res = ck.tlc("ModelCacheTrace", what="V: " + what, env={"VERIF_OBS": str(p)}, cont=True, workers=1, timeout=900)
    bad = []
    seen = set()
    for v in res.violations:
        tid = int(res.var_of(v, "tid") or "0")
        l = int(res.var_of(v, "l") or "0")
        if (tid, v["invariant"]) in seen:
            continue
        seen.add((tid, v["invariant"]))
        bad.append((traces[tid - 1], l, v["invariant"]))
    return res, bad


def main() -> int:
    ck = core.Check("C24", "model_checking")
    rnd = random.Random(ck.seed)
    # M
    ck.model_check("ModelCache", "MC_ModelCache.cfg" if ck.quick else "MC_ModelCache_thorough.cfg", "cache protocol: all interleavings and crash points", workers=16, timeout=1500)
    for neg in ("MC_ModelCache_neg_sharedtmp.cfg", "MC_ModelCache_neg_direct.cfg"):
        r = ck.tlc("ModelCache", neg, what="M negative control " + neg, workers=4, count=False)
        if not any(v["invariant"] == "FinalAlwaysComplete" for v in r.violations):
            raise core.MachineryFailure("negative control %s not caught by the design check" % neg)
    # G
    num = 1500 if ck.quick else 20000
    keep = 160 if ck.quick else 2500
    g = ck.tlc("ModelCacheSim", what="G: schedules by simulation", simulate="num=%d" % num, depth=80, seed=ck.seed + 1, count=False, timeout=600)
    schedules = parse_schedules(g.stdout)
    if not ck.quick:
        g3 = ck.tlc("ModelCacheSim", "ModelCacheSim3.cfg", what="G: schedules, 3 runs", simulate="num=%d" % num, depth=120, seed=ck.seed + 2, count=False, timeout=600)
        schedules += parse_schedules(g3.stdout)
    if len(schedules) < 20:
        raise core.MachineryFailure("schedule generation produced %d schedules" % len(schedules))
    chosen = select(schedules, keep, rnd)
    if ck.replay_case is not None:
        chosen = [ck.replay_case["schedule"]]
    sp = ck.work / "schedules.json"
    core.write_json(sp, {"texts": {"t1": T1, "t2": T2}, "schedules": chosen})
    # R
    tp = ck.work / "traces_out.json"
    ck.impl("harness.run_cache_gate", [str(sp), str(tp), str(ck.work / "gate")], timeout=1500)
    traces = core.read_json(tp)
    # V
    res, bad = validate(ck, traces, "gated concurrent executions are behaviours of ModelCache")
    for tr, l, inv in bad:
        evs = tr["events"]
        at = evs[l - 1] if 0 < l <= len(evs) else {}
        prev = [e["ev"] + ":" + e["run"] for e in evs[max(0, l - 4) : l]]
        key = {"clause": inv, "event": at.get("ev", ""), "cls": at.get("cls", "")}
        ck.violation(key, inv, {"schedule": chosen[tr["id"]]}, {"events": evs, "exceptions": tr.get("exceptions")}, detail="trace %d rejected at line %d (%s); last steps %s; exceptions %s" % (tr["id"], l, at.get("ev"), prev, tr.get("exceptions")))
    n_conc = sum(1 for s in chosen if any(a["run"] != b["run"] for a, b in zip(s, s[1:])) and sum(1 for x in s if x["a"] == "start" and x["flag"]) >= 2)
    n_crash = sum(1 for s in chosen if any(x["a"] == "crash" for x in s))
    ck.cov["evaluations"] = len(traces)
    ck.cov["traces_validated_against_impl"] = len(traces)
    ck.cov["distinct_nontrivial"] = n_conc
    ck.cov["with_crash"] = n_crash
    ck.cov["trace_events"] = sum(len(t["events"]) for t in traces)
    ck.cov["rule"] = "schedules = distinct behaviours of ModelCacheSim under tlc -simulate (seeded), %d generated, %d replayed; non-trivial = at least two cache-enabled runs whose steps interleave; %d contain a crash" % (len(schedules), len(chosen), n_crash)
    ck.cov["samples"] = [chosen[0], chosen[len(chosen) // 2]]
    ck.cov["exhaustive"] = False
    ck.assumptions += [
        "file system semantics as modelled in ModelCache.tla (rename atomic; open-for-write truncates the same inode; readers keep their inode)",
        "a crash = the process performs no further operation; modelled in-process by refusing every later cache operation of the thread",
        "partial writes made visible by splitting pickle.dump into 2 flushed chunks (harness wrapper)",
    ]
    if n_conc == 0 and ck.replay_case is None:
        raise core.MachineryFailure("vacuous: no interleaved schedule")
    return ck.finish()
