"""S phase of C21: compare the TLA+ conversions (NamingConv.tla) with the real naming functions."""
import importlib
import json
import sys

from harness import core


def main() -> None:
    rows_path, out_path = sys.argv[1], sys.argv[2]
    core.assert_repo_bound()
    from aas_core_codegen import naming
    from aas_core_codegen.common import Identifier

    py = importlib.import_module("aas_core_codegen.python.naming")
    go = importlib.import_module("aas_core_codegen.golang.naming")
    real = {
        "lower_snake": naming.lower_snake_case,
        "upper_snake": naming.upper_snake_case,
        "lower_camel": naming.lower_camel_case,
        "cap_camel": naming.capitalized_camel_case,
        "keep_upper_camel": getattr(py, "class_name", None),
        "go_cap_camel": getattr(go, "capital_camel_case", None),
        "go_lower_camel": getattr(go, "_lower_camel_case", None),
    }
    rows = json.load(open(rows_path))
    mismatches, checked = [], 0
    for r in rows:
        f = real.get(r["fn"])
        if f is None:
            continue
        if r["fn"] == "keep_upper_camel" and not r["type_like"]:
            continue  # python.naming.class_name requires a capital first letter
        text = core.from_cps(r["text"])
        try:
            got = str(f(Identifier(text)))
        except Exception as ex:
            got = "<%s>" % type(ex).__name__
        checked += 1
        if got != core.from_cps(r["image"]):
            mismatches.append({"fn": r["fn"], "id": text, "spec": core.from_cps(r["image"]), "real": got})
    json.dump({"checked": checked, "mismatches": mismatches}, open(out_path, "w"))


if __name__ == "__main__":
    main()
