"""C09 helpers (group `cross`): render the abstract meta-models of specs/CrossSdkModels.tla to meta-model text,
observe the generated Python SDK, and emit the C++ / Java driver programs.

Vocabulary (see specs/CrossSdk.tla): values are tagged records {"t": ...}; JSON values are tagged records {"k": ...};
a path is a list of strings (property names, "#<index>").
"""
from __future__ import annotations

import json
import math
import re
from typing import Any, Dict, List, Optional, Sequence, Tuple

# ---------------------------------------------------------------------------------------------
# small encoders
# ---------------------------------------------------------------------------------------------


def from_cps(xs: Sequence[int]) -> str:
    return "".join(chr(x) for x in xs)


def cps(s: str) -> List[int]:
    return [ord(c) for c in s]


def py_str_literal(cpseq: Sequence[int]) -> str:
    """A Python string literal (ASCII only) denoting exactly the given code points."""
    out = ['"']
    for c in cpseq:
        if c in (0x22, 0x5C):
            out.append("\\" + chr(c))
        elif 0x20 <= c < 0x7F:
            out.append(chr(c))
        elif c < 0x100:
            out.append("\\x%02x" % c)
        elif c < 0x10000:
            out.append("\\u%04x" % c)
        else:
            out.append("\\U%08x" % c)
    out.append('"')
    return "".join(out)


def py_text_literal(s: str) -> str:
    return py_str_literal(cps(s))


def int_of(v: Dict[str, Any]) -> int:
    n = int("".join(str(d) for d in v["d"]))
    return -n if v["neg"] else n


def int_rec(n: int) -> Dict[str, Any]:
    return {"neg": n < 0, "d": [int(ch) for ch in str(abs(n))]}


def norm_name(name: str) -> str:
    """Property names are reported per target convention (some_note, someNote, SomeNote): compare them
    case- and underscore-insensitively."""
    return name.replace("_", "").lower()


# ---------------------------------------------------------------------------------------------
# abstract model -> meta-model text
# ---------------------------------------------------------------------------------------------

_CMP = {"lt": "<", "le": "<=", "gt": ">", "ge": ">=", "eq": "==", "ne": "!="}


def render_expr(e: Dict[str, Any]) -> str:
    op = e["op"]
    if op == "self":
        return "self"
    if op == "prop":
        return "self.%s" % e["n"]
    if op == "var":
        return e["n"]
    if op == "attr":
        return "%s.%s" % (render_expr(e["a"]), e["n"])
    if op == "int":
        return str(int_of(e))
    if op == "str":
        return py_str_literal(e["v"])
    if op == "enumlit":
        return "%s.%s" % (e["e"], e["l"])
    if op == "len":
        return "len(%s)" % render_expr(e["a"])
    if op == "cmp":
        return "%s %s %s" % (render_expr(e["a"]), _CMP[e["o"]], render_expr(e["b"]))
    if op == "isnone":
        return "%s is None" % render_expr(e["a"])
    if op == "issome":
        return "%s is not None" % render_expr(e["a"])
    if op == "flag":
        return render_expr(e["a"])
    if op == "not":
        return "not (%s)" % render_expr(e["a"])
    if op == "and":
        return " and ".join("(%s)" % render_expr(a) for a in e["args"])
    if op == "or":
        return " or ".join("(%s)" % render_expr(a) for a in e["args"])
    if op == "implies":
        return "not (%s) or (%s)" % (render_expr(e["a"]), render_expr(e["b"]))
    if op in ("all", "any"):
        return "%s(%s for %s in %s)" % (op, render_expr(e["body"]), e["v"], render_expr(e["over"]))
    if op == "match":
        return "%s(%s)" % (e["fn"], render_expr(e["a"]))
    if op == "in":
        return "%s in %s" % (render_expr(e["a"]), e["set"])
    raise ValueError("unknown expression op %r" % op)


def _regex_char(c: int) -> str:
    """Regex-level text for one code point, inside a Python (f-)string literal of the meta-model."""
    if (0x30 <= c <= 0x39) or (0x41 <= c <= 0x5A) or (0x61 <= c <= 0x7A):
        return chr(c)
    if c < 0x100:
        return "\\\\x%02x" % c
    if c < 0x10000:
        return "\\\\u%04x" % c
    return "\\\\U%08x" % c


def render_pattern(pat: Sequence[Dict[str, Any]]) -> str:
    parts = ["^"]
    for a in pat:
        rs = a["ranges"]
        if not a["neg"] and len(rs) == 1 and rs[0][0] == rs[0][1]:
            parts.append(_regex_char(rs[0][0]))
        else:
            body = "".join(_regex_char(lo) if lo == hi else "%s-%s" % (_regex_char(lo), _regex_char(hi)) for lo, hi in rs)
            parts.append("[%s%s]" % ("^" if a["neg"] else "", body))
        lo, hi = a["min"], a["max"]
        if (lo, hi) == (1, 1):
            pass
        elif (lo, hi) == (0, -1):
            parts.append("*")
        elif (lo, hi) == (1, -1):
            parts.append("+")
        elif (lo, hi) == (0, 1):
            parts.append("?")
        elif hi == -1:  # the pattern sits in an f-string: braces are doubled
            parts.append("{{%d,}}" % lo)
        elif lo == hi:
            parts.append("{{%d}}" % lo)
        else:
            parts.append("{{%d,%d}}" % (lo, hi))
    parts.append("$")
    return "".join(parts)


def type_text(t: Dict[str, Any]) -> str:
    k = t["k"]
    if k in ("int", "str", "bool", "float"):
        return k
    if k == "bytes":
        return "bytearray"
    if k in ("enum", "class", "cprim"):
        return '"%s"' % t["n"]
    if k == "list":
        return "List[%s]" % type_text(t["of"])
    if k == "opt":
        return "Optional[%s]" % type_text(t["of"])
    raise ValueError(k)


def _const_text(model: Dict[str, Any], c: Dict[str, Any]) -> str:
    k = c["k"]
    desc = py_text_literal("Constant %s." % c["name"])
    if k == "int":
        return "%s: int = constant_int(value=%d, description=%s)" % (c["name"], int_of(c["v"]), desc)
    if k == "str":
        return "%s: str = constant_str(value=%s, description=%s)" % (c["name"], py_str_literal(c["v"]), desc)
    if k == "bool":
        return "%s: bool = constant_bool(value=%s, description=%s)" % (c["name"], "True" if c["v"] else "False", desc)
    if k == "bytes":
        lit = 'b"%s"' % "".join("\\x%02x" % b for b in c["v"])
        return "%s: bytearray = constant_bytearray(value=%s, description=%s)" % (c["name"], lit, desc)
    sup = ""
    if c.get("supersetOf"):
        sup = ", superset_of=[%s]" % ", ".join(c["supersetOf"])
    if k == "enumset":
        vals = ", ".join("%s.%s" % (c["e"], l) for l in c["v"])
        return "%s: Set[%s] = constant_set(values=[%s], description=%s%s)" % (c["name"], c["e"], vals, desc, sup)
    if k == "strset":
        vals = ", ".join(py_str_literal(v) for v in c["v"])
        return "%s: Set[str] = constant_set(values=[%s], description=%s%s)" % (c["name"], vals, desc, sup)
    if k == "intset":
        vals = ", ".join(str(int_of(v)) for v in c["v"])
        return "%s: Set[int] = constant_set(values=[%s], description=%s%s)" % (c["name"], vals, desc, sup)
    raise ValueError(k)


def to_mm(model: Dict[str, Any]) -> Dict[str, Any]:
    """Abstract model of CrossSdk.tla -> the `mm` dictionary of harness/mm.py."""
    items: List[Dict[str, Any]] = []
    for en in model["enums"]:
        items.append({"kind": "raw", "text": "class %s(Enum):\n%s" % (en["name"], "".join("    %s = %s\n" % (l["name"], py_str_literal(l["value"])) for l in en["lits"]))})
    for pf in model["patterns"]:
        items.append(
            {
                "kind": "raw",
                "text": '@verification\ndef %s(text: str) -> bool:\n    """Check that :paramref:`text` matches."""\n    pattern = f"%s"\n    return match(pattern, text) is not None\n'
                % (pf["name"], render_pattern(pf["pat"])),
            }
        )
    for cp in model["cprims"]:
        invs = "".join("@invariant(\n    lambda self: %s,\n    %s\n)\n" % (render_expr(i["e"]), py_text_literal(i["desc"])) for i in cp["invs"])
        items.append({"kind": "raw", "text": "%sclass %s(%s, DBC):\n    pass\n" % (invs, cp["name"], cp["base"])})
    for cl in model["classes"]:
        items.append(
            {
                "kind": "class",
                "name": cl["name"],
                "bases": list(cl["bases"]),
                "abstract": bool(cl["abstract"]),
                "wmt": True if cl["wmt"] else None,
                "props": [{"name": p["name"], "type": type_text(p["type"])} for p in cl["props"]],
                "invs": [],
                "decorators": ["@invariant(\n    lambda self: %s,\n    %s\n)" % (render_expr(i["e"]), py_text_literal(i["desc"])) for i in reversed(cl["invs"])],
                "ctor": "auto",
            }
        )
    for c in model["consts"]:
        items.append({"kind": "raw", "text": _const_text(model, c)})
    return {"items": items}


def find(seq: Sequence[Dict[str, Any]], name: str) -> Dict[str, Any]:
    for x in seq:
        if x["name"] == name:
            return x
    raise KeyError(name)


def all_props(model: Dict[str, Any], cn: str) -> List[Dict[str, Any]]:
    out: List[Dict[str, Any]] = []
    seen = set()

    def visit(n: str) -> None:
        c = find(model["classes"], n)
        for b in c["bases"]:
            visit(b)
        for p in c["props"]:
            if p["name"] not in seen:
                seen.add(p["name"])
                out.append(p)

    visit(cn)
    return out


def ctor_order(model: Dict[str, Any], cn: str) -> List[Dict[str, Any]]:
    """Constructor argument order as rendered by mm.render_ctor: required first, then optional."""
    ps = all_props(model, cn)
    return [p for p in ps if p["type"]["k"] != "opt"] + [p for p in ps if p["type"]["k"] == "opt"]


def cprim_prim(model: Dict[str, Any], n: str) -> str:
    c = find(model["cprims"], n)
    while any(x["name"] == c["base"] for x in model["cprims"]):
        c = find(model["cprims"], c["base"])
    return {"bytearray": "bytes"}.get(c["base"], c["base"])


def selfcheck_model(model: Dict[str, Any]) -> None:
    """S: the code points the spec lists as the modelType text of a class must spell the class name in Pascal case."""
    for cl in model["classes"]:
        want = "".join(part.capitalize() for part in cl["name"].split("_"))
        if from_cps(cl["cps"]) != want:
            raise AssertionError("spec lists wrong code points for class %s" % cl["name"])


# ---------------------------------------------------------------------------------------------
# JSON <-> tagged JSON
# ---------------------------------------------------------------------------------------------


def float_token(x: float) -> str:
    return repr(float(x))


def project_json(j: Any) -> Dict[str, Any]:
    """A parsed JSON value -> the tagged form of CrossSdk.tla.  Numbers: integral values (of int or float type)
    become "num" (so 1 and 1.0 are equal, as JSON numbers), others "float" with Python's shortest repr."""
    if j is None:
        return {"k": "null"}
    if isinstance(j, bool):
        return {"k": "bool", "v": j}
    if isinstance(j, int):
        return {"k": "num", **int_rec(j)}
    if isinstance(j, float):
        if math.isfinite(j) and j == int(j) and abs(j) < 2**63:
            return {"k": "num", **int_rec(int(j))}
        return {"k": "float", "v": float_token(j)}
    if isinstance(j, str):
        return {"k": "str", "v": cps(j)}
    if isinstance(j, (list, tuple)):
        return {"k": "arr", "v": [project_json(x) for x in j]}
    if isinstance(j, dict):
        return {"k": "obj", "v": [{"key": k, "val": project_json(v)} for k, v in j.items()]}
    raise TypeError(type(j))


def unproject_json(t: Dict[str, Any]) -> Any:
    """Tagged JSON -> Python jsonable."""
    k = t["k"]
    if k == "null":
        return None
    if k == "bool":
        return bool(t["v"])
    if k == "num":
        return int_of(t)
    if k == "float":
        return float(t["v"])
    if k == "str":
        return from_cps(t["v"])
    if k == "arr":
        return [unproject_json(x) for x in t["v"]]
    if k == "obj":
        return {p["key"]: unproject_json(p["val"]) for p in t["v"]}
    raise ValueError(k)


def json_text(t: Dict[str, Any]) -> str:
    """Tagged JSON -> JSON text (exact: big integers and float tokens are written as given)."""
    k = t["k"]
    if k == "null":
        return "null"
    if k == "bool":
        return "true" if t["v"] else "false"
    if k == "num":
        return str(int_of(t))
    if k == "float":
        return t["v"]
    if k == "str":
        return json.dumps(from_cps(t["v"]))
    if k == "arr":
        return "[" + ",".join(json_text(x) for x in t["v"]) + "]"
    if k == "obj":
        return "{" + ",".join(json.dumps(p["key"]) + ":" + json_text(p["val"]) for p in t["v"]) + "}"
    raise ValueError(k)


# ---------------------------------------------------------------------------------------------
# observing the generated Python SDK
# ---------------------------------------------------------------------------------------------


class PyObserver:
    def __init__(self, model: Dict[str, Any], mods: Dict[str, Any]) -> None:
        from aas_core_codegen.common import Identifier
        from aas_core_codegen.python import naming

        self.model = model
        self.mods = mods
        self.naming = naming
        self.Identifier = Identifier
        self.types = mods["types"]
        self.verification = mods["verification"]
        self.jsonization = mods["jsonization"]

    def build(self, t: Dict[str, Any], v: Dict[str, Any]) -> Any:
        if v["t"] == "none":
            return None
        k = t["k"]
        if k == "opt":
            return self.build(t["of"], v)
        if k == "cprim":
            return self.build({"k": cprim_prim(self.model, t["n"])}, v)
        if k == "int":
            return int_of(v)
        if k == "str":
            return from_cps(v["v"])
        if k == "bool":
            return bool(v["v"])
        if k == "float":
            return float(v["v"])
        if k == "bytes":
            return bytes(v["v"])
        if k == "enum":
            en = getattr(self.types, str(self.naming.enum_name(self.Identifier(t["n"]))))
            return getattr(en, str(self.naming.enum_literal_name(self.Identifier(v["l"]))))
        if k == "list":
            return [self.build(t["of"], x) for x in v["v"]]
        if k == "class":
            cn = v["c"]
            cls = getattr(self.types, str(self.naming.class_name(self.Identifier(cn))))
            kwargs = {}
            for p in all_props(self.model, cn):
                kwargs[str(self.naming.argument_name(self.Identifier(p["name"])))] = self.build(p["type"], v["f"][p["name"]])
            return cls(**kwargs)
        raise ValueError(k)

    def errors_of(self, inst: Any) -> List[Dict[str, Any]]:
        out = []
        for err in self.verification.verify(inst):
            segs = []
            for s in err.path.segments:
                if hasattr(s, "name"):
                    segs.append(norm_name(s.name))
                else:
                    segs.append("#%d" % s.index)
            out.append({"path": segs, "cause": err.cause})
        return out

    def observe_instance(self, root: str, x: Dict[str, Any]) -> Dict[str, Any]:
        try:
            inst = self.build({"k": "class", "n": root}, x)
        except Exception as ex:  # observation
            return {"built": False, "errors": [], "verified": False, "json": {"k": "null"}, "serialized": False, "exc": "build: %s: %s" % (type(ex).__name__, str(ex)[:200])}
        o: Dict[str, Any] = {"built": True, "exc": ""}
        try:
            o["errors"] = self.errors_of(inst)
            o["verified"] = True
        except Exception as ex:
            o["errors"] = []
            o["verified"] = False
            o["exc"] += "verify: %s: %s" % (type(ex).__name__, str(ex)[:200])
        try:
            j = self.jsonization.to_jsonable(inst)
            # through text, like the other targets
            o["json"] = project_json(json.loads(json.dumps(j)))
            o["serialized"] = True
        except Exception as ex:
            o["json"] = {"k": "null"}
            o["serialized"] = False
            o["exc"] += "serialize: %s: %s" % (type(ex).__name__, str(ex)[:200])
        return o

    def observe_doc(self, root: str, doc: Dict[str, Any]) -> Dict[str, Any]:
        fn = getattr(self.jsonization, "%s_from_jsonable" % str(self.naming.function_name(self.Identifier(root))))
        jsonable = json.loads(json_text(doc))
        try:
            inst = fn(jsonable)
        except self.jsonization.DeserializationException as ex:
            return {"accepted": False, "json": {"k": "null"}, "exc": "DeserializationException", "msg": str(ex.cause)[:200]}
        except Exception as ex:
            return {"accepted": False, "json": {"k": "null"}, "exc": type(ex).__name__, "msg": str(ex)[:200]}
        try:
            j = self.jsonization.to_jsonable(inst)
            return {"accepted": True, "json": project_json(json.loads(json.dumps(j))), "exc": "", "msg": ""}
        except Exception as ex:
            return {"accepted": True, "json": {"k": "null"}, "exc": "reserialize:" + type(ex).__name__, "msg": str(ex)[:200]}

    def observe_consts(self) -> List[Dict[str, Any]]:
        cm = self.mods["constants"]
        out = []
        for c in self.model["consts"]:
            name = str(self.naming.constant_name(self.Identifier(c["name"])))
            try:
                v = getattr(cm, name)
            except Exception as ex:
                out.append({"name": c["name"], "ok": False, "value": {"k": "missing", "v": []}, "exc": type(ex).__name__})
                continue
            out.append({"name": c["name"], "ok": True, "value": project_const(c["k"], v), "exc": ""})
        return out

    def observe_enums(self, probes: Dict[str, List[List[int]]]) -> List[Dict[str, Any]]:
        sm = self.mods["stringification"]
        out = []
        for en in self.model["enums"]:
            ecls = getattr(self.types, str(self.naming.enum_name(self.Identifier(en["name"]))))
            lits = list(ecls)
            texts = [cps(l.value) for l in lits]
            fn = getattr(sm, "%s_from_str" % str(self.naming.function_name(self.Identifier(en["name"]))))
            parsed = []
            for pr in probes[en["name"]]:
                r = fn(from_cps(pr))
                parsed.append(0 if r is None else lits.index(r) + 1)
            out.append({"name": en["name"], "texts": texts, "parsed": parsed})
        return out


def project_const(kind: str, v: Any) -> Dict[str, Any]:
    if kind == "int":
        return {"k": "int", **int_rec(int(v))}
    if kind == "str":
        return {"k": "str", "v": cps(v)}
    if kind == "bool":
        return {"k": "bool", "v": bool(v)}
    if kind == "bytes":
        return {"k": "bytes", "v": list(bytes(v))}
    if kind == "strset":
        return {"k": "strset", "v": sorted(cps(x) for x in v)}
    if kind == "intset":
        return {"k": "intset", "v": [int_rec(x) for x in sorted(int(y) for y in v)]}
    if kind == "enumset":
        return {"k": "enumset", "v": sorted(cps(x.value) for x in v)}
    raise ValueError(kind)


# ---------------------------------------------------------------------------------------------
# structural fingerprints of disagreements (keys of findings)
# ---------------------------------------------------------------------------------------------


def expr_shape(e: Dict[str, Any]) -> str:
    """The construct an invariant is made of, without names and constants: e.g. implies(issome,cmp.le(len,int))."""
    op = e["op"]
    if op in ("self", "prop", "var", "int", "str", "enumlit"):
        return {"prop": "prop", "self": "self", "var": "var"}.get(op, op)
    if op == "attr":
        return "attr"
    if op == "len":
        return "len"
    if op == "cmp":
        return "cmp.%s(%s,%s)" % (e["o"], expr_shape(e["a"]), expr_shape(e["b"]))
    if op in ("isnone", "issome", "flag"):
        return op
    if op == "not":
        return "not(%s)" % expr_shape(e["a"])
    if op in ("and", "or"):
        return "%s(%s)" % (op, ",".join(expr_shape(a) for a in e["args"]))
    if op == "implies":
        return "implies(%s,%s)" % (expr_shape(e["a"]), expr_shape(e["b"]))
    if op in ("all", "any"):
        return "%s(%s)" % (op, expr_shape(e["body"]))
    if op == "match":
        return "match"
    if op == "in":
        return "in"
    raise ValueError(op)


def expr_props(e: Dict[str, Any]) -> List[str]:
    """Names of the properties of `self` an expression reads ("" for the value itself)."""
    op = e["op"]
    if op == "prop":
        return [e["n"]]
    if op == "self":
        return [""]
    out: List[str] = []
    for k in ("a", "b", "over", "body"):
        if k in e and isinstance(e[k], dict):
            out.extend(expr_props(e[k]))
    for a in e.get("args", []):
        out.extend(expr_props(a))
    return out


def find_invariant(model: Dict[str, Any], desc: str) -> Optional[Dict[str, Any]]:
    for c in list(model["classes"]) + list(model["cprims"]):
        for inv in c["invs"]:
            if inv["desc"] == desc:
                return inv
    return None


def value_feats(v: Dict[str, Any]) -> List[str]:
    """Same features as Feats in specs/CrossSdk.tla."""
    out = set()
    t = v["t"]
    if t == "str":
        if any(c > 0xFFFF for c in v["v"]):
            out.add("astral")
        if v["v"] and v["v"][-1] == 10:
            out.add("lf_end")
        if any(0x7F < c <= 0xFFFF for c in v["v"]):
            out.add("non_ascii")
    elif t == "int":
        if int_of(v) in (2**63 - 1, -(2**63)):
            out.add("int64_extreme")
    elif t == "list":
        for x in v["v"]:
            out.update(value_feats(x))
    elif t == "inst":
        for x in v["f"].values():
            out.update(value_feats(x))
    return sorted(out)


def navigate(x: Dict[str, Any], path: Sequence[str]) -> Optional[Dict[str, Any]]:
    cur = x
    for seg in path:
        try:
            if seg.startswith("#"):
                cur = cur["v"][int(seg[1:])]
            else:
                cur = cur["f"][seg]
        except (KeyError, IndexError, TypeError):
            return None
    return cur


def error_key(model: Dict[str, Any], x: Dict[str, Any], path: Sequence[str], cause: str) -> Dict[str, Any]:
    """Fingerprint of one differing (path, description): the construct of the invariant and the features of the
    values it reads (astral characters, trailing line feed, 64-bit extremes)."""
    inv = find_invariant(model, cause)
    if inv is None:
        return {"shape": "unknown_description", "operand_feats": ""}
    owner = navigate(x, path)
    feats: List[str] = []
    if owner is not None:
        for p in expr_props(inv["e"]):
            v = owner if p == "" else (owner.get("f", {}).get(p) if owner.get("t") == "inst" else None)
            if v is not None:
                feats.extend(value_feats(v))
    return {"shape": expr_shape(inv["e"]), "operand_feats": ",".join(sorted(set(feats)))}


def type_at(model: Dict[str, Any], root: str, loc: Sequence[str]) -> str:
    """Kind of the declared type at a document location (by wire names), e.g. int, opt.str, list, class, modelType."""
    t: Dict[str, Any] = {"k": "class", "n": root}
    opt = False
    for seg in loc:
        opt = False
        if t["k"] == "opt":
            t = t["of"]
        if seg.startswith("#"):
            if t["k"] != "list":
                return "?"
            t = t["of"]
            continue
        if t["k"] != "class":
            return "?"
        if seg == "modelType":
            return "modelType"
        found = None
        names = [c["name"] for c in model["classes"]]
        # the property may belong to any concrete class below the declared one
        for c in model["classes"]:
            for p in all_props(model, c["name"]):
                if p["json"] == seg:
                    found = p
        if found is None:
            return "?"
        t = found["type"]
        if t["k"] == "opt":
            opt = True
            t = t["of"]
    k = t["k"]
    if k == "cprim":
        k = "cprim." + cprim_prim(model, t["n"])
    return ("opt." if opt else "") + k


def const_feature(value: Dict[str, Any]) -> str:
    """What is special about a constant's value (for fingerprints): the escape-relevant shape of its text."""
    texts: List[List[int]] = []
    if value["k"] == "str":
        texts = [value["v"]]
    elif value["k"] in ("strset", "enumset"):
        texts = list(value["v"])
    elif value["k"] in ("int", "intset"):
        ints = [value] if value["k"] == "int" else value["v"]
        return "int64_extreme" if any(int_of(v) in (2**63 - 1, -(2**63)) for v in ints) else "plain"
    else:
        return "plain"
    hexdigits = set(b"0123456789abcdefABCDEF")
    feats = set()
    for t in texts:
        for i, c in enumerate(t):
            if c > 0xFFFF:
                feats.add("astral")
            elif c > 0x7F:
                feats.add("non_ascii")
                if i + 1 < len(t) and t[i + 1] in hexdigits:
                    feats.add("non_ascii_then_hex_digit")
            elif c < 0x20 or c in (0x22, 0x5C):
                feats.add("needs_escape")
    return ",".join(sorted(feats)) or "plain"
