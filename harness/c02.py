"""C02 — generators never crash on accepted meta-models.

M: GenRun.tla (the run of main.execute + <target>.execute as a state machine emitting observable events) is
   model-checked against GenContract.tla; each deviation action must be caught by its clause (negative control).
G: GenFeaturesGen.tla — TLC builds accepted meta-models from templates x feature actions (singles + pairs).
   code->spec: the repository's own common meta-models with their recorded snippets.
R: harness.run_c02 — front end, all eight targets (+ snippet discovery where the model is implementation specific)
   and the smoke tool, each run projected to its event trace.
V: GenTrace.tla — every trace must be accepted by GenContract, one invariant per clause of the sentence.
"""
import json
import os
import pathlib
import re

from harness import core, genlib

TARGETS = list(genlib.TARGETS)


def code_to_spec_cases(quick: bool):
    """dev/test_data/common_meta_models/*.py x all targets with the snippets recorded for the golden tests."""
    cases = []
    root = core.REPO / "dev" / "test_data"
    for p in sorted((root / "common_meta_models").glob("*.py")):
        name = p.stem
        text = p.read_text(encoding="utf-8")
        snippets = {}
        for t in TARGETS:
            sd = root / "main" / t / "expected" / name / "input" / "snippets"
            if sd.is_dir():
                snippets[t] = {str(f.relative_to(sd)): f.read_text(encoding="utf-8") for f in sorted(sd.rglob("*")) if f.is_file() and not f.name.startswith(".")}
        base = {"text": text, "snippets": snippets, "origin": "repo:" + name, "template": "repo", "features": [name], "families": ["repo"], "needs_snippets": False}
        if name.startswith("aas_core_meta"):
            # the real meta-model is expensive (seconds per target): one job per target so that they run in parallel
            targets = ["jsonschema"] if quick else TARGETS
            for t in targets:
                cases.append(dict(base, targets=[t], smoke=False))
            if not quick:
                cases.append(dict(base, targets=["jsonschema"], smoke=True, origin=base["origin"] + ":smoke"))
        else:
            cases.append(base)
    return cases


def negative_controls(ck: core.Check) -> None:
    expect = {"raise": "Inv_NoUncaughtException", "silent": "Inv_NonZeroReported", "lenient": "Inv_ExitZeroWroteOutput"}
    for fault, inv in expect.items():
        res = ck.tlc("GenRun", "MC_GenRun_fault_%s.cfg" % fault, what="M: negative control, fault %s must violate %s" % (fault, inv), workers=2, timeout=300, count=False)
        got = {v["invariant"] for v in res.violations}
        if inv not in got:
            raise core.MachineryFailure("negative control: fault %r did not violate %s (got %s)" % (fault, inv, sorted(got)))


def main() -> int:
    ck = core.Check("C02", "model_checking")
    replay = os.environ.get("VERIF_REPLAY")
    suffix = "" if ck.quick else "_thorough"
    nproc = int(os.environ.get("VERIF_NPROC", "8"))

    # M
    ck.model_check("GenRun", "MC_GenRun%s.cfg" % suffix, "a generator run satisfies the contract", workers=2, timeout=600)
    ck.model_check("GenRun", "MC_GenRun_smoke.cfg", "a smoke run satisfies the contract", workers=2, timeout=600)
    if not ck.quick or replay:
        negative_controls(ck)

    # G
    cases_p = ck.work / "cases.json"
    if replay:
        rp = json.loads(pathlib.Path(replay).read_text())
        c = dict(rp["case"])
        cases = [c]
        n_spec = 0
    else:
        g = ck.tlc("GenFeaturesGen", "GenFeaturesGen%s.cfg" % suffix, what="G: templates x feature actions", env={"VERIF_OUT": str(cases_p)}, count=False, timeout=900)
        cases = core.read_json(cases_p)
        n_spec = len(cases)
        for c in cases:
            c["origin"] = "spec"
        cases += code_to_spec_cases(ck.quick)
    core.write_json(cases_p, cases)

    # R
    import time as _time

    t_r = _time.time()
    obs_p = ck.work / "obs.json"
    ck.impl("harness.run_c02", [str(cases_p), str(obs_p), str(ck.work / "scratch"), str(nproc)], timeout=3000)
    ck.notes.append("R phase wall %.1f s with %d workers" % (_time.time() - t_r, nproc))
    out = core.read_json(obs_p)
    obs, texts = out["obs"], out["texts"]
    harness_errors = [o for o in obs if o["kind"] == "harness_error"]
    if harness_errors:
        raise core.MachineryFailure("runner failed on case %d: %s" % (harness_errors[0]["case"], harness_errors[0]["detail"]))
    fronts = {o["case"]: o for o in obs if o["kind"] == "front"}
    runs = [o for o in obs if o["kind"] == "run"]
    n_accepted = sum(1 for o in fronts.values() if o["front"] == "accepted")
    n_spec_accepted = sum(1 for i, o in fronts.items() if o["front"] == "accepted" and cases[i].get("origin") == "spec")
    if not replay and n_spec and n_spec_accepted < 0.9 * n_spec:
        raise core.MachineryFailure("the generator of accepted meta-models is off: only %d of %d spec cases were accepted by the front end" % (n_spec_accepted, n_spec))
    if not runs:
        raise core.MachineryFailure("vacuous run: no generator run observed")

    # V: identical (kind of entry point, event trace) pairs are validated once; a verdict applies to every run of the class
    classes = {}
    for r in runs:
        classes.setdefault(json.dumps([r["target"] == "smoke", r["events"]]), []).append(r)
    reps = [rs[0] for rs in classes.values()]
    pp = ck.work / "runs_part.json"
    core.write_json(pp, [{"target": "smoke" if r["target"] == "smoke" else "generator", "events": r["events"]} for r in reps])
    res = ck.tlc("GenTrace", what="V: observed runs are accepted by the contract (%d runs in %d trace classes)" % (len(runs), len(reps)), env={"VERIF_OBS": str(pp)}, cont=True, workers=1, timeout=900)
    counters = [0, 0, 0, 0]
    for rs in classes.values():
        last = rs[0]["events"][-1]
        counters[0] += len(rs)
        counters[1 if (last["k"] == "ret" and last["n"] == 0) else 2 if last["k"] == "ret" else 3] += len(rs)
    for v in res.violations:
        m = re.search(r"\bi = (\d+)", v["state"])
        if not m:
            raise core.MachineryFailure("cannot read the observation index from TLC's output: %r" % v["state"][:200])
        rep = reps[int(m.group(1)) - 1]
        if v["invariant"] == "Inv_WellFormed":
            raise core.MachineryFailure("runner produced a malformed trace: %r" % (rep,))
        for r in classes[json.dumps([rep["target"] == "smoke", rep["events"]])]:
            case = cases[r["case"]]
            if replay and rp.get("key", {}).get("target") not in (None, r["target"]):
                continue
            if v["invariant"] == "Inv_NoUncaughtException":
                key = {"target": r["target"], "exc_type": r["exc_type"], "frame": r["exc_site"]}
                detail = "%s: %s at %s on features %s/%s: %s" % (r["target"], r["exc_type"], r["exc_site"], case.get("template"), case.get("features"), r["exc_msg"][:160])
            else:
                key = {"target": r["target"], "clause": v["invariant"], "mode": r.get("mode", "")}
                detail = "%s: events %s stderr %r on features %s/%s" % (r["target"], r["events"], r["stderr_head"][:120], case.get("template"), case.get("features"))
            replay_case = {
                "text": texts[r["case"]],
                "needs_snippets": bool(case.get("needs_snippets")),
                "targets": [r["target"]] if r["target"] != "smoke" else ["jsonschema"],
                "smoke": r["target"] == "smoke",
                "template": case.get("template"),
                "features": case.get("features"),
                "origin": case.get("origin"),
            }
            if case.get("snippets"):
                replay_case["snippets"] = {t: sn for t, sn in case["snippets"].items() if t == r["target"]}
            ck.violation(key, v["invariant"], replay_case, {k: r[k] for k in ("target", "mode", "events", "exc_type", "exc_site", "exc_msg", "stderr_head", "nfiles") if k in r}, detail)

    accepted_cases = [i for i, o in fronts.items() if o["front"] == "accepted"]
    distinct_texts = {texts[i] for i in accepted_cases}
    ck.cov["evaluations"] = len(runs)
    ck.cov["traces_validated_against_impl"] = len(runs)
    ck.cov["distinct_nontrivial"] = len({(texts[r["case"]], r["target"], r.get("mode", "")) for r in runs})
    ck.cov["rule"] = (
        "one evaluation = one run of main.execute (8 targets) or smoke.main.execute on a meta-model the front end accepted, "
        "traced as events; non-trivial = distinct (model text, target, snippet mode) of an accepted model. "
        "G: %d spec cases (templates x single features + pairs), %d accepted by the front end; + %d code->spec cases from dev/test_data; "
        "outcomes: %d returned 0, %d reported (non-zero), %d raised; %d distinct trace classes checked by TLC" % (n_spec, n_spec_accepted, len(cases) - n_spec, counters[1], counters[2], counters[3], len(reps))
    )
    ck.cov["accepted_models"] = len(distinct_texts)
    ck.cov["front_rejected_or_crashed"] = len(fronts) - n_accepted
    ck.cov["exhaustive"] = False
    ck.cov["runner_cpu_s"] = out.get("cpu_s")
    sample_runs = [runs[0], runs[len(runs) // 2], runs[-1]]
    ck.cov["samples"] = [{"template": cases[r["case"]].get("template"), "features": cases[r["case"]].get("features"), "target": r["target"], "events": r["events"]} for r in sample_runs]
    ck.assumptions += [
        "TLC, SANY, CommunityModules Json",
        "snippets: defaults per target; for implementation-specific models the keys a target asks for are discovered with a recording snippet map and the observed run is repeated, unwrapped, with dummy snippets",
        "write events are taken from the audit hook 'open' (write modes) below the output directory",
    ]
    return ck.finish()
