"""R phase of C13 (shared with C14): see harness/xsd_runner.py."""
from harness.xsd_runner import main

if __name__ == "__main__":
    main()
