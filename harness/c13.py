"""C13 - XSD is valid and never rejects valid data.  M: XsdTranslate (+ XsdDesign in the thorough tier); G: XsdGen; R: run_c13; V: XsdTrace13."""
from harness import xsd_check


def main() -> int:
    return xsd_check.run_check("C13", "model_checking", model_check=xsd_check_design)


def xsd_check_design(ck) -> None:
    from harness import xsd_design

    xsd_design.model_check(ck, "C13")
