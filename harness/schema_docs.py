"""R-side helpers of C11 / C12: JSON Schema validity, UTF-16-convention validation, SDK documents and mutations."""
from __future__ import annotations

import copy
import json
import pathlib
import re
from typing import Any, Dict, Iterator, List, Optional, Tuple

from harness import schema_scen

CHAR = {k: chr(v) for k, v in schema_scen.CHAR_CP.items()}


# ---------------------------------------------------------------------------------------------
# validation under the schema's UTF-16 pattern convention
# ---------------------------------------------------------------------------------------------


def utf16_units(s: str) -> str:
    """The string as a sequence of UTF-16 code units, one Python character per unit (surrogates stay apart)."""
    b = s.encode("utf-16-le", "surrogatepass")
    return "".join(chr(b[i] | (b[i + 1] << 8)) for i in range(0, len(b), 2))


def _pattern_utf16(validator: Any, patrn: str, instance: Any, schema: Any) -> Iterator[Any]:
    import jsonschema

    if not isinstance(instance, str):
        return
    # a UTF-16 engine sees both the pattern text and the subject as code units
    if re.search(utf16_units(patrn), utf16_units(instance)) is None:
        yield jsonschema.ValidationError("%r does not match %r (UTF-16 code units)" % (instance, patrn))


_VALIDATOR_CLS = None


def validator_for(schema: Dict[str, Any]) -> Any:
    """Draft 2019-09 validator whose `pattern` works on UTF-16 code units; min/maxLength stay in characters
    (length scenarios use BMP strings only, where both notions agree)."""
    global _VALIDATOR_CLS
    import jsonschema

    if _VALIDATOR_CLS is None:
        _VALIDATOR_CLS = jsonschema.validators.extend(jsonschema.Draft201909Validator, {"pattern": _pattern_utf16})
    return _VALIDATOR_CLS(schema)


def declared_draft_ok(schema: Dict[str, Any]) -> Optional[str]:
    """None if the schema conforms to the meta-schema of the draft it declares, else a message."""
    import jsonschema

    uri = schema.get("$schema")
    try:
        cls = jsonschema.validators.validator_for(schema, default=None)
    except Exception as ex:  # pragma: no cover
        return "no validator for %r: %s" % (uri, ex)
    if cls is None:
        return "unknown or missing $schema: %r" % (uri,)
    try:
        cls.check_schema(schema)
    except jsonschema.SchemaError as ex:
        return "schema error: %s at %s" % (ex.message[:200], list(ex.absolute_path))
    return None


def unresolved_refs(schema: Dict[str, Any]) -> List[str]:
    """Every $ref must be a local JSON pointer that resolves inside the document."""
    bad: List[str] = []

    def resolve(ptr: str) -> bool:
        if not ptr.startswith("#"):
            return False
        cur: Any = schema
        frag = ptr[1:]
        if frag == "":
            return True
        if not frag.startswith("/"):
            return False
        for part in frag[1:].split("/"):
            part = part.replace("~1", "/").replace("~0", "~")
            if isinstance(cur, dict) and part in cur:
                cur = cur[part]
            elif isinstance(cur, list) and part.isdigit() and int(part) < len(cur):
                cur = cur[int(part)]
            else:
                return False
        return True

    def walk(node: Any) -> None:
        if isinstance(node, dict):
            for k, v in node.items():
                if k == "$ref" and isinstance(v, str):
                    if not resolve(v):
                        bad.append(v)
                else:
                    walk(v)
        elif isinstance(node, list):
            for v in node:
                walk(v)

    walk(schema)
    return bad


# ---------------------------------------------------------------------------------------------
# documents
# ---------------------------------------------------------------------------------------------


def case_x(scn: Dict[str, Any], case: Dict[str, Any], types: Any) -> Any:
    if case["xnone"]:
        return None
    ch = CHAR[case["ch"]]
    kind = scn["kind"]
    if kind in ("str", "cprim"):
        return ch * case["n"]
    if kind == "bytes":
        return bytearray(b"\x00" * case["n"])
    if kind in ("list", "listcprim"):
        return [ch * case["il"] for _ in range(case["n"])]
    raise ValueError(kind)


def build_document(scn: Dict[str, Any], case: Dict[str, Any], mods: Dict[str, Any]) -> Tuple[Any, bool]:
    """(jsonable produced by the generated SDK for the instance of the case, instance satisfies all invariants)."""
    types, verification, jsonization = mods["types"], mods["verification"], mods["jsonization"]
    inst = schema_scen.make_instance(scn, types, case["k"], case_x(scn, case, types), y_none=case["ynone"])
    sdk_valid = next(iter(verification.verify(inst)), None) is None
    doc = jsonization.to_jsonable(inst)
    return doc, sdk_valid


def mutate_structurally(doc: Dict[str, Any], mut: str, scn: Dict[str, Any]) -> Optional[Dict[str, Any]]:
    """Apply a structural mutation; None when it does not apply to this document (nothing to remove)."""
    d = copy.deepcopy(doc)
    inner = d.get("inner")
    if mut == "mt_wrong":
        if not isinstance(inner, dict) or "modelType" not in inner:
            return None
        inner["modelType"] = "Something_else"
    elif mut == "mt_missing":
        if not isinstance(inner, dict) or "modelType" not in inner:
            return None
        del inner["modelType"]
    elif mut == "req_missing":
        if not isinstance(inner, dict) or "x" not in inner:
            return None
        del inner["x"]
    elif mut == "root_req_missing":
        if "inner" not in d:
            return None
        del d["inner"]
    elif mut == "mistyped":
        if not isinstance(inner, dict) or "x" not in inner:
            return None
        inner["x"] = "b" if isinstance(inner["x"], list) else 5
    else:
        raise ValueError(mut)
    return d
