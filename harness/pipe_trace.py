"""R phase of the `pipeline` group (C01 / C03 / C28): run the real CLIs in-process with stage events.

No file of the repository is edited: the module-level stage functions are wrapped at run time
(`install()`); a name that no longer exists is simply not wrapped (the trace then has a coarser grain,
which specs/PipelineTrace.tla accepts).  Every wrapper logs one event *in `finally`* (so the error path
is logged too); events are numbered per run by their position in the list (no wall clock).

A run is projected to the vocabulary of specs/Pipeline.tla:
  {"tool", "input": {"argDefect", "parses", "cache"}, "events": [EVENT...], "obs": {...}}
  EVENT = {"e": name, "x": "ok" | "exc" | "caught", "p": phase, "ids": [error ids], "ok": bool, "r": int, "n": int}
  obs   = {"rc", "lines": [line features], "tailOk", "reported": [ids], "outWritten",
           "load": "accepted" | "rejected" | "exception" | "none", "loadErrEmpty": bool}
Error ids: per run, every distinct leaf message of the error trees returned by components gets a number.
"""
from __future__ import annotations

import ast
import functools
import importlib
import io
import os
import pathlib
import re
import shutil
import signal
import sys
import tempfile
import traceback
from typing import Any, Callable, Dict, List, Optional, Sequence, Tuple

NORC = 9
COMPONENTS = ("frontend", "infer", "csverify", "cstypes", "csverification")

# phases of intermediate.translate by function-name prefix (longest prefix wins); see PipelineBase.Phases
_TRANSLATE_PREFIXES = [
    ("_determine_constrained_primitives_by_name", "ConstrainedPrimitives"),
    ("_second_pass_to_resolve_our_types_in_atomic", "ResolveA"),
    ("_second_pass_to_resolve_references_to_our_types", "ResolveA"),
    ("_second_pass_to_resolve_references_to_constants", "ResolveA"),
    ("_second_pass_to_resolve_default_argument", "ResolveA"),
    ("_second_pass_to_resolve_references_to_attributes", "AttrRefs"),
    ("_second_pass_to_resolve_interfaces", "AttrRefs"),
    ("_second_pass_to_stack_", "Stack"),
    ("_second_pass_", "ResolveB"),
    ("_verify", "Verify"),
]
_FIRST_PASS = ["_to_constrained_primitive", "_to_enumeration", "_to_class", "_to_meta_model", "_to_verification_function"]

TARGETS = ["cpp", "csharp", "golang", "java", "jsonschema", "python", "typescript", "xsd"]


class _Timeout(Exception):
    pass


class Tracer:
    def __init__(self) -> None:
        self.events: List[Dict[str, Any]] = []
        self.msgs: Dict[str, int] = {}
        self.first_exc: Optional[Dict[str, Any]] = None
        self.depth: Dict[str, int] = {}
        self.cache_load = False
        self.cache_dump = False
        self.installed: List[str] = []
        self.active = False
        self.load_result: Tuple[str, Any] = ("none", None)

    def reset(self) -> None:
        self.events = []
        self.msgs = {}
        self.first_exc = None
        self.depth = {}
        self.cache_load = False
        self.cache_dump = False

    # -- error ids ----------------------------------------------------------------------------
    def ids_of(self, ret: Any) -> Tuple[List[int], int]:
        """(ids of the leaf messages, number of top-level errors) of whatever a component returned."""
        from aas_core_codegen.common import Error

        e = ret
        if isinstance(ret, tuple) and len(ret) == 2:
            e = ret[1]
            if isinstance(e, str):  # (header, implementation) and the like: a text, not an error
                e = None
        tops: List[Any] = []
        if e is None:
            tops = []
        elif isinstance(e, Error):
            tops = [e]
        elif isinstance(e, str):  # generated code, not an error (messages come as lists of strings)
            tops = []
        elif isinstance(e, (list, tuple)):
            tops = [x for x in e if isinstance(x, (Error, str))]
        else:
            tops = []
        leaves: List[str] = []

        def walk(x: Any) -> None:
            if isinstance(x, str):
                leaves.append(x)
                return
            under = getattr(x, "underlying", None)
            if under:
                for u in under:
                    walk(u)
            else:
                leaves.append(str(getattr(x, "message", "")))

        for t in tops:
            walk(t)
        ids = []
        for m in leaves:
            if m not in self.msgs:
                self.msgs[m] = len(self.msgs) + 1
            if self.msgs[m] not in ids:
                ids.append(self.msgs[m])
        return ids, len(tops)

    def log(self, e: str, x: str = "ok", p: str = "", ids: Sequence[int] = (), ok: bool = True, r: int = 0, n: int = 0) -> None:
        self.events.append({"e": e, "x": x, "p": p, "ids": list(ids), "ok": bool(ok), "r": int(r), "n": int(n)})

    def log_exc(self, e: str, p: str, ex: BaseException, fallback: str = "") -> None:
        if self.first_exc is None:
            # no frame of the repository below the wrapper: a contract of the wrapped function itself was violated
            self.first_exc = {"stage": p or e, "exc_type": type(ex).__name__, "frame": innermost_repo_frame(ex.__traceback__) or fallback, "msg": str(ex)[:300], "site": innermost_repo_site(ex.__traceback__)}
        self.log(e, x="exc", p=p)


TR = Tracer()


def _repo_root() -> str:
    return os.environ.get("VERIF_REPO", "/repo")


def innermost_repo_frame(tb: Any) -> str:
    """'<file>:<qualified function>' of the innermost frame inside the repository (no line numbers: the
    key stays put when unrelated lines move)."""
    last = ""
    root = _repo_root().rstrip("/") + "/"
    while tb is not None:
        code = tb.tb_frame.f_code
        fn = code.co_filename
        if fn.startswith(root) and "/harness/" not in fn:
            last = "%s:%s" % (fn[len(root) :], getattr(code, "co_qualname", code.co_name))
        tb = tb.tb_next
    return last


def innermost_repo_site(tb: Any) -> str:
    last = ""
    root = _repo_root().rstrip("/") + "/"
    for f in traceback.extract_tb(tb):
        if f.filename.startswith(root) and "/harness/" not in f.filename:
            last = "%s:%d in %s" % (f.filename[len(root) :], f.lineno, f.name)
    return last


def _wrap(owner: Any, attr: str, event: str, phase: str = "", kind: str = "errors") -> None:
    """Replace owner.attr by a logging wrapper; tolerant: missing attribute -> nothing happens."""
    fn = getattr(owner, attr, None)
    if fn is None or not callable(fn) or getattr(fn, "_verif_wrapped", False):
        return

    @functools.wraps(fn)
    def wrapper(*args: Any, **kwargs: Any) -> Any:
        if not TR.active:
            return fn(*args, **kwargs)
        key = "%s.%s" % (getattr(owner, "__name__", "?"), attr)  # only recursion of the same function is nested
        TR.depth[key] = TR.depth.get(key, 0) + 1
        nested = TR.depth[key] > 1
        if kind == "enter_exit":
            TR.log(event)
        try:
            ret = fn(*args, **kwargs)
        except BaseException as ex:  # logged, re-raised: an observation of the run
            TR.depth[key] -= 1
            if not nested:
                TR.log_exc(event if kind != "enter_exit" else event + "Return", phase, ex, fallback="%s.%s (contract)" % (getattr(owner, "__name__", "?"), attr))
            raise
        TR.depth[key] -= 1
        if nested:
            return ret
        if kind == "errors":
            ids, n = TR.ids_of(ret)
            TR.log(event, p=phase, ids=ids, ok=(n == 0), n=n)
        elif kind == "parse":
            ok = isinstance(ret, tuple) and len(ret) == 2 and ret[1] is None
            syntax = (not ok) and isinstance(ret[1], SyntaxError)
            TR.log(event, ok=ok, r=1 if syntax else 0)
        elif kind == "enter_exit":  # run.load_model
            accepted = isinstance(ret, tuple) and len(ret) == 2 and ret[1] is None and ret[0] is not None
            err = ret[1] if isinstance(ret, tuple) and len(ret) == 2 else None
            TR.load_result = ("accepted" if accepted else "rejected", err)
            TR.log(event + "Return", ok=accepted)
        elif kind == "rc":
            TR.log(event, r=ret if isinstance(ret, int) else NORC, ok=(ret == 0))
        elif kind == "report":
            errors = kwargs.get("errors", args[1] if len(args) > 1 else [])
            TR.log(event, n=len(list(errors)))
        elif kind == "plain":
            TR.log(event)
        return ret

    wrapper._verif_wrapped = True  # type: ignore[attr-defined]
    setattr(owner, attr, wrapper)
    TR.installed.append("%s.%s" % (getattr(owner, "__name__", owner), attr))


class _PickleProxy:
    """Stands for the `pickle` module inside aas_core_codegen.run: notes cache reads / writes."""

    def __init__(self, real: Any) -> None:
        self._real = real

    def __getattr__(self, name: str) -> Any:
        return getattr(self._real, name)

    def load(self, *a: Any, **k: Any) -> Any:
        if TR.active:
            TR.cache_load = True
        return self._real.load(*a, **k)

    def dump(self, *a: Any, **k: Any) -> Any:
        if TR.active:
            TR.cache_dump = True
            TR.log("CacheWrite")
        return self._real.dump(*a, **k)


def _try_import(name: str) -> Any:
    try:
        return importlib.import_module(name)
    except Exception:
        return None


def install() -> List[str]:
    """Wrap the stage functions of the working tree under test. Idempotent."""
    if TR.installed:
        return TR.installed
    parse = _try_import("aas_core_codegen.parse")
    intermediate = _try_import("aas_core_codegen.intermediate")
    itr = _try_import("aas_core_codegen.intermediate._translate")
    hier = _try_import("aas_core_codegen.intermediate._hierarchy")
    constr = _try_import("aas_core_codegen.intermediate.construction")
    run = _try_import("aas_core_codegen.run")
    spec = _try_import("aas_core_codegen.specific_implementations")
    common = _try_import("aas_core_codegen.common")
    infer = _try_import("aas_core_codegen.infer_for_schema")
    smoke = _try_import("aas_core_codegen.smoke.main")
    main = _try_import("aas_core_codegen.main")

    # front end
    if parse is not None:
        _wrap(parse, "source_to_atok", "ParsePy", kind="parse")
        _wrap(parse, "check_expected_imports", "CheckImports")
        _wrap(parse, "atok_to_symbol_table", "ToSymbolTable")
    if itr is not None:
        for name in sorted(dir(itr)):
            if name in _FIRST_PASS:
                _wrap(itr, name, "Phase", phase="FirstPass")
            elif name == "_to_constant":
                _wrap(itr, name, "Phase", phase="Constants")
            else:
                for prefix, phase in _TRANSLATE_PREFIXES:
                    if name.startswith(prefix):
                        _wrap(itr, name, "Phase", phase=phase)
                        break
    if hier is not None:
        _wrap(hier, "map_symbol_table_to_ontology", "Phase", phase="Ontology")
    if constr is not None:
        _wrap(constr, "understand_all", "Phase", phase="Constructors")
    if intermediate is not None:
        _wrap(intermediate, "translate", "Translate")
        if itr is not None and getattr(itr, "translate", None) is not getattr(intermediate, "translate", None):
            pass
    if run is not None:
        _wrap(run, "load_model", "LoadModel", kind="enter_exit")
        _wrap(run, "write_error_report", "Report", kind="report")
        if hasattr(run, "pickle") and not isinstance(run.pickle, _PickleProxy):
            run.pickle = _PickleProxy(run.pickle)
    if spec is not None:
        _wrap(spec, "read_from_directory", "ReadSnippets")
    if common is not None and hasattr(common, "LinenoColumner"):
        _wrap(common.LinenoColumner, "error_message", "ErrorMessage", kind="plain")
    # smoke
    if infer is not None:
        _wrap(infer, "infer_constraints_by_class", "Infer")
    cslib = _try_import("aas_core_codegen.csharp.lib")
    if smoke is not None:
        _wrap(smoke, "_smoke_transpile_to_csharp", "CsReport", kind="plain")
    # targets
    for t in TARGETS:
        lib = _try_import("aas_core_codegen.%s.lib" % t)
        tmain = _try_import("aas_core_codegen.%s.main" % t)
        if lib is not None:
            if t == "csharp":
                # the same functions serve the smoke tool: the event name is decided at run time
                _wrap(lib, "verify_for_types", "CsOrTargetVerify")
                _wrap(lib, "generate_types", "CsOrTargetTypes")
                _wrap(lib, "generate_verification", "CsOrTargetVerification")
            else:
                _wrap(lib, "verify_for_types", "TargetVerify")
            for name in sorted(dir(lib)):
                if name.startswith("generate") or name.startswith("verify_for_"):
                    _wrap(lib, name, "TargetGenerate" if name.startswith("generate") else "TargetVerify")
        if tmain is not None:
            for name in ("generate", "_generate"):
                _wrap(tmain, name, "TargetGenerate")
            _wrap(tmain, "execute", "TargetReturn", kind="rc")
    return TR.installed


# ---------------------------------------------------------------------------------------------
# projections
# ---------------------------------------------------------------------------------------------


def line_features(text: str) -> List[Dict[str, Any]]:
    out = []
    lines = text.split("\n")
    if lines and lines[-1] == "":
        lines = lines[:-1]
    for ln in lines:
        out.append(
            {
                "len": len(ln),
                "c1": ord(ln[0]) if len(ln) > 0 else 0,
                "c2": ord(ln[1]) if len(ln) > 1 else 0,
                "last": ord(ln[-1]) if ln else 0,
                "indent": len(ln) - len(ln.lstrip(" ")),
                "blank": ln.strip() == "",
            }
        )
    return out


def _flat(text: str) -> str:
    return "\n".join(ln.strip() for ln in text.split("\n"))


def reported_ids(msgs: Dict[str, int], stderr: str) -> List[int]:
    """Ids of the messages that occur in stderr (modulo the indentation write_error_report adds)."""
    flat = _flat(stderr)
    return sorted(i for m, i in msgs.items() if _flat(m).strip() and _flat(m).strip() in flat)


def parses_as_python(text: str) -> bool:
    try:
        ast.parse(text)
        return True
    except BaseException:
        return False


def _finish_events(tool: str, exc: Optional[BaseException], rc: Any) -> List[Dict[str, Any]]:
    events = TR.events
    # csharp lib functions: smoke stages or target stages
    ren = {
        "main": {"CsOrTargetVerify": "TargetVerify", "CsOrTargetTypes": "TargetGenerate", "CsOrTargetVerification": "TargetGenerate", "Infer": "TargetGenerate"},
        "smoke": {"CsOrTargetVerify": "CsVerify", "CsOrTargetTypes": "CsTypes", "CsOrTargetVerification": "CsVerification"},
    }[tool]
    for ev in events:
        ev["e"] = ren.get(ev["e"], ev["e"])
    # consecutive phase events that found nothing carry no information beyond the first of each phase
    # (the first phase event of the run is kept so that the translate stage is visible in every trace)
    compressed: List[Dict[str, Any]] = []
    seen_phase = False
    for ev in events:
        if ev["x"] == "ok" and ev["e"] == "ErrorMessage":
            continue
        if ev["e"] == "Phase" and ev["x"] == "ok" and not ev["ids"]:
            if seen_phase:
                continue
            seen_phase = True
        compressed.append(ev)
    TR.events = events = compressed
    if exc is None:
        for ev in events:
            if ev["x"] == "exc":
                ev["x"] = "caught"  # the exception did not leave the run
        TR.log("Exit", r=rc if isinstance(rc, int) else NORC)
    else:
        TR.log_exc("Exit", "", exc)
    return TR.events


def _with_alarm(seconds: int, fn: Callable[[], Any]) -> Any:
    def handler(signum: int, frame: Any) -> None:
        raise _Timeout("run exceeded %d s" % seconds)

    old = signal.signal(signal.SIGALRM, handler)
    signal.alarm(seconds)
    try:
        return fn()
    finally:
        signal.alarm(0)
        signal.signal(signal.SIGALRM, old)


def _listing(d: pathlib.Path) -> set:
    if not d.is_dir():
        return set()
    return {str(p.relative_to(d)) for p in d.rglob("*")}


def _run_as_module(model_path: pathlib.Path, snippets_dir: pathlib.Path, output_dir: pathlib.Path, target: str, out: Any, err: Any) -> int:
    import contextlib
    import runpy

    argv = ["aas_core_codegen", "--model_path", str(model_path), "--snippets_dir", str(snippets_dir), "--output_dir", str(output_dir), "--target", target]
    old_argv = sys.argv
    sys.argv = argv
    try:
        with contextlib.redirect_stdout(out), contextlib.redirect_stderr(err):
            try:
                runpy.run_module("aas_core_codegen", run_name="__main__", alter_sys=True)
            except SystemExit as ex:
                code = ex.code
                return 0 if code is None else (code if isinstance(code, int) else 1)
        return 0
    finally:
        sys.argv = old_argv


def run_main(
    model_path: pathlib.Path,
    snippets_dir: pathlib.Path,
    output_dir: pathlib.Path,
    target: str,
    text: Optional[str],
    arg_defect: str = "none",
    timeout: int = 3000,
    cache_flag: bool = False,
    via_module: bool = False,
) -> Dict[str, Any]:
    """One traced run of main.execute. `text` is the model text when the model path is a regular file."""
    from aas_core_codegen import main as cg_main

    install()
    TR.reset()
    TR.load_result = ("none", None)
    out, err = io.StringIO(), io.StringIO()
    params = cg_main.Parameters(model_path=model_path, target=cg_main.Target(target), snippets_dir=snippets_dir, output_dir=output_dir, cache_model=cache_flag)
    exc: Optional[BaseException] = None
    rc: Any = NORC
    before = _listing(output_dir)
    TR.log("CheckArgs")  # the basic checks of main.execute are inline code: the event is synthesized
    TR.active = True
    try:
        if via_module:
            # ``python -m aas_core_codegen``: the package's __main__ run as a script; the exit status is the
            # one the interpreter would report (SystemExit code, 0 when the module simply ends)
            rc = _with_alarm(timeout, lambda: _run_as_module(model_path, snippets_dir, output_dir, target, out, err))
        else:
            rc = _with_alarm(timeout, lambda: cg_main.execute(params, stdout=out, stderr=err))
    except Exception as ex:  # observation
        exc = ex
    finally:
        TR.active = False
    events = _finish_events("main", exc, rc)
    stderr, stdout = err.getvalue(), out.getvalue()
    load, load_err = TR.load_result
    if any(ev["e"] == "LoadModelReturn" and ev["x"] == "exc" for ev in events):
        load = "exception"
    # cache mode as the run experienced it: a stored table was read / the lookup missed / caching is off
    if load == "none":
        cache = "off"
    elif TR.cache_load and not any(ev["e"] == "ParsePy" for ev in events):
        cache = "hit"
    elif TR.cache_dump or (bool(getattr(params, "cache_model", False)) and load != "accepted"):
        cache = "miss"
    else:
        cache = "off"
    so_lines = stdout.split("\n")
    tail_ok = len(so_lines) >= 2 and so_lines[-1] == "" and so_lines[-2] == "Code generated to: %s" % output_dir
    out_written = len(_listing(output_dir) - before) > 0
    return {
        "tool": "main",
        "input": {"argDefect": arg_defect, "parses": bool(text is not None and parses_as_python(text)), "cache": cache},
        "events": events,
        "obs": {
            "rc": rc if (exc is None and isinstance(rc, int)) else NORC,
            "lines": line_features(stderr),
            "tailOk": bool(tail_ok),
            "reported": reported_ids(TR.msgs, stderr),
            "outWritten": bool(out_written),
            "load": load,
            "loadErrEmpty": bool(load == "rejected" and not (isinstance(load_err, str) and load_err.strip())),
            "indep": {c: "notrun" for c in COMPONENTS},
            "hasRecorded": False,
            "recGot": [],
            "recWant": [],
            "hasPair": False,
            "pairExpected": [],
            "pairFound": [],
        },
        "_exc": TR.first_exc if exc is not None else None,
        "_stderr": stderr,
        "_stdout": stdout,
        "_msgs": dict(TR.msgs),
    }


def run_smoke(model_path: pathlib.Path, text: str, timeout: int = 3000) -> Dict[str, Any]:
    from aas_core_codegen.smoke import main as smoke_main

    install()
    TR.reset()
    TR.load_result = ("none", None)
    err = io.StringIO()
    exc: Optional[BaseException] = None
    rc: Any = NORC
    TR.active = True
    try:
        rc = _with_alarm(timeout, lambda: smoke_main.execute(model_path=model_path, stderr=err))
    except Exception as ex:
        exc = ex
    finally:
        TR.active = False
    events = _finish_events("smoke", exc, rc)
    stderr = err.getvalue()
    return {
        "tool": "smoke",
        "input": {"argDefect": "none", "parses": parses_as_python(text), "cache": "off"},
        "events": events,
        "obs": {
            "rc": rc if (exc is None and isinstance(rc, int)) else NORC,
            "lines": line_features(stderr),
            "tailOk": False,
            "reported": reported_ids(TR.msgs, stderr),
            "outWritten": False,
            "load": "none",
            "loadErrEmpty": False,
            "indep": {c: "notrun" for c in COMPONENTS},
            "hasRecorded": False,
            "recGot": [],
            "recWant": [],
            "hasPair": False,
            "pairExpected": [],
            "pairFound": [],
        },
        "_exc": TR.first_exc if exc is not None else None,
        "_stderr": stderr,
        "_stdout": "",
        "_msgs": dict(TR.msgs),
    }


# ---------------------------------------------------------------------------------------------
# one case = one scratch directory
# ---------------------------------------------------------------------------------------------


def clear_model_cache() -> None:
    tmp = pathlib.Path(tempfile.gettempdir())
    for d in tmp.glob("aas-core-codegen-*"):
        shutil.rmtree(d, ignore_errors=True)


def public(trace: Dict[str, Any]) -> Dict[str, Any]:
    """The part of a trace handed to TLC."""
    return {k: v for k, v in trace.items() if not k.startswith("_")}
