"""R phase of C02: render every case, run the front end, all eight targets and the smoke tool, project the runs.

usage: python -m harness.run_c02 <cases.json> <obs.json> <scratch dir> [nproc]
cases: [{"text": str (optional), "model": abstract model (optional), "needs_snippets": bool,
         "snippets": {target: {key: text}} (optional, recorded snippets for code->spec cases), "root_class": str?,
         "targets": [..] (optional restriction), "smoke": bool (default true)}]
obs:   one record per (case, target, mode) run + one "front" record per case (see GenTrace.tla).
"""
import json
import multiprocessing
import os
import pathlib
import sys
import tempfile
import time

from harness import core, genlib, mm


def _init(scratch: str) -> None:
    # private TMPDIR per worker: the pinned tree caches the parsed model on every run
    d = pathlib.Path(scratch) / ("tmp-%d" % os.getpid())
    d.mkdir(parents=True, exist_ok=True)
    os.environ["TMPDIR"] = str(d)
    tempfile.tempdir = None


def _one(args):
    idx, case, scratch = args
    t0 = time.time()
    text = case.get("text")
    if text is None:
        text = genlib.render(case["model"])
    sc = pathlib.Path(scratch) / ("w-%d" % os.getpid())
    recs = []
    try:
        if case.get("snippets"):
            # code -> spec case with recorded snippets per target
            # The repository's own meta-models are accepted by construction (the pinned tests generate from them);
            # loading them once more just to learn that costs as much as the run itself for aas_core_meta.v3.
            # Should a change make the front end refuse one, the run ends as "reported", which the contract allows.
            sc.mkdir(parents=True, exist_ok=True)
            mp = sc / "meta_model.py"
            mp.write_text(text, encoding="utf-8")
            front = "accepted"
            res = {"front": front, "front_error": "", "front_exc": None, "runs": []}
            if front == "accepted":
                for t in case.get("targets") or genlib.TARGETS:
                    sn = case["snippets"].get(t)
                    if sn is None:
                        sn = mm.default_snippets(t, root_class=case.get("root_class", "Something"))
                    r = genlib.generate_once(mp, t, sn, sc / t)
                    r["mode"] = "recorded"
                    res["runs"].append(r)
                if case.get("smoke", True):
                    r = genlib.smoke_once(mp)
                    r["mode"] = "defaults"
                    res["runs"].append(r)
        else:
            res = genlib.run_everything(
                text,
                sc,
                with_snippets=bool(case.get("needs_snippets")),
                targets=case.get("targets") or genlib.TARGETS,
                smoke=case.get("smoke", True),
                root_class=case.get("root_class", "Something"),
            )
    except Exception as ex:  # harness problem: reported as machinery failure by the orchestrator
        import traceback

        return idx, [{"case": idx, "kind": "harness_error", "detail": traceback.format_exc()[-1500:]}], text, time.time() - t0
    recs.append(
        {
            "case": idx,
            "kind": "front",
            "front": res["front"],
            "front_error": res["front_error"][:300],
            "front_exc_type": (res["front_exc"] or {}).get("type", ""),
            "front_exc_site": (res["front_exc"] or {}).get("site", ""),
        }
    )
    for r in res["runs"]:
        r = dict(r)
        r["case"] = idx
        r["kind"] = "run"
        recs.append(r)
    return idx, recs, text, time.time() - t0


def main() -> None:
    cases_path, out_path, scratch = sys.argv[1], sys.argv[2], sys.argv[3]
    nproc = int(sys.argv[4]) if len(sys.argv) > 4 else 8
    core.assert_repo_bound()
    cases = json.load(open(cases_path))
    pathlib.Path(scratch).mkdir(parents=True, exist_ok=True)
    jobs = [(i, c, scratch) for i, c in enumerate(cases)]
    # long jobs first (the repository's own meta-models, then the cases that need snippet discovery)
    jobs.sort(key=lambda j: (0 if j[1].get("snippets") else 1 if j[1].get("needs_snippets") else 2, -len(j[1].get("text") or ""), j[0]))
    obs = []
    texts = {}
    times = []
    if nproc <= 1:
        _init(scratch)
        results = map(_one, jobs)
    else:
        pool = multiprocessing.Pool(nproc, initializer=_init, initargs=(scratch,))
        results = pool.imap_unordered(_one, jobs, chunksize=1)
    for idx, recs, text, dt in results:
        obs.extend(recs)
        texts[idx] = text
        times.append(dt)
    if nproc > 1:
        pool.close()
        pool.join()
    obs.sort(key=lambda r: (r["case"], r.get("kind") != "front", r.get("target", ""), r.get("mode", "")))
    json.dump({"obs": obs, "texts": [texts[i] for i in range(len(cases))], "cpu_s": round(sum(times), 2)}, open(out_path, "w"))


if __name__ == "__main__":
    main()
