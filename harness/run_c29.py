"""R phase of C29: traversal, dispatch and accessors of the generated ``types`` module.

argv: models.json instances.json out.json scratch_dir
One record per instance graph; per node of the graph what descend_once / descend / accept / transform / over_X_or_empty /
X_or_default did, with object identities projected to paths from the root.
"""
from __future__ import annotations

import json
import pathlib
import sys
from typing import Any, Dict, List

from harness import core
from harness import sdk_common as sc

UNKNOWN = [["?", 0]]


def make_recorder(base: type, prefix: str, log: List[Any], with_context: bool, result: Any = None) -> Any:
    """A subclass of an Abstract* visitor / transformer that overrides every ``<prefix>_...`` method by a recorder."""
    ns: Dict[str, Any] = {}
    for name in dir(base):
        if not name.startswith(prefix + "_"):
            continue
        if with_context != name.endswith("_with_context"):
            continue

        def method(self, that, *ctx, _name=name):  # type: ignore
            log.append((_name, that, ctx))
            return result

        ns[name] = method
    return type("Recorder", (base,), ns)


def generate_shadow(model: sc.Model, scratch: pathlib.Path) -> str:
    """Generate (and discard) an SDK for the shadow of the model: classes -> constrained primitives of the same name."""
    from harness import mm

    parts = [mm.HEADER]
    for e in model.raw["enums"]:
        parts.append("class %s(Enum):\n" % e["name"]["src"] + "".join("    %s = %s\n" % (l["name"]["src"], sc.pystr(sc.s_of(l["val"]))) for l in e["lits"]))
    root = model.root
    for c in model.raw["classes"]:
        if c["name"]["src"] != root:
            parts.append("class %s(str, DBC):\n    pass\n" % c["name"]["src"])
    props: Dict[str, str] = {}
    for c in model.raw["classes"]:
        for p in c["props"]:
            t = sc.type_text(p["type"])
            if root in t:
                continue
            props.setdefault(p["name"]["src"], "Optional[%s]" % t)
    body = "class %s(DBC):\n" % root + "".join("    %s: %s\n" % kv for kv in props.items())
    body += "\n    def __init__(self, %s) -> None:\n" % ", ".join("%s: %s = None" % kv for kv in props.items())
    body += "".join("        self.%s = %s\n" % (k, k) for k in props) or "        pass\n"
    parts.append(body)
    parts.append('__version__ = "V1"\n__xml_namespace__ = %s\n' % sc.pystr(sc.NAMESPACE))
    res = mm.generate_python_sdk("\n\n".join(parts), scratch)
    mm.drop_sdk(res)
    return "generated" if res["rc"] == 0 else "refused"


def main() -> None:
    models_p, inst_p, out_p, scratch = sys.argv[1:5]
    core.assert_repo_bound()
    models = json.load(open(models_p))
    instances = json.load(open(inst_p))
    by_model: Dict[int, List[Dict[str, Any]]] = {}
    for c in instances:
        by_model.setdefault(c["mi"], []).append(c)
    out: List[Dict[str, Any]] = []
    for entry in models:
        mi = entry["mi"]
        cases = by_model.get(mi, [])
        if not cases:
            continue
        model = sc.Model(entry["raw"])
        # A generator may keep state between two generations in one process.  Before the model proper, a *shadow* of it is
        # generated in this very process: the same property names and type names, but every class of the model is a constrained
        # primitive there (same name, another kind).  Whatever is cached by names must not leak into the SDK under test.
        shadow_outcome = generate_shadow(model, pathlib.Path(scratch) / ("shadow%d" % mi))
        # in two of the hierarchies the class Leaf is implementation-specific (emitted from its snippet, which is the class as
        # the generator writes it): traversal and dispatch must not depend on where the text of a class comes from
        impl = ["Leaf"] if model.id in ("hier", "diamond") else []
        sdk = sc.Sdk(model, pathlib.Path(scratch) / ("m%d" % mi), impl=impl, need=["types"])
        for c in cases:
            rec: Dict[str, Any] = {"mi": mi, "pa": entry["pa"], "pb": entry["pb"], "mid": model.id, "x": c["x"], "sdk": sdk.ok, "built": False, "nodes": [], "walk": [], "detail": "", "shadow": shadow_outcome}
            out.append(rec)
            if not sdk.ok:
                rec["detail"] = sdk.why_not_ok()[:400]
                continue
            T = sdk.types
            nodes: Dict[int, List[Any]] = {}
            try:
                root = sdk.build(c["x"], nodes, [])
                rec["built"] = True
            except Exception as ex:
                rec["detail"] = "build: " + sc.exc_text(ex)
                continue
            by_path = {json.dumps(p): oid for oid, p in nodes.items()}
            objs: Dict[int, Any] = {}

            def collect(o: Any) -> None:
                if isinstance(o, T.Class):
                    objs[id(o)] = o
                    for v in vars(o).values():
                        collect(v)
                elif isinstance(o, list):
                    for v in o:
                        collect(v)

            collect(root)
            path_of = lambda o: nodes.get(id(o), UNKNOWN)  # noqa: E731
            notes: List[str] = []
            # nodes in the harness's own order of construction-independent listing: sort by pre-order of the abstract value is the
            # spec's job; here: order of paths as built (depth-first over fields = pre-order), recomputed from the value
            ordered: List[List[Any]] = []

            def walk_value(v: Dict[str, Any], path: List[Any]) -> None:
                ordered.append(path)
                for f in v["fields"]:
                    fv = f["v"]
                    if fv["k"] == "inst":
                        walk_value(fv, path + [[f["n"], 0]])
                    elif fv["k"] == "list":
                        for j, item in enumerate(fv["items"]):
                            if item["k"] == "inst":
                                walk_value(item, path + [[f["n"], j + 1]])

            walk_value(c["x"], [])
            for path in ordered:
                oid = by_path.get(json.dumps(path))
                node: Dict[str, Any] = {"path": path, "cls": "?", "once": [], "all": [], "visit": [], "visit_ctx": [], "transform": [], "transform_ctx": [], "passes": False, "over": [], "ordefault": []}
                rec["nodes"].append(node)
                if oid is None:
                    continue
                o = objs.get(oid)
                if o is None:
                    continue
                cls_src = sdk.src_by_cls.get(type(o), "?")
                node["cls"] = cls_src
                try:
                    node["once"] = [path_of(k) for k in o.descend_once()]
                    node["all"] = [path_of(k) for k in o.descend()]
                    passes = True
                    # visitor
                    log: List[Any] = []
                    o.accept(make_recorder(T.AbstractVisitor, "visit", log, False)())
                    node["visit"] = [e[0] for e in log]
                    passes = passes and all(e[1] is o for e in log)
                    ctx = object()
                    log = []
                    o.accept_with_context(make_recorder(T.AbstractVisitorWithContext, "visit", log, True)(), ctx)
                    node["visit_ctx"] = [e[0] for e in log]
                    passes = passes and all(e[1] is o and len(e[2]) == 1 and e[2][0] is ctx for e in log)
                    token = object()
                    log = []
                    got = o.transform(make_recorder(T.AbstractTransformer, "transform", log, False, token)())
                    node["transform"] = [e[0] for e in log]
                    passes = passes and got is token and all(e[1] is o for e in log)
                    log = []
                    got = o.transform_with_context(make_recorder(T.AbstractTransformerWithContext, "transform", log, True, token)(), ctx)
                    node["transform_ctx"] = [e[0] for e in log]
                    passes = passes and got is token and all(e[1] is o and len(e[2]) == 1 and e[2][0] is ctx for e in log)
                    node["passes"] = passes
                    # accessors
                    if cls_src in model.classes:
                        for p in model.all_props(cls_src):
                            if p["opt"] and p["type"]["t"] == "list":
                                name = "over_%s_or_empty" % sdk.pn.property_name(sdk.Identifier(p["name"]["src"]))
                                acc = getattr(o, name, None)
                                if acc is None:
                                    node["over"].append({"prop": p["name"]["src"], "missing": True, "items": []})
                                else:
                                    items = []
                                    for it in acc():
                                        items.append({"k": "path", "path": path_of(it)} if isinstance(it, T.Class) else sdk.project(it))
                                    node["over"].append({"prop": p["name"]["src"], "missing": False, "items": items})
                        for d in model.all_defaults(cls_src):
                            name = sdk.pn.method_name(sdk.Identifier("%s_or_default" % d["prop"]))
                            acc = getattr(o, name, None)
                            if acc is None:
                                node["ordefault"].append({"prop": d["prop"], "missing": True, "v": sc.VNONE})
                            else:
                                node["ordefault"].append({"prop": d["prop"], "missing": False, "v": sdk.project(acc())})
                except Exception as ex:  # an observation
                    notes.append("%s at %s: %s" % (cls_src, path, sc.exc_text(ex)))
            # a pass-through visitor from the root
            try:
                wlog: List[Any] = []
                ns: Dict[str, Any] = {}
                for name in dir(T.PassThroughVisitor):
                    if name.startswith("visit_"):

                        def method(self, that, _name=name):  # type: ignore
                            wlog.append({"path": path_of(that), "method": _name})
                            return getattr(T.PassThroughVisitor, _name)(self, that)

                        ns[name] = method
                type("Walker", (T.PassThroughVisitor,), ns)().visit(root)
                rec["walk"] = wlog
            except Exception as ex:
                notes.append("pass-through: " + sc.exc_text(ex))
            rec["detail"] = " ; ".join(notes)[:500]
        sdk.drop()
    json.dump(out, open(out_p, "w"))


if __name__ == "__main__":
    main()
