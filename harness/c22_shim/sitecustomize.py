"""Loaded by the interpreter at start-up when /verif/harness/c22_shim is on PYTHONPATH (C22 only).

Two observation/perturbation points around the *unmodified* command line of aas_core_codegen:
  VERIF_AUDIT_LOG + VERIF_AUDIT_ROOT : append every path below ROOT that is opened for writing to LOG
  VERIF_GLOB_ORDER = natural | reversed | shuffled(:seed) : the order in which pathlib.Path.glob lists its results
Nothing happens when the variables are not set.
"""
import os
import sys

_log = os.environ.get("VERIF_AUDIT_LOG")
_root = os.environ.get("VERIF_AUDIT_ROOT")
if _log and _root:
    _root = os.path.join(_root, "")

    def _hook(event, args):
        if event != "open":
            return
        try:
            path, mode = args[0], args[1]
            if isinstance(mode, str) and any(c in mode for c in "wxa+") and isinstance(path, (str, os.PathLike)):
                p = os.fspath(path)
                if isinstance(p, str) and p.startswith(_root):
                    fd = os.open(_log, os.O_WRONLY | os.O_APPEND | os.O_CREAT, 0o644)
                    try:
                        os.write(fd, (p[len(_root):] + "\n").encode("utf-8"))
                    finally:
                        os.close(fd)
        except Exception:
            pass

    sys.addaudithook(_hook)

_order = os.environ.get("VERIF_GLOB_ORDER", "")
if _order and _order != "natural":
    import pathlib
    import random

    _orig_glob = pathlib.Path.glob

    def _glob(self, *a, **kw):
        items = sorted(_orig_glob(self, *a, **kw))
        if _order.startswith("reversed"):
            items.reverse()
        elif _order.startswith("shuffled"):
            seed = int(_order.split(":")[1]) if ":" in _order else 7
            random.Random(seed).shuffle(items)
        return iter(items)

    pathlib.Path.glob = _glob  # type: ignore[method-assign]
