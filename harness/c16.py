"""C16 — regex front end is total and faithful.

G: RegexGen (regex trees by family, with canonical / alternative concrete syntax and boundary alphabet) and
   RegexTokGen (near-miss token sequences), both enumerated by TLC; plus the repository's own pattern corpus.
R: harness.run_c16 (retree.parse / render / parse(render), Python `re` on text and rendering).
V: RegexTrace (one invariant per clause; languages decided by the declarative matcher of Regex.tla).
S: S_OracleAgreesWithRe (Python `re` reads RenderSpec(tree) as Regex.tla reads the tree) — a failure is exit 2.
"""
import concurrent.futures
import json
import os
import pathlib
import random
import re

from harness import core
from harness import regex_orch as ro

EMPTY_TREE = {"k": "alt", "cats": []}


def corpus_texts():
    """code -> spec inputs: the patterns recorded in the repository's own test data."""
    texts = set()
    td = core.REPO / "dev" / "test_data"
    for p in sorted(td.glob("intermediate_revm/**/pattern.regex")):
        texts.add(p.read_text(encoding="utf-8"))
    for p in sorted(td.glob("parse_retree/**/rendered_regex.txt")):
        t = p.read_text(encoding="utf-8").rstrip("\n")
        if "<formatted value>" not in t:  # placeholders of f-string parts are not pattern text
            texts.add(t)
    for p in sorted(td.glob("main/jsonschema/expected/*/expected_output/schema.json")):
        try:
            doc = json.loads(p.read_text(encoding="utf-8"))
        except Exception:
            continue
        stack = [doc]
        while stack:
            x = stack.pop()
            if isinstance(x, dict):
                if isinstance(x.get("pattern"), str):
                    texts.add(x["pattern"])
                stack.extend(x.values())
            elif isinstance(x, list):
                stack.extend(x)
    return sorted(t for t in texts if len(t) < 1500)


def corpus_alphabet(text: str):
    letters = []
    for ch in text:
        if ch.isalnum() and ord(ch) not in letters and ord(ch) != 122:
            letters.append(ord(ch))
        if len(letters) == 3:
            break
    return sorted(letters + [122])


def main() -> int:
    ck = core.Check("C16", "model_checking")
    rnd = random.Random(ck.seed)
    suffix = "" if ck.quick else "_thorough"
    replay = os.environ.get("VERIF_REPLAY")
    if replay:
        cases = [core.read_json(pathlib.Path(replay))["case"]]
        n_tree = n_tok = n_corpus = 0
    else:
        with concurrent.futures.ThreadPoolExecutor(max_workers=2) as ex:
            f_trees = ex.submit(ro.generate, ck, "RegexGen", "RegexGen%s.cfg" % suffix, "G: regex trees by family, with concrete syntax and boundary alphabet", "trees")
            f_toks = ex.submit(ro.generate, ck, "RegexTokGen", "RegexTokGen%s.cfg" % suffix, "G: near-miss token sequences", "toks")
            trees, toks = f_trees.result(), f_toks.result()
        cases = []
        for c in trees:
            cases.append({"src": "tree:" + c["fam"], "has_tree": True, "tree": c["tree"], "text": c["text"], "alpha": c["alpha"], "maxlen": c["maxlen"], "smax": min(3, c["maxlen"])})
        n_tree = len(cases)
        for c in toks:
            cases.append({"src": "tokens", "has_tree": False, "tree": EMPTY_TREE, "text": c["text"], "alpha": c["alpha"], "maxlen": c["maxlen"], "smax": min(2, c["maxlen"])})
        n_tok = len(cases) - n_tree
        for t in corpus_texts():
            cases.append({"src": "corpus", "has_tree": False, "tree": EMPTY_TREE, "text": core.cps(t), "alpha": corpus_alphabet(t), "maxlen": 3, "smax": 2})
        n_corpus = len(cases) - n_tree - n_tok
    # distinct inputs only: one case per pattern text (the first one wins: generated trees before tokens / corpus)
    seen_texts = set()
    distinct = []
    for c in cases:
        t = tuple(c["text"])
        if t not in seen_texts:
            seen_texts.add(t)
            distinct.append(c)
    n_dropped = len(cases) - len(distinct)
    cases = distinct
    cases_p = ck.work / "cases.json"
    core.write_json(cases_p, cases)
    obs_p = ck.work / "obs.json"
    ck.impl("harness.run_c16", [str(cases_p), str(obs_p)], timeout=1500)
    obs = core.read_json(obs_p)
    if len(obs) != len(cases):
        raise core.MachineryFailure("runner returned %d observations for %d cases" % (len(obs), len(cases)))
    violations, counters = ro.validate(ck, "RegexTrace", None, obs, "V: observed parse/render/reparse satisfy the clauses of C16")
    oracle = [v for v in violations if v["invariant"].startswith("S_")]
    if oracle:
        o = obs[oracle[0]["n"]]
        raise core.MachineryFailure("oracle self-check failed (Regex.tla vs Python re) on %r: %d case(s)" % (core.from_cps(o["text"]), len(oracle)))
    for v in violations:
        o = obs[v["n"]]
        text = core.from_cps(o["text"])
        key = {"clause": v["invariant"], "culprit": v["culprit"]}
        observation = {k: o[k] for k in ("outcome", "positioned", "exc", "render", "render_exc", "render_compiles", "reparse", "reparse_exc")}
        observation["render_text"] = core.from_cps(o["render_text"])
        ck.violation(key, v["invariant"], cases[v["n"]], observation, detail="pattern=%r outcome=%s %s rendering=%r reparse=%s" % (text, o["outcome"], o["exc"]["msg"][:80], observation["render_text"], o["reparse"]))
    by_key = {}
    for v in violations:
        k = "%s / %s" % (v["invariant"], v["culprit"])
        by_key.setdefault(k, [0, core.from_cps(obs[v["n"]]["text"])])
        by_key[k][0] += 1
    ck.notes += ["violating cases by key: %s: %d (e.g. %r)" % (k, n, ex) for k, (n, ex) in sorted(by_key.items())]
    n_parsed = sum(c[1] for c in counters)
    n_error = sum(c[2] for c in counters)
    n_exc = sum(c[3] for c in counters)
    n_nontrivial = sum(c[4] for c in counters)
    ck.cov["evaluations"] = len(obs)
    ck.cov["traces_validated_against_impl"] = len(obs)
    ck.cov["distinct_nontrivial"] = n_nontrivial
    ck.cov["rule"] = (
        "G: %d (tree, concrete syntax) cases from TLC-enumerated families F1..F6 of RegexGen.tla + %d near-miss texts (all token sequences of RegexTokGen.tla) "
        "+ %d patterns recorded in dev/test_data; observed: %d parsed, %d positioned errors, %d escaped exceptions; non-trivial = pattern parsed, its rendering "
        "compiles in Python re and matches at least one of the case's strings (all strings of length <= maxlen over the boundary alphabet)" % (n_tree, n_tok, n_corpus, n_parsed, n_error, n_exc)
    )
    ck.cov["rule"] += "; %d generated cases whose pattern text was already present were dropped before running (distinct texts only)" % n_dropped
    ck.cov["exhaustive"] = True
    pick = [obs[k] for k in (0, len(obs) // 3, len(obs) - 1)] if len(obs) >= 3 else obs
    ck.cov["samples"] = [{"src": o["src"], "pattern": core.from_cps(o["text"]), "outcome": o["outcome"], "rendering": core.from_cps(o["render_text"]), "reparse": o["reparse"], "alphabet": o["alpha"], "maxlen": o["maxlen"], "fully_matched_by_rendering": len(o["re_render_full"])} for o in pick]
    ck.assumptions += [
        "TLC, SANY, CommunityModules Json; CPython re as the meaning of 'valid Python regular expression' and of a pattern text",
        "Regex.tla semantics validated against Python re on every generated tree (S_OracleAgreesWithRe, same run)",
        "language equality is decided on all strings of length <= maxlen over the boundary alphabet of the case (small scope)",
    ]
    if n_nontrivial == 0 and not replay:
        raise core.MachineryFailure("vacuous run: no pattern was parsed, rendered and matched")
    return ck.finish()
