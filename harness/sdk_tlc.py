"""TLC plumbing shared by the `sdk` group (C10, C29, C30): cached / sliced generation and sliced validation.

G of these checks is a constant-level evaluation (single-threaded in TLC), V is one initial state per record (initial
states are computed by one thread, too) -- so both are cut into slices that run as parallel TLC processes.
Generation depends only on the spec, the cfg and the seed; its output is kept under work/gen/<sha> (DESIGN §2).
"""
from __future__ import annotations

import concurrent.futures
import hashlib
import json
import os
import pathlib
import re
import shutil
from typing import Any, Callable, Dict, List, Optional, Sequence, Tuple

from harness import core

MAX_PAR = int(os.environ.get("VERIF_SDK_PAR", "4"))


def _register(ck: core.Check, res: core.TlcResult, what: str, count: bool) -> None:
    if count:
        ck.cov["states"] += res.distinct
        ck.cov["transitions"] += res.generated
    ck.cov["tlc_runs"].append(
        {"what": what, "cmd": res.cmd.replace(str(core.VERIF) + "/", ""), "generated": res.generated, "distinct": res.distinct, "wall_s": round(res.wall, 2),
         "violations": len(res.violations) + len(res.action_violations)}
    )


def spec_sha(modules: Sequence[str], cfg: str, extra: str) -> str:
    h = hashlib.sha1()
    for m in modules:
        h.update((core.SPECS / (m + ".tla")).read_bytes())
    h.update((core.SPECS / cfg).read_bytes())
    h.update(extra.encode())
    return h.hexdigest()[:16]


def generate(ck: core.Check, module: str, cfg: str, deps: Sequence[str], outs: Sequence[str], nparts: int, what: str, timeout: int = 1500) -> Dict[str, List[Any]]:
    """Run <module> in nparts slices (env VERIF_PART / VERIF_NPARTS, outputs VERIF_OUT_<NAME>); merge; cache."""
    sha = spec_sha(list(deps) + [module], cfg, "seed=%d parts=%d" % (ck.seed, nparts))
    cache = core.VERIF / "work" / "gen" / ("%s-%s" % (module, sha))
    if all((cache / (o + ".json")).exists() for o in outs):
        ck.notes.append("G: %s reused from work/gen/%s (same spec, cfg and seed)" % (module, cache.name))
        ck.cov["tlc_runs"].append({"what": what + " (cached output of an identical earlier run)", "cmd": "tlc -config specs/%s -seed %d specs/%s.tla  # x%d slices" % (cfg, ck.seed, module, nparts), "generated": 0, "distinct": 0, "wall_s": 0.0, "violations": 0})
        return {o: json.loads((cache / (o + ".json")).read_text()) for o in outs}

    def one(part: int) -> Tuple[core.TlcResult, Dict[str, pathlib.Path]]:
        wd = ck.work / ("gen%d" % part)
        wd.mkdir(parents=True, exist_ok=True)
        paths = {o: wd / (o + ".json") for o in outs}
        env = {"VERIF_PART": str(part), "VERIF_NPARTS": str(nparts)}
        for o, p in paths.items():
            env["VERIF_OUT_" + o.upper()] = str(p)
        res = core.run_tlc(module, cfg, workdir=wd, env=env, seed=ck.seed, workers=1, timeout=timeout)
        return res, paths

    merged: Dict[str, List[Any]] = {o: [] for o in outs}
    with concurrent.futures.ThreadPoolExecutor(max_workers=min(MAX_PAR, nparts)) as ex:
        results = list(ex.map(one, range(nparts)))
    for part, (res, paths) in enumerate(results):
        _register(ck, res, "%s [slice %d/%d]" % (what, part + 1, nparts), count=False)
        core.tlc_must_pass(res, what)
        for o, p in paths.items():
            data = json.loads(p.read_text())
            if o == "models":
                if part == 0:
                    merged[o] = data
            else:
                merged[o].extend(data)
    tmp = cache.with_name(cache.name + ".tmp%d" % os.getpid())
    shutil.rmtree(tmp, ignore_errors=True)
    tmp.mkdir(parents=True)
    for o in outs:
        (tmp / (o + ".json")).write_text(json.dumps(merged[o]))
    shutil.rmtree(cache, ignore_errors=True)
    try:
        tmp.rename(cache)
    except OSError:
        shutil.rmtree(tmp, ignore_errors=True)
    return merged


def validate(ck: core.Check, module: str, cfg: str, obs: List[Dict[str, Any]], what: str, nslices: int, timeout: int = 1500) -> Tuple[List[Tuple[str, int]], List[str]]:
    """Validate records with <module> (VERIF_OBS), in parallel slices.  Returns [(invariant, index into obs)], printed lines
    (with the record index rewritten to the global one)."""
    n = len(obs)
    if n == 0:
        return [], []
    for k, o in enumerate(obs):
        o["idx"] = k
    nslices = max(1, min(nslices, n))
    size = (n + nslices - 1) // nslices
    slices = [(k, obs[k * size : (k + 1) * size]) for k in range(nslices) if obs[k * size : (k + 1) * size]]

    def one(arg: Tuple[int, List[Dict[str, Any]]]) -> core.TlcResult:
        k, part = arg
        wd = ck.work / ("val-%s-%d" % (module, k))
        wd.mkdir(parents=True, exist_ok=True)
        p = wd / "obs.json"
        p.write_text(json.dumps(part))
        return core.run_tlc(module, cfg, workdir=wd, env={"VERIF_OBS": str(p)}, workers=1, cont=True, timeout=timeout)

    with concurrent.futures.ThreadPoolExecutor(max_workers=MAX_PAR) as ex:
        results = list(ex.map(one, slices))
    violations: List[Tuple[str, int]] = []
    printed: List[str] = []
    for (k, part), res in zip(slices, results):
        _register(ck, res, "%s [slice %d/%d, %d records]" % (what, k + 1, len(slices), len(part)), count=True)
        core.tlc_must_pass(res, what)
        if res.distinct != len(part):
            raise core.MachineryFailure("%s: TLC saw %d of %d records" % (what, res.distinct, len(part)))
        for v in res.violations:
            m = re.search(r"\bidx \|-> (\d+)", v["state"])
            if m is None:
                raise core.MachineryFailure("%s: cannot find the record index in %r" % (what, v["state"][:200]))
            violations.append((v["invariant"], int(m.group(1))))
        for line in res.printed:
            m = re.search(r'"@@PRINT@@ (\w+)", (\d+), (.*)>>', line)
            if m:
                printed.append("%s %d %s" % (m.group(1), int(m.group(2)), m.group(3)))
    return violations, printed
