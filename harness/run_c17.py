"""R phase of C17: for every pattern text that retree.parse accepts, observe
  * parse/retree fix_for_utf16_regex_in_place on the parsed tree  -> projected rewritten tree or exception,
  * jsonschema.main.fix_pattern_for_utf16(text)                    -> rewritten text, re-parsed and projected,
  * Python `re` on the original text over the case's strings (S) and on the rewritten text over the UTF-16
    code-unit forms of the same strings (S; Python matches lone surrogates as ordinary characters)."""
import sys

from harness import core
from harness import regex_common as rc


def utf16_units(t):
    out = []
    for c in t:
        if c >= 0x10000:
            out.append(0xD800 + ((c - 0x10000) >> 10))
            out.append(0xDC00 + ((c - 0x10000) & 0x3FF))
        else:
            out.append(c)
    return out


def observe(case):
    from aas_core_codegen.parse import retree
    from aas_core_codegen.jsonschema import main as jsonschema_main

    text = rc.from_cps(case["text"])
    strings = rc.strings_up_to(case["alpha"], case["maxlen"])
    o = {
        "src": case["src"],
        "text": case["text"],
        "alpha": case["alpha"],
        "maxlen": case["maxlen"],
        "accepted": False,
        "parse_outcome": "",
        "parsed": rc.EMPTY_TREE,
        "fix": "none",
        "fix_exc": dict(rc.NO_EXC),
        "fixed": rc.EMPTY_TREE,
        "js": "none",
        "js_exc": dict(rc.NO_EXC),
        "js_text": [],
        "js_reparsed": False,
        "js_tree": rc.EMPTY_TREE,
        "orig_compiles": False,
        "re_orig_full": [],
        "js_compiles": False,
        "re_js_full16": [],
    }
    try:
        regex, error = retree.parse([text])
    except Exception:
        o["parse_outcome"] = "exception"  # C16's business
        return o
    if error is not None:
        o["parse_outcome"] = "error"
        return o
    o["parse_outcome"] = "parsed"
    o["accepted"] = True
    o["parsed"] = rc.project(regex)
    orig = rc.re_compile(text)
    if orig is not None:
        o["orig_compiles"] = True
        o["re_orig_full"] = [n for n, t in enumerate(strings) if orig.fullmatch("".join(map(chr, t))) is not None]
    # the in-place rewriting, on a tree of its own
    regex2, _ = retree.parse([text])
    try:
        retree.fix_for_utf16_regex_in_place(regex2)
        o["fix"] = "ok"
        o["fixed"] = rc.project(regex2)
    except rc.Unprojectable:
        raise
    except Exception as ex:
        o["fix"] = "exception"
        o["fix_exc"] = rc.observe_exception(ex)
    # the schema generators' entry point
    try:
        js_text = jsonschema_main.fix_pattern_for_utf16(text)
        o["js"] = "ok"
        o["js_text"] = rc.cps(js_text)
    except Exception as ex:
        o["js"] = "exception"
        o["js_exc"] = rc.observe_exception(ex)
        return o
    try:
        regex3, error3 = retree.parse([js_text])
    except Exception:
        regex3, error3 = None, True
    if error3 is None and regex3 is not None:
        o["js_reparsed"] = True
        o["js_tree"] = rc.project(regex3)
    comp = rc.re_compile(js_text)
    if comp is not None:
        o["js_compiles"] = True
        o["re_js_full16"] = [n for n, t in enumerate(strings) if comp.fullmatch("".join(map(chr, utf16_units(t)))) is not None]
    return o


def main() -> None:
    cases_path, out_path = sys.argv[1], sys.argv[2]
    core.assert_repo_bound()
    cases = rc.load(cases_path)
    obs = rc.pmap(observe, cases)
    rc.dump(out_path, obs)


if __name__ == "__main__":
    main()
