"""C09: emit the driver programs compiled against the generated C++ and Java SDKs.

A driver reads ``input.json`` = {"instances": [tagged value, ...], "docs": [JSON document, ...],
"probes": {enum: [[code points], ...]}} and prints one JSON object per line:
  {"kind":"inst","i":n,"built":b,"verified":b,"errors":[{"path":[{"p":[cps]}|{"i":n}],"cause":[cps]}],
   "serialized":b,"json":<document>,"exc":"..."}
  {"kind":"doc","i":n,"accepted":b,"json":<document>,"msg":[cps],"exc":"..."}
  {"kind":"consts","values":[{"name":..., "k":..., ...}]}
  {"kind":"enums","values":[{"name":..., "texts":[[bytes]], "parsed":[n]}]}
Text produced by the SDK is printed as arrays of code points (C++ wide strings, Java strings by code point) or
of UTF-8 bytes (C++ narrow strings), never as JSON strings, so that no transcoding by the driver can mask or
introduce a difference.  The names of generated entities are computed with the generators' own naming modules.
"""
from __future__ import annotations

import json
from typing import Any, Dict, List

from harness import cross_lib as cl


def _I(s: str):
    from aas_core_codegen.common import Identifier

    return Identifier(s)


# ---------------------------------------------------------------------------------------------
# C++
# ---------------------------------------------------------------------------------------------

CPP_PRELUDE = r"""
#include "dummy/common.hpp"
#include "dummy/constants.hpp"
#include "dummy/iteration.hpp"
#include "dummy/jsonization.hpp"
#include "dummy/stringification.hpp"
#include "dummy/types.hpp"
#include "dummy/verification.hpp"

#include <nlohmann/json.hpp>

#include <cstdint>
#include <fstream>
#include <iostream>
#include <memory>
#include <string>
#include <vector>

namespace aas = dummy;
using json = nlohmann::json;

static std::wstring AsWstr(const json& v) {
  std::wstring s;
  for (const auto& c : v.at("v")) s.push_back(static_cast<wchar_t>(c.get<std::int64_t>()));
  return s;
}
static std::int64_t AsInt(const json& v) {
  std::uint64_t mag = 0;
  for (const auto& d : v.at("d")) mag = mag * 10u + static_cast<std::uint64_t>(d.get<int>());
  if (v.at("neg").get<bool>()) return static_cast<std::int64_t>(0u - mag);
  return static_cast<std::int64_t>(mag);
}
static std::vector<std::uint8_t> AsBytes(const json& v) {
  std::vector<std::uint8_t> out;
  for (const auto& b : v.at("v")) out.push_back(static_cast<std::uint8_t>(b.get<int>()));
  return out;
}
static bool IsNone(const json& v) { return v.at("t").get<std::string>() == "none"; }
static json Cps(const std::wstring& s) {
  json a = json::array();
  for (wchar_t c : s) a.push_back(static_cast<std::int64_t>(static_cast<std::uint32_t>(c)));
  return a;
}
static json Bytes(const std::string& s) {
  json a = json::array();
  for (char c : s) a.push_back(static_cast<int>(static_cast<unsigned char>(c)));
  return a;
}
static std::string Utf8Of(const json& cps) {
  std::string out;
  for (const auto& c : cps) {
    std::uint32_t cp = static_cast<std::uint32_t>(c.get<std::int64_t>());
    if (cp < 0x80) { out.push_back(static_cast<char>(cp)); }
    else if (cp < 0x800) { out.push_back(static_cast<char>(0xC0 | (cp >> 6))); out.push_back(static_cast<char>(0x80 | (cp & 0x3F))); }
    else if (cp < 0x10000) { out.push_back(static_cast<char>(0xE0 | (cp >> 12))); out.push_back(static_cast<char>(0x80 | ((cp >> 6) & 0x3F))); out.push_back(static_cast<char>(0x80 | (cp & 0x3F))); }
    else { out.push_back(static_cast<char>(0xF0 | (cp >> 18))); out.push_back(static_cast<char>(0x80 | ((cp >> 12) & 0x3F))); out.push_back(static_cast<char>(0x80 | ((cp >> 6) & 0x3F))); out.push_back(static_cast<char>(0x80 | (cp & 0x3F))); }
  }
  return out;
}
static json PathOf(const aas::iteration::Path& path) {
  json segs = json::array();
  for (const auto& seg : path.segments) {
    if (const auto* ps = dynamic_cast<const aas::iteration::PropertySegment*>(seg.get())) {
      segs.push_back(json{{"p", Cps(aas::iteration::PropertyToWstring(ps->property))}});
    } else if (const auto* is = dynamic_cast<const aas::iteration::IndexSegment*>(seg.get())) {
      segs.push_back(json{{"i", static_cast<std::int64_t>(is->index)}});
    } else {
      segs.push_back(json{{"unknown", Cps(seg->ToWstring())}});
    }
  }
  return segs;
}
static void Emit(const json& line) { std::cout << line.dump(-1, ' ', true) << "\n"; }
"""

CPP_MAIN = r"""
int main(int argc, char** argv) {
  if (argc < 2) { std::cerr << "usage: driver input.json" << std::endl; return 2; }
  std::ifstream ifs(argv[1], std::ios::binary);
  json input = json::parse(ifs);

  const json& instances = input.at("instances");
  for (std::size_t i = 0; i < instances.size(); ++i) {
    json line = {{"kind", "inst"}, {"i", i}, {"built", false}, {"verified", false}, {"errors", json::array()},
                 {"serialized", false}, {"json", nullptr}, {"exc", ""}};
    std::shared_ptr<aas::types::IClass> instance;
    try {
      instance = BuildRoot(instances[i]);
      line["built"] = true;
    } catch (const std::exception& ex) {
      line["exc"] = std::string("build: ") + ex.what();
    }
    if (instance) {
      try {
        json errs = json::array();
        for (const aas::verification::Error& error : aas::verification::RecursiveVerification(instance)) {
          errs.push_back(json{{"path", PathOf(error.path)}, {"cause", Cps(error.cause)}});
        }
        line["errors"] = errs;
        line["verified"] = true;
      } catch (const std::exception& ex) {
        line["exc"] = line["exc"].get<std::string>() + std::string("verify: ") + ex.what();
      }
      try {
        json serialized = aas::jsonization::Serialize(*instance);
        // the text is what a consumer sees: dump and re-parse so that a dump failure is an observation
        line["json"] = json::parse(serialized.dump());
        line["serialized"] = true;
      } catch (const std::exception& ex) {
        line["exc"] = line["exc"].get<std::string>() + std::string("serialize: ") + ex.what();
      }
    }
    Emit(line);
  }

  const json& docs = input.at("docs");
  for (std::size_t i = 0; i < docs.size(); ++i) {
    json line = {{"kind", "doc"}, {"i", i}, {"accepted", false}, {"json", nullptr}, {"msg", json::array()}, {"exc", ""}};
    try {
      DeserializeRoot(docs[i].at("root").get<std::string>(), docs[i].at("doc"), line);
    } catch (const std::exception& ex) {
      line["exc"] = std::string("deserialize: ") + ex.what();
    }
    Emit(line);
  }

  EmitConsts();
  EmitEnums(input.at("probes"));
  return 0;
}
"""


def _cpp_type(model: Dict[str, Any], t: Dict[str, Any], naming: Any) -> str:
    k = t["k"]
    if k == "int":
        return "std::int64_t"
    if k == "str":
        return "std::wstring"
    if k == "bool":
        return "bool"
    if k == "float":
        return "double"
    if k == "bytes":
        return "std::vector<std::uint8_t>"
    if k == "cprim":
        return _cpp_type(model, {"k": cl.cprim_prim(model, t["n"])}, naming)
    if k == "enum":
        return "aas::types::%s" % naming.enum_name(_I(t["n"]))
    if k == "class":
        return "std::shared_ptr<aas::types::%s>" % naming.interface_name(_I(t["n"]))
    if k == "list":
        return "std::vector<%s>" % _cpp_type(model, t["of"], naming)
    if k == "opt":
        return "aas::common::optional<%s>" % _cpp_type(model, t["of"], naming)
    raise ValueError(k)


def _cpp_conv(model: Dict[str, Any], t: Dict[str, Any], j: str, naming: Any, depth: int = 0) -> str:
    """A C++ expression converting the tagged value `j` to the C++ value of type t."""
    k = t["k"]
    if k == "int":
        return "AsInt(%s)" % j
    if k == "str":
        return "AsWstr(%s)" % j
    if k == "bool":
        return "%s.at(\"v\").get<bool>()" % j
    if k == "float":
        return "std::stod(%s.at(\"v\").get<std::string>())" % j
    if k == "bytes":
        return "AsBytes(%s)" % j
    if k == "cprim":
        return _cpp_conv(model, {"k": cl.cprim_prim(model, t["n"])}, j, naming, depth)
    if k == "enum":
        return "Enum_%s(%s)" % (t["n"], j)
    if k == "class":
        return "std::dynamic_pointer_cast<aas::types::%s>(BuildAny(%s))" % (naming.interface_name(_I(t["n"])), j)
    if k == "list":
        ct = _cpp_type(model, t, naming)
        var = "item%d" % depth
        return "[&]() { %s out; for (const auto& %s : %s.at(\"v\")) out.push_back(%s); return out; }()" % (ct, var, j, _cpp_conv(model, t["of"], var, naming, depth + 1))
    if k == "opt":
        ct = _cpp_type(model, t, naming)
        return "(IsNone(%s) ? %s(aas::common::nullopt) : %s(%s))" % (j, ct, ct, _cpp_conv(model, t["of"], j, naming, depth))
    raise ValueError(k)


def cpp_driver(model: Dict[str, Any]) -> str:
    from aas_core_codegen.cpp import naming

    out: List[str] = [CPP_PRELUDE]
    # enumerations
    for en in model["enums"]:
        ename = naming.enum_name(_I(en["name"]))
        out.append("static aas::types::%s Enum_%s(const json& v) {" % (ename, en["name"]))
        out.append("  const std::string l = v.at(\"l\").get<std::string>();")
        for lit in en["lits"]:
            out.append("  if (l == %s) return aas::types::%s::%s;" % (json.dumps(lit["name"]), ename, naming.enum_literal_name(_I(lit["name"]))))
        out.append("  throw std::runtime_error(\"unknown literal \" + l);\n}")
    # builders
    out.append("static std::shared_ptr<aas::types::IClass> BuildAny(const json& v);")
    concrete = [c for c in model["classes"] if not c["abstract"]]
    for c in concrete:
        out.append("static std::shared_ptr<aas::types::IClass> Build_%s(const json& v) {" % c["name"])
        out.append("  const json& f = v.at(\"f\");")
        args = []
        for p in cl.ctor_order(model, c["name"]):
            args.append("    " + _cpp_conv(model, p["type"], "f.at(%s)" % json.dumps(p["name"]), naming))
        out.append("  return std::make_shared<aas::types::%s>(\n%s\n  );\n}" % (naming.class_name(_I(c["name"])), ",\n".join(args)))
    out.append("static std::shared_ptr<aas::types::IClass> BuildAny(const json& v) {")
    out.append("  const std::string c = v.at(\"c\").get<std::string>();")
    for c in concrete:
        out.append("  if (c == %s) return Build_%s(v);" % (json.dumps(c["name"]), c["name"]))
    out.append("  throw std::runtime_error(\"unknown class \" + c);\n}")
    out.append("static std::shared_ptr<aas::types::IClass> BuildRoot(const json& v) { return BuildAny(v); }")
    out.append("static void DeserializeRoot(const std::string& root, const json& doc, json& line) {")
    for c in concrete:
        out.append("  if (root == %s) {" % json.dumps(c["name"]))
        out.append("    auto result = aas::jsonization::%s(doc);" % naming.function_name(_I("%s_from" % c["name"])))
        out.append("    if (result.has_value()) {\n      line[\"accepted\"] = true;")
        out.append("      try { json serialized = aas::jsonization::Serialize(*(result.value())); line[\"json\"] = json::parse(serialized.dump()); }")
        out.append("      catch (const std::exception& ex) { line[\"exc\"] = std::string(\"reserialize: \") + ex.what(); }")
        out.append("    } else { line[\"msg\"] = Cps(result.error().cause); }\n    return;\n  }")
    out.append("  throw std::runtime_error(\"unknown root \" + root);\n}")
    # constants
    out.append("static void EmitConsts() {\n  json values = json::array();")
    for c in model["consts"]:
        cname = "aas::constants::%s" % naming.constant_name(_I(c["name"]))
        k = c["k"]
        nm = json.dumps(c["name"])
        if k == "int":
            out.append("  values.push_back(json{{\"name\", %s}, {\"k\", \"int\"}, {\"v\", std::to_string(%s)}});" % (nm, cname))
        elif k == "str":
            out.append("  values.push_back(json{{\"name\", %s}, {\"k\", \"str\"}, {\"v\", Cps(%s)}});" % (nm, cname))
        elif k == "bool":
            out.append("  values.push_back(json{{\"name\", %s}, {\"k\", \"bool\"}, {\"v\", static_cast<bool>(%s)}});" % (nm, cname))
        elif k == "strset":
            out.append("  { json ms = json::array(); for (const auto& x : %s) ms.push_back(Cps(x)); values.push_back(json{{\"name\", %s}, {\"k\", \"strset\"}, {\"v\", ms}}); }" % (cname, nm))
        elif k == "intset":
            out.append("  { json ms = json::array(); for (const auto& x : %s) ms.push_back(std::to_string(x)); values.push_back(json{{\"name\", %s}, {\"k\", \"intset\"}, {\"v\", ms}}); }" % (cname, nm))
        elif k == "enumset":
            out.append("  { json ms = json::array(); for (const auto& x : %s) ms.push_back(Bytes(aas::stringification::to_string(x))); values.push_back(json{{\"name\", %s}, {\"k\", \"enumset\"}, {\"v\", ms}}); }" % (cname, nm))
        else:
            raise ValueError(k)
    out.append("  Emit(json{{\"kind\", \"consts\"}, {\"values\", values}});\n}")
    # enumerations: texts in declaration order, parse results for the probes
    out.append("static void EmitEnums(const json& probes) {\n  json values = json::array();")
    for en in model["enums"]:
        ename = naming.enum_name(_I(en["name"]))
        over = "aas::iteration::%s" % naming.constant_name(_I("over_%s" % en["name"]))
        from_string = "aas::stringification::%s" % naming.function_name(_I("%s_from_string" % en["name"]))
        out.append("  {\n    json texts = json::array();\n    for (const auto& lit : %s) texts.push_back(Bytes(aas::stringification::to_string(lit)));" % over)
        out.append("    json parsed = json::array();")
        out.append("    for (const auto& probe : probes.at(%s)) {" % json.dumps(en["name"]))
        out.append("      aas::common::optional<aas::types::%s> r = %s(Utf8Of(probe));" % (ename, from_string))
        out.append("      std::int64_t pos = 0;")
        out.append("      if (r.has_value()) { std::int64_t q = 0; for (const auto& lit : %s) { ++q; if (lit == *r) pos = q; } }" % over)
        out.append("      parsed.push_back(pos);\n    }")
        out.append("    values.push_back(json{{\"name\", %s}, {\"texts\", texts}, {\"parsed\", parsed}});\n  }" % json.dumps(en["name"]))
    out.append("  Emit(json{{\"kind\", \"enums\"}, {\"values\", values}});\n}")
    out.append(CPP_MAIN)
    return "\n".join(out) + "\n"


# ---------------------------------------------------------------------------------------------
# Java
# ---------------------------------------------------------------------------------------------

JAVA_PRELUDE = r"""
import java.nio.charset.StandardCharsets;
import java.nio.file.Files;
import java.nio.file.Paths;
import java.util.ArrayList;
import java.util.LinkedHashMap;
import java.util.List;
import java.util.Map;
import java.util.Optional;
import java.util.Set;

import dummy.reporting.Reporting;
import dummy.stringification.Stringification;
import dummy.types.enums.*;
import dummy.types.impl.*;
import dummy.types.model.*;
import dummy.verification.Verification;
CONSTANTS_IMPORT

public class Driver {
  // ---- a minimal JSON reader (objects, arrays, strings, integers, true/false/null) for the input file ----
  static final class Reader {
    final String s; int i = 0;
    Reader(String s) { this.s = s; }
    void ws() { while (i < s.length() && Character.isWhitespace(s.charAt(i))) i++; }
    Object value() {
      ws();
      char c = s.charAt(i);
      if (c == '{') {
        i++; Map<String, Object> m = new LinkedHashMap<>(); ws();
        if (s.charAt(i) == '}') { i++; return m; }
        while (true) { ws(); String k = string(); ws(); expect(':'); Object v = value(); m.put(k, v); ws();
          if (s.charAt(i) == ',') { i++; continue; } expect('}'); return m; }
      }
      if (c == '[') {
        i++; List<Object> a = new ArrayList<>(); ws();
        if (s.charAt(i) == ']') { i++; return a; }
        while (true) { a.add(value()); ws(); if (s.charAt(i) == ',') { i++; continue; } expect(']'); return a; }
      }
      if (c == '"') return string();
      if (s.startsWith("true", i)) { i += 4; return Boolean.TRUE; }
      if (s.startsWith("false", i)) { i += 5; return Boolean.FALSE; }
      if (s.startsWith("null", i)) { i += 4; return null; }
      int j = i; if (s.charAt(j) == '-') j++;
      while (j < s.length() && Character.isDigit(s.charAt(j))) j++;
      Long n = Long.parseLong(s.substring(i, j)); i = j; return n;
    }
    void expect(char c) { if (s.charAt(i) != c) throw new IllegalStateException("expected " + c + " at " + i); i++; }
    String string() {
      expect('"'); StringBuilder b = new StringBuilder();
      while (true) {
        char c = s.charAt(i++);
        if (c == '"') return b.toString();
        if (c == '\\') {
          char e = s.charAt(i++);
          switch (e) {
            case 'n': b.append('\n'); break; case 't': b.append('\t'); break; case 'r': b.append('\r'); break;
            case 'b': b.append('\b'); break; case 'f': b.append('\f'); break;
            case 'u': b.append((char) Integer.parseInt(s.substring(i, i + 4), 16)); i += 4; break;
            default: b.append(e);
          }
        } else b.append(c);
      }
    }
  }
  @SuppressWarnings("unchecked") static Map<String, Object> obj(Object o) { return (Map<String, Object>) o; }
  @SuppressWarnings("unchecked") static List<Object> arr(Object o) { return (List<Object>) o; }
  static boolean isNone(Object v) { return "none".equals(obj(v).get("t")); }
  static String asStr(Object v) {
    StringBuilder b = new StringBuilder();
    for (Object c : arr(obj(v).get("v"))) b.appendCodePoint(((Long) c).intValue());
    return b.toString();
  }
  static String ofCps(Object cps) {
    StringBuilder b = new StringBuilder();
    for (Object c : arr(cps)) b.appendCodePoint(((Long) c).intValue());
    return b.toString();
  }
  static Long asLong(Object v) {
    StringBuilder b = new StringBuilder();
    if ((Boolean) obj(v).get("neg")) b.append('-');
    for (Object d : arr(obj(v).get("d"))) b.append(((Long) d).toString());
    return new java.math.BigInteger(b.toString()).longValueExact();
  }
  static byte[] asBytes(Object v) {
    List<Object> a = arr(obj(v).get("v")); byte[] out = new byte[a.size()];
    for (int q = 0; q < out.length; q++) out[q] = (byte) ((Long) a.get(q)).intValue();
    return out;
  }
  // ---- output: text as arrays of code points ----
  static String cps(String s) {
    StringBuilder b = new StringBuilder("[");
    int[] cs = s.codePoints().toArray();
    for (int q = 0; q < cs.length; q++) { if (q > 0) b.append(','); b.append(cs[q]); }
    return b.append(']').toString();
  }
  static String units(String s) {   // UTF-16 code units, to see unpaired surrogates
    StringBuilder b = new StringBuilder("[");
    for (int q = 0; q < s.length(); q++) { if (q > 0) b.append(','); b.append((int) s.charAt(q)); }
    return b.append(']').toString();
  }
  static String quote(String s) {
    StringBuilder b = new StringBuilder("\"");
    for (int q = 0; q < s.length(); q++) {
      char c = s.charAt(q);
      if (c == '"' || c == '\\') b.append('\\').append(c);
      else if (c < 0x20 || c > 0x7e) b.append(String.format("\\u%04x", (int) c));
      else b.append(c);
    }
    return b.append('"').toString();
  }
  static String pathOf(Reporting.Error error) {
    StringBuilder b = new StringBuilder("[");
    boolean first = true;
    for (Reporting.Segment seg : error.getPathSegments()) {
      if (!first) b.append(','); first = false;
      if (seg instanceof Reporting.NameSegment) b.append("{\"p\":").append(cps(((Reporting.NameSegment) seg).getName())).append('}');
      else if (seg instanceof Reporting.IndexSegment) b.append("{\"i\":").append(((Reporting.IndexSegment) seg).getIndex()).append('}');
      else b.append("{\"unknown\":[]}");
    }
    return b.append(']').toString();
  }
"""

JAVA_MAIN = r"""
  public static void main(String[] args) throws Exception {
    String text = new String(Files.readAllBytes(Paths.get(args[0])), StandardCharsets.UTF_8);
    Map<String, Object> input = obj(new Reader(text).value());
    StringBuilder out = new StringBuilder();
    List<Object> instances = arr(input.get("instances"));
    for (int i = 0; i < instances.size(); i++) {
      boolean built = false, verified = false; String exc = ""; StringBuilder errs = new StringBuilder("[");
      IClass instance = null;
      try { instance = buildAny(instances.get(i)); built = true; }
      catch (Exception ex) { exc = "build: " + ex.getClass().getSimpleName() + ": " + ex.getMessage(); }
      if (instance != null) {
        try {
          boolean first = true;
          for (Reporting.Error error : Verification.verify(instance)) {
            if (!first) errs.append(','); first = false;
            errs.append("{\"path\":").append(pathOf(error)).append(",\"cause\":").append(cps(error.getCause())).append('}');
          }
          verified = true;
        } catch (Exception ex) { exc = exc + "verify: " + ex.getClass().getSimpleName() + ": " + ex.getMessage(); }
      }
      errs.append(']');
      out.append("{\"kind\":\"inst\",\"i\":").append(i).append(",\"built\":").append(built).append(",\"verified\":").append(verified)
         .append(",\"errors\":").append(verified ? errs.toString() : "[]").append(",\"serialized\":false,\"json\":null,\"exc\":").append(quote(exc)).append("}\n");
    }
    emitConsts(out);
    emitEnums(out, obj(input.get("probes")));
    System.out.write(out.toString().getBytes(StandardCharsets.UTF_8));
    System.out.flush();
  }
}
"""


def _java_type(model: Dict[str, Any], t: Dict[str, Any], naming: Any) -> str:
    k = t["k"]
    if k == "int":
        return "Long"
    if k == "str":
        return "String"
    if k == "bool":
        return "Boolean"
    if k == "float":
        return "Float"
    if k == "bytes":
        return "byte[]"
    if k == "cprim":
        return _java_type(model, {"k": cl.cprim_prim(model, t["n"])}, naming)
    if k == "enum":
        return str(naming.enum_name(_I(t["n"])))
    if k == "class":
        return str(naming.interface_name(_I(t["n"])))
    if k == "list":
        return "List<%s>" % _java_type(model, t["of"], naming)
    if k == "opt":
        return _java_type(model, t["of"], naming)
    raise ValueError(k)


def java_driver(model: Dict[str, Any], with_constants: bool = True) -> str:
    from aas_core_codegen.java import naming

    out: List[str] = [JAVA_PRELUDE.replace("CONSTANTS_IMPORT", "import dummy.constants.Constants;" if with_constants else "")]
    conv_counter = [0]
    helpers: List[str] = []

    def conv(t: Dict[str, Any], j: str) -> str:
        k = t["k"]
        if k == "int":
            return "asLong(%s)" % j
        if k == "str":
            return "asStr(%s)" % j
        if k == "bool":
            return "((Boolean) obj(%s).get(\"v\"))" % j
        if k == "float":
            return "Float.valueOf((String) obj(%s).get(\"v\"))" % j
        if k == "bytes":
            return "asBytes(%s)" % j
        if k == "cprim":
            return conv({"k": cl.cprim_prim(model, t["n"])}, j)
        if k == "enum":
            return "enum_%s(%s)" % (t["n"], j)
        if k == "class":
            return "((%s) buildAny(%s))" % (naming.interface_name(_I(t["n"])), j)
        if k == "list":
            conv_counter[0] += 1
            fn = "list%d" % conv_counter[0]
            jt = _java_type(model, t, naming)
            helpers.append(
                "  static %s %s(Object v) { %s out = new ArrayList<>(); for (Object item : arr(obj(v).get(\"v\"))) out.add(%s); return out; }"
                % (jt, fn, jt, conv(t["of"], "item"))
            )
            return "%s(%s)" % (fn, j)
        if k == "opt":
            return "(isNone(%s) ? null : %s)" % (j, conv(t["of"], j))
        raise ValueError(k)

    for en in model["enums"]:
        ename = naming.enum_name(_I(en["name"]))
        out.append("  static %s enum_%s(Object v) {\n    String l = (String) obj(v).get(\"l\");" % (ename, en["name"]))
        for lit in en["lits"]:
            out.append("    if (l.equals(%s)) return %s.%s;" % (json.dumps(lit["name"]), ename, naming.enum_literal_name(_I(lit["name"]))))
        out.append("    throw new IllegalStateException(\"unknown literal \" + l);\n  }")
    concrete = [c for c in model["classes"] if not c["abstract"]]
    body: List[str] = []
    for c in concrete:
        body.append("  static IClass build_%s(Object v) {\n    Map<String, Object> f = obj(obj(v).get(\"f\"));" % c["name"])
        args = ["      " + conv(p["type"], "f.get(%s)" % json.dumps(p["name"])) for p in cl.ctor_order(model, c["name"])]
        body.append("    return new %s(\n%s);\n  }" % (naming.class_name(_I(c["name"])), ",\n".join(args)))
    body.append("  static IClass buildAny(Object v) {\n    String c = (String) obj(v).get(\"c\");")
    for c in concrete:
        body.append("    if (c.equals(%s)) return build_%s(v);" % (json.dumps(c["name"]), c["name"]))
    body.append("    throw new IllegalStateException(\"unknown class \" + c);\n  }")
    out.extend(helpers)
    out.extend(body)
    # constants
    out.append("  static void emitConsts(StringBuilder out) {\n    StringBuilder b = new StringBuilder(\"[\");\n    boolean first = true;")
    if with_constants:
        for c in model["consts"]:
            cname = "Constants.%s" % naming.property_name(_I(c["name"]))
            k = c["k"]
            head = "    if (!first) b.append(','); first = false; b.append(\"{\\\"name\\\":%s,\\\"k\\\":\\\"%s\\\",\\\"v\\\":\");" % (json.dumps(c["name"]).replace('"', '\\"'), k)
            out.append(head)
            if k == "int":
                out.append("    b.append('\"').append(String.valueOf(%s)).append('\"');" % cname)
            elif k == "str":
                out.append("    b.append(units(%s));" % cname)
            elif k == "bool":
                out.append("    b.append(String.valueOf(%s));" % cname)
            elif k == "strset":
                out.append("    { b.append('['); boolean f2 = true; for (String x : %s) { if (!f2) b.append(','); f2 = false; b.append(units(x)); } b.append(']'); }" % cname)
            elif k == "intset":
                out.append("    { b.append('['); boolean f2 = true; for (Long x : %s) { if (!f2) b.append(','); f2 = false; b.append('\"').append(String.valueOf(x)).append('\"'); } b.append(']'); }" % cname)
            elif k == "enumset":
                out.append("    { b.append('['); boolean f2 = true; for (%s x : %s) { if (!f2) b.append(','); f2 = false; b.append(units(Stringification.toString(x).get())); } b.append(']'); }" % (naming.enum_name(_I(c["e"])), cname))
            else:
                raise ValueError(k)
            out.append("    b.append('}');")
    out.append("    b.append(']');\n    out.append(\"{\\\"kind\\\":\\\"consts\\\",\\\"values\\\":\").append(b).append(\"}\\n\");\n  }")
    # enums
    out.append("  static void emitEnums(StringBuilder out, Map<String, Object> probes) {\n    StringBuilder b = new StringBuilder(\"[\");\n    boolean first = true;")
    for en in model["enums"]:
        ename = naming.enum_name(_I(en["name"]))
        from_string = naming.method_name(_I("%s_from_string" % en["name"]))
        out.append("    {\n      if (!first) b.append(','); first = false;")
        out.append("      b.append(\"{\\\"name\\\":%s,\\\"texts\\\":[\");" % json.dumps(en["name"]).replace('"', '\\"'))
        out.append("      boolean f2 = true; for (%s lit : %s.values()) { if (!f2) b.append(','); f2 = false; b.append(units(Stringification.toString(lit).get())); }" % (ename, ename))
        out.append("      b.append(\"],\\\"parsed\\\":[\");")
        out.append("      f2 = true; for (Object probe : arr(probes.get(%s))) { if (!f2) b.append(','); f2 = false;" % json.dumps(en["name"]))
        out.append("        Optional<%s> r = Stringification.%s(ofCps(probe)); b.append(r.isPresent() ? r.get().ordinal() + 1 : 0); }" % (ename, from_string))
        out.append("      b.append(\"]}\");\n    }")
    out.append("    b.append(']');\n    out.append(\"{\\\"kind\\\":\\\"enums\\\",\\\"values\\\":\").append(b).append(\"}\\n\");\n  }")
    out.append(JAVA_MAIN)
    return "\n".join(out) + "\n"


# ---------------------------------------------------------------------------------------------
# decoding driver output into the vocabulary of the spec
# ---------------------------------------------------------------------------------------------


def _utf16_units_to_cps(units: List[int]) -> List[int]:
    """UTF-16 code units -> code points; an unpaired surrogate stays as its own value."""
    out = []
    i = 0
    while i < len(units):
        u = units[i]
        if 0xD800 <= u < 0xDC00 and i + 1 < len(units) and 0xDC00 <= units[i + 1] < 0xE000:
            out.append(0x10000 + ((u - 0xD800) << 10) + (units[i + 1] - 0xDC00))
            i += 2
        else:
            out.append(u)
            i += 1
    return out


def _utf8_bytes_to_cps(bs: List[int]) -> List[int]:
    try:
        return cl.cps(bytes(bs).decode("utf-8"))
    except UnicodeDecodeError:
        return [0x110000 + b for b in bs]  # not text: can never equal a real string


def decode_errors(errs: List[Dict[str, Any]]) -> List[Dict[str, Any]]:
    out = []
    for e in errs:
        segs = []
        for s in e["path"]:
            if "p" in s:
                segs.append(cl.norm_name(cl.from_cps(s["p"])))
            elif "i" in s:
                segs.append("#%d" % s["i"])
            else:
                segs.append("?")
        out.append({"path": segs, "cause": cl.from_cps(e["cause"])})
    return out


def decode_const(target: str, c: Dict[str, Any]) -> Dict[str, Any]:
    k = c["k"]
    text = (lambda x: _utf16_units_to_cps(x)) if target == "java" else (lambda x: x)
    if k == "int":
        return {"k": "int", **cl.int_rec(int(c["v"]))}
    if k == "str":
        return {"k": "str", "v": text(c["v"])}
    if k == "bool":
        return {"k": "bool", "v": bool(c["v"])}
    if k == "strset":
        return {"k": "strset", "v": sorted(text(x) for x in c["v"])}
    if k == "intset":
        return {"k": "intset", "v": [cl.int_rec(x) for x in sorted(int(y) for y in c["v"])]}
    if k == "enumset":
        if target == "java":
            return {"k": "enumset", "v": sorted(_utf16_units_to_cps(x) for x in c["v"])}
        return {"k": "enumset", "v": sorted(_utf8_bytes_to_cps(x) for x in c["v"])}
    raise ValueError(k)


def decode_enum_texts(target: str, texts: List[List[int]]) -> List[List[int]]:
    if target == "java":
        return [_utf16_units_to_cps(x) for x in texts]
    return [_utf8_bytes_to_cps(x) for x in texts]
