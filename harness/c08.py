"""C08 — generated Python verification implements the invariants exactly.

M: MC_ExprSound (shared with C07: the WellTyped trees used as candidate invariants evaluate to booleans);
G: VerifGen (models: class / inherited / constrained-primitive / nested / listed invariants, descriptions,
   pattern + transpilable functions; instances; function arguments);
R: run_c08 (drop what the real code rejects, generate + import the Python SDK, verify every instance, call
   the generated functions; CPython reference evaluation of the meta-model's own lambdas/functions for S);
V: VerifTrace (instances) and VerifFnTrace (functions).
"""
from __future__ import annotations

import json
import os
import pathlib
from typing import Any, Dict, List

from harness import core
from harness.expr_tlc import parse_flat_record, step_violations

S_INVARIANTS = {"Inv_SpecMatchesPython", "Inv_Defined"}
# descriptions carry non-ASCII characters: TLC must read the data file and write the cases as UTF-8
JVM = ("-Xmx8g", "-Dfile.encoding=UTF-8")


def read_json_utf8(p: pathlib.Path) -> Any:
    return json.loads(p.read_text(encoding="utf-8"))


def main() -> int:
    replay = os.environ.get("VERIF_REPLAY")
    # core.Check wipes replays/C08 when it starts: read the replay file first
    rp = core.read_json(pathlib.Path(replay))["case"] if replay else None
    ck = core.Check("C08", "model_checking")
    suffix = "" if ck.quick else "_thorough"

    cases_p = ck.work / "cases.json"
    if replay:
        core.write_json(cases_p, [{"model": rp["model"], "insts": [rp["instance"]] if rp.get("instance") else [], "fnargs": {rp["fn"]: [rp["args"]]} if rp.get("fn") else {}}])
        n_pool = 0
    else:
        # M — design level: the generated traversal (lazy pre-order, paths, inherited invariants, raising) refines
        # the declarative Expected / MustRaise; the soundness of the typing that selects candidate invariants is C07's M
        ck.model_check("VerifAlgo", "MC_VerifAlgo%s.cfg" % suffix, "the traversal machine reports exactly Verif!Expected, raises iff MustRaise, terminates", workers=4, timeout=1500, deadlock=True, jvm=JVM)
        g = ck.tlc("VerifGen", "VerifGen%s.cfg" % suffix, what="G: models x instances x function arguments", env={"VERIF_OUT": str(cases_p)}, count=False, timeout=1500, jvm=JVM)
        n_pool = 0
        for line in g.printed:
            parts = line.replace(">>", "").split(",")
            n_pool = int(parts[-1])

    # R
    out_p = ck.work / "out.json"
    ck.impl("harness.run_c08", [str(cases_p), str(out_p)], timeout=3000)
    out = read_json_utf8(out_p)
    models, obs, fobs, info = out["models"], out["obs"], out["fobs"], out["info"]
    models_p = ck.work / "models_run.json"
    core.write_json(models_p, models)

    # V — instances (chunked only to bound the size of one JSON file)
    size = 4000
    chunks = [obs[o : o + size] for o in range(0, len(obs), size)]
    for ci in range(len(chunks)):
        pp = ck.work / ("obs_%d.json" % ci)
        core.write_json(pp, [{k: o[k] for k in ("m", "inst", "outcome", "errors", "py_outcome", "py_errors")} for o in chunks[ci]])
        res = ck.tlc("VerifTrace", what="V: verify(instance) = {(path, description) : invariant false}; raises only if an invariant raises", env={"VERIF_MODELS": str(models_p), "VERIF_OBS": str(pp)}, cont=True, workers=4, timeout=3000, jvm=JVM)
        if res.distinct != 2 * len(chunks[ci]):
            raise core.MachineryFailure("TLC consumed %d of %d observations" % (res.distinct // 2, len(chunks[ci])))
        reported = {}
        for v in step_violations(res.stdout):
            reported.setdefault(v["i"], (v["invariant"], parse_flat_record(v["v"])))
        for i, (first_inv, rec) in sorted(reported.items()):
            o = chunks[ci][i - 1]
            model = models[o["m"] - 1]
            if not rec.get("s_ok") or not rec.get("defined") or first_inv in S_INVARIANTS:
                raise core.MachineryFailure("S phase (%s): Verif!Expected and direct CPython evaluation disagree for model %s: verdict %s, python %s %s" % (first_inv, model["name"], rec, o["py_outcome"], json.dumps(o["py_errors"])[:400]))
            failing = []
            if not rec["raise_ok"]:
                failing.append(("Inv_RaisesOnlyIfInvariantRaises", {"clause": "Inv_RaisesOnlyIfInvariantRaises", "kind": "raised_without_cause"}))
            if not rec["exact_ok"]:
                if rec.get("kind") == "description":
                    # the cause is not the description verbatim: keyed by the shape of the description
                    failing.append(("Inv_ErrorsExactlyFalseInvariants", {"clause": "Inv_ErrorsExactlyFalseInvariants", "kind": "description", "dshape": rec.get("dshape"), "owner": rec.get("owner")}))
                else:
                    failing.append(("Inv_ErrorsExactlyFalseInvariants", {"clause": "Inv_ErrorsExactlyFalseInvariants", "kind": rec.get("kind"), "feature": rec.get("feature"), "owner": rec.get("owner"), "inherited": rec.get("inherited")}))
            if first_inv not in [f[0] for f in failing]:
                raise core.MachineryFailure("verdict record and reported invariant disagree: %s vs %s" % (first_inv, rec))
            for inv, key in failing:
                ck.violation(
                    key,
                    inv,
                    {"model": model, "instance": o["inst"]},
                    {"outcome": o["outcome"], "errors": o["errors"], "exception": o["exc"], "python_reference": o["py_errors"], "culprit": {"path": rec.get("path"), "cause": rec.get("cause")}},
                    detail="model %s: %s error (%s, %s%s invariant) at path %r: %r; verify -> %s %s" % (model["name"], rec.get("kind"), rec.get("feature"), "inherited " if rec.get("inherited") else "", rec.get("owner"), rec.get("path"), rec.get("cause"), o["outcome"], o["exc"]),
                )

    # negative control of the binding (thorough tier): a dropped error must be rejected by TLC
    if not ck.quick and not replay:
        o = next(o for o in obs if o["outcome"] == "ok" and o["errors"] and o["py_outcome"] == "ok" and o["errors"] == o["py_errors"])
        bad = {k: o[k] for k in ("m", "inst", "outcome", "errors", "py_outcome", "py_errors")}
        bad["errors"] = bad["errors"][1:]
        pp = ck.work / "obs_negctl.json"
        core.write_json(pp, [bad])
        res = ck.tlc("VerifTrace", what="negative control: an observation with one error removed is rejected", env={"VERIF_MODELS": str(models_p), "VERIF_OBS": str(pp)}, cont=True, workers=1, timeout=600, count=False, jvm=JVM)
        if not any(v["invariant"] == "Inv_ErrorsExactlyFalseInvariants" for v in step_violations(res.stdout)):
            raise core.MachineryFailure("negative control: TLC did not reject a corrupted observation")

    # V — functions
    if fobs:
        fp = ck.work / "fobs.json"
        core.write_json(fp, fobs)
        res = ck.tlc("VerifFnTrace", what="V: generated pattern/transpilable functions = FullMatch / Eval(body)", env={"VERIF_MODELS": str(models_p), "VERIF_OBS": str(fp)}, cont=True, workers=4, timeout=3000, jvm=JVM)
        if res.distinct != 2 * len(fobs):
            raise core.MachineryFailure("TLC consumed %d of %d function observations" % (res.distinct // 2, len(fobs)))
        for v in step_violations(res.stdout):
            o = fobs[v["i"] - 1]
            model = models[o["m"] - 1]
            fn = model["funcs"][o["fn"]]
            if v["invariant"] in S_INVARIANTS:
                raise core.MachineryFailure("S phase: the specification and the original function %s disagree on %s: spec %s, python %s" % (o["fn"], json.dumps(o["args"])[:200], v["v"], o["orig"]))
            key = {"clause": v["invariant"], "fn_kind": fn["kind"], "composed": bool(fn.get("parts"))}
            ck.violation(key, v["invariant"], {"model": model, "fn": o["fn"], "args": o["args"]}, {"generated": o["got"], "original": o["orig"], "spec": v["v"]}, detail="model %s: %s(%s) -> %s, expected %s" % (model["name"], o["fn"], json.dumps(o["args"])[:120], o["got"], o["orig"]))

    generated = [e for e in info if e["status"] == "generated"]
    nontrivial = sum(1 for o in obs if o["py_outcome"] == "raised" or o["py_errors"])
    ck.cov["evaluations"] = len(obs) + len(fobs)
    ck.cov["traces_validated_against_impl"] = len(obs) + len(fobs)
    ck.cov["distinct_nontrivial"] = nontrivial
    ck.cov["rule"] = (
        "G: %d models (TLC: batches of the %d WellTyped trees of the C07 grammar as class invariants, declared on the parent class in odd models; constrained "
        "primitives with inherited invariants in properties, optional properties and list items; nested/listed Item instances; 8 description shapes; 10 patterns "
        "plain or f-string composed; 4 transpilable functions); %d instance observations + %d function observations. non-trivial = an instance on which at "
        "least one invariant is false or raises (expected error set non-empty)." % (len(info), n_pool, len(obs), len(fobs))
    )
    ck.cov["exhaustive"] = True
    ck.cov["models"] = {"generated": len(generated), "not_generated": len(info) - len(generated), "invariants_run": sum(e["n_invs"] for e in generated), "invariants_dropped_as_rejected": sum(len(e["dropped"]) for e in info)}
    ck.cov["outcomes"] = {"ok": sum(1 for o in obs if o["outcome"] == "ok"), "raised": sum(1 for o in obs if o["outcome"] == "raised")}
    ck.cov["samples"] = [{"model": models[o["m"] - 1]["name"], "outcome": o["outcome"], "errors": o["errors"][:3], "exception": o["exc"]} for o in (obs[:1] + obs[len(obs) // 2 : len(obs) // 2 + 1] + [o for o in obs if o["errors"]][:1])]
    for e in info:
        if e["status"] != "generated":
            ck.notes.append("model %s could not be generated even without the rejected invariants: %s %s" % (e["model"], e.get("stderr"), e.get("exc")))
    ck.assumptions += [
        "TLC, SANY, CommunityModules Json; CPython as the reference for Python semantics (S: Verif!Expected = direct evaluation of the meta-model's lambdas; FullMatch/Eval = the original functions)",
        "pattern functions are compared on strings without line breaks (Python's `$` also matches before a trailing newline)",
        "a model is 'accepted' after dropping the invariants that load_model / infer_for_invariant / --target python reject",
    ]
    if not replay and (nontrivial == 0 or not generated or not fobs):
        raise core.MachineryFailure("vacuous run")
    return ck.finish()
