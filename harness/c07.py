"""C07 — type-checked invariants cannot fail at run time.

M: MC_ExprSound (the reference typing of Expr.tla is sound for Expr!Eval on the grammar);
G: ExprGen (invariant trees over the fixed schema, well-typed and plausibly mistyped; value domains);
R: run_c07 (acceptance by the real front end + infer_for_invariant + --target python; CPython evaluation);
V: ExprTrace (S: Eval agrees with CPython on every (tree, instance); the clauses for accepted trees).
"""
from __future__ import annotations

import itertools
import json
import os
from typing import Any, Dict, List

from harness import core
from harness import expr_py as X
from harness.expr_tlc import parse_flat_record, step_violations

S_INVARIANTS = {"Inv_SpecMatchesPython", "Inv_Defined"}
CLAUSE_FIELDS = {
    "Inv_NoTypeError": ("type_k", "type_c", "type_d"),
    "Inv_NoAttributeError": ("attr_k", "attr_c", "attr_d"),
    "Inv_NoNoneDereference": ("none_k", "none_c", "none_d"),
    "Inv_NoOtherError": ("other_k", "other_c", "other_d"),
}
TERM_ROOTS = {"name", "mem", "int", "str", "bool", "len", "add", "sub", "idx", "fstr", "call"}


def instance_of(gen: Dict[str, Any], o: Dict[str, Any], k: int) -> Dict[str, Any]:
    """The k-th (1-based) instance of the case, as {property: spec value} for the mentioned properties."""
    doms = gen["domains"][o["dom"]]
    combos = list(itertools.product(*[doms[p] for p in o["ms"]]))
    if not 1 <= k <= len(combos):
        return {}
    return dict(zip(o["ms"], combos[k - 1]))


def main() -> int:
    replay = os.environ.get("VERIF_REPLAY")
    # core.Check wipes replays/C07 when it starts: read the replay file first
    replay_case = core.read_json(__import__("pathlib").Path(replay))["case"] if replay else None
    ck = core.Check("C07", "model_checking")
    suffix = "" if ck.quick else "_thorough"

    # M — design level
    m = None if replay else ck.model_check("MC_ExprSound", "MC_ExprSound%s.cfg" % suffix, "WellTyped => Eval yields a boolean or IndexError, on every instance", workers=8, timeout=1500)

    # G
    cases_p = ck.work / "cases.json"
    ck.tlc("ExprGen", "ExprGen%s.cfg" % suffix, what="G: invariant trees x value domains", env={"VERIF_OUT": str(cases_p)}, count=False, timeout=900)
    gen = core.read_json(cases_p)
    n_gen = len(gen["cases"])
    if replay:
        want = replay_case["tree"]
        gen["cases"] = [c for c in gen["cases"] if c["e"] == want]
        if not gen["cases"]:
            raise core.MachineryFailure("the replayed tree is not in the grammar of this tier")
        core.write_json(cases_p, gen)

    # R
    obs_p = ck.work / "obs.json"
    ck.impl("harness.run_c07", [str(cases_p), str(obs_p)], timeout=1500)
    obs = core.read_json(obs_p)
    by_id = {c_id: c for c_id, c in enumerate(gen["cases"])}
    for o in obs:
        o["ms"], o["dom"] = by_id[o["id"]]["ms"], by_id[o["id"]]["dom"]

    # V, in chunks
    chunk = 4000
    n_eval = n_fine = n_index = 0
    nontrivial = 0
    strata = {"welltyped_accepted": 0, "welltyped_rejected": 0, "mistyped_accepted": 0, "mistyped_rejected": 0}
    stages: Dict[str, int] = {}
    for o in obs:
        strata[("welltyped" if o["wt"] else "mistyped") + ("_accepted" if o["acc"] else "_rejected")] += 1
        stages[o["stage"] or "accepted"] = stages.get(o["stage"] or "accepted", 0) + 1
        n_eval += len(o["py"])
        if o["acc"] and len(o["py"]) > 1:
            nontrivial += 1
    for off in range(0, len(obs), chunk):
        part = obs[off : off + chunk]
        pp = ck.work / "obs_part.json"
        core.write_json(pp, [{"id": o["id"], "e": o["e"], "acc": o["acc"], "py": o["py"]} for o in part])
        res = ck.tlc("ExprTrace", what="V: Eval = CPython (S) and the clauses on accepted trees", env={"VERIF_OBS": str(pp)}, cont=True, workers=4, timeout=1500)
        if res.distinct != 2 * len(part):
            raise core.MachineryFailure("TLC consumed %d of %d observations" % (res.distinct // 2, len(part)))
        # TLC reports one violated invariant per state; the verdict record of that state (computed by the
        # specification) tells which clauses fail, so that a second failing clause is not hidden by the first.
        reported = {}
        for v in step_violations(res.stdout):
            reported.setdefault(v["i"], (v["invariant"], parse_flat_record(v["v"])))
        for i, (first_inv, rec) in sorted(reported.items()):
            o = part[i - 1]
            if rec.get("s_bad", 0) != 0 or rec.get("limit_k", 0) != 0 or first_inv in S_INVARIANTS:
                k = rec.get("s_bad", 0) or rec.get("limit_k", 0)
                raise core.MachineryFailure(
                    "S phase: Expr!Eval and CPython disagree (%s) on `%s`, instance #%s %s: spec %r, python %r"
                    % (first_inv, o["src"], k, json.dumps(instance_of(gen, o, k))[:300], rec.get("s_spec"), o["py"][k - 1] if 0 < k <= len(o["py"]) else None)
                )
            if not o["acc"]:
                raise core.MachineryFailure("TLC reported a clause for a tree that was not accepted: %s" % o["src"])
            failing = []
            for inv, (fk, fc, fd) in CLAUSE_FIELDS.items():
                if rec[fk] != 0:
                    failing.append((inv, rec[fk], rec[fc], rec[fd]))
            if rec["bool_k"] != 0:
                failing.append(("Inv_YieldsBoolean", rec["bool_k"], "term" if rec["root"] in TERM_ROOTS else "junction" if rec["root"] in ("and", "or", "imp") else rec["root"], rec["root"] + "->" + rec["bool_t"]))
            if first_inv not in [f[0] for f in failing]:
                raise core.MachineryFailure("verdict record and reported invariant disagree: %s vs %s" % (first_inv, rec))
            for inv, k, construct, operands in failing:
                key = {"clause": inv, "construct": construct}
                inst = instance_of(gen, o, k)
                ck.violation(
                    key,
                    inv,
                    {"invariant": o["src"], "tree": o["e"], "instance": inst},
                    {"accepted": True, "python_result": o["py"][k - 1], "operands": operands, "instance_index": k},
                    detail="accepted invariant `%s` on %s -> %s (%s: %s)" % (o["src"], json.dumps({p: X_short(x) for p, x in inst.items()}), o["py"][k - 1], construct, operands),
                )
    # negative control of the binding (thorough tier): a corrupted CPython observation must be rejected by TLC
    if not ck.quick and not replay:
        o = next(o for o in obs if o["acc"] and o["py"] and o["py"][0].startswith("bool:"))
        bad = {"id": o["id"], "e": o["e"], "acc": o["acc"], "py": [("bool:0" if o["py"][0] == "bool:1" else "bool:1")] + o["py"][1:]}
        pp = ck.work / "obs_negctl.json"
        core.write_json(pp, [bad])
        res = ck.tlc("ExprTrace", what="negative control: a flipped CPython result is rejected", env={"VERIF_OBS": str(pp)}, cont=True, workers=1, timeout=600, count=False)
        if not any(v["invariant"] == "Inv_SpecMatchesPython" for v in step_violations(res.stdout)):
            raise core.MachineryFailure("negative control: TLC did not reject a corrupted observation")

    # totals from the verdict records are not printed for passing states; recompute cheaply from python codes (S guarantees equality)
    for o in obs:
        for c in o["py"]:
            if c.startswith("bool:"):
                n_fine += 1
            elif c == "exc:IndexError":
                n_index += 1
    ck.cov["evaluations"] = n_eval
    ck.cov["traces_validated_against_impl"] = len(obs)
    ck.cov["distinct_nontrivial"] = nontrivial
    ck.cov["rule"] = (
        "G: %d invariant trees of the ExprSchema grammar (depth <= %d; %s) over a 12-property schema; each evaluated on every type-conforming instance "
        "over the small value domains of the properties it mentions (<= 64). non-trivial = a tree the real code ACCEPTS (run.load_model + infer_for_invariant + "
        "--target python rc 0) and that is evaluated on more than one instance. evaluations = (tree, instance) pairs evaluated by CPython and by Expr!Eval in TLC."
        % (n_gen, max(c["depth"] for c in gen["cases"]), json.dumps(strata))
    )
    ck.cov["exhaustive"] = True
    ck.cov["strata"] = strata
    ck.cov["rejection_stages"] = stages
    ck.cov["results"] = {"boolean": n_fine, "index_error": n_index, "other": n_eval - n_fine - n_index}
    ck.cov["welltyped_trees_model_checked"] = m.distinct if m is not None else 0
    pick = [o for o in obs if o["acc"]][:2] + [o for o in obs if not o["acc"]][:1]
    ck.cov["samples"] = [{"invariant": o["src"], "accepted": o["acc"], "stage": o["stage"], "python_results": o["py"][:6]} for o in pick]
    ck.assumptions += [
        "TLC, SANY, CommunityModules Json; CPython as the reference for Python semantics (S phase: every (tree, instance) evaluated by both, must agree)",
        "'accepts' = run.load_model accepts the model AND intermediate.type_inference.infer_for_invariant succeeds AND --target python exits 0 (DESIGN §6 C07)",
        "instances are plain objects with the declared property values (None only where Optional); plain-object identity equality as for the generated SDK classes",
    ]
    if not replay and (nontrivial == 0 or strata["mistyped_rejected"] == 0):
        raise core.MachineryFailure("vacuous run: %s" % strata)
    return ck.finish()


def X_short(v: Dict[str, Any]) -> Any:
    t = v["t"]
    if t == "none":
        return None
    if t == "int":
        return v["n"]
    if t == "bool":
        return v["b"]
    if t == "str":
        return X.cps_to_str(v["cs"])
    if t == "list":
        return [X_short(x) for x in v["xs"]]
    if t == "inst":
        return {k: X_short(x) for k, x in v["f"].items()}
    if t == "enum":
        return v["c"] + "." + v["l"]
    return t
