"""C01 — the meta-model front end never crashes.

M: Pipeline (strict design) model-checked.  G: PipeSyntaxGen (items of the accepted Python subset and its near
misses, regex token sequences) + the repository's own meta-models truncated at line boundaries / seeded offsets.
R: main.execute (target jsonschema, which contains run.load_model) per text, with stage events.
V: PipelineTrace (PipelineTrace_C01.cfg): the run is a behaviour of the pipeline (no exception leaves a stage),
accepted xor non-empty report, rejected => exit status 1.
"""
import json
import random

from harness import core, pipe_check, pipe_render


def build_cases(ck: core.Check, rnd: random.Random):
    g = pipe_check.gen_syntax(ck)
    items1_keys = {pipe_check.item_key(i) for i in g["items1"]}
    items2 = [i for i in g["items"] if pipe_check.item_key(i) not in items1_keys]
    cases = []

    def add(desc, text, **kw):
        cases.append({"id": len(cases), "t": "main", "text": text, "target": "jsonschema", "desc": desc, **kw})

    # spec -> code
    add({"src": "items", "items": []}, pipe_render.render_module({"items": []}), twice=True)
    for t in g["templates"]:
        add({"src": "items", "items": [t], "template": True}, pipe_render.render_module({"items": [t]}))
    for it in g["items1"]:
        add({"src": "items", "items": [it]}, pipe_render.render_module({"items": [it]}))
    rnd.shuffle(items2)
    items2.sort(key=lambda it: 0 if pipe_check.must_include(it) else 1)  # stable: the interacting slots first
    n_must = sum(1 for it in items2 if pipe_check.must_include(it))
    n2 = (n_must + 200) if ck.quick else min(len(items2), n_must + 9000)
    for it in items2[:n2]:
        add({"src": "items", "items": [it]}, pipe_render.render_module({"items": [it]}))
    # two deviating items per module (pairs of one-slot deviations), seeded sample
    n_pairs = 200 if ck.quick else 1500
    for _ in range(n_pairs):
        a, b = rnd.choice(g["items1"]), rnd.choice(g["items1"])
        add({"src": "items", "items": [a, b]}, pipe_render.render_module({"items": [a, b]}))
    # regex token sequences as the pattern of a pattern verification function
    default_pf = next(t for t in g["templates"] if t["k"] == "patternfunc")
    seqs = g["seqs"]
    short = [s for s in seqs if len(s) <= 2]
    long3 = [s for s in seqs if len(s) == 3]
    rnd.shuffle(long3)
    n3 = 200 if ck.quick else 5000
    n_regex = 0
    for s in short + long3[:n3]:
        body = pipe_render.pattern_of(g["tokens"], s)
        variants = ["^" + body + "$"] if (ck.quick or len(s) == 3) else ["^" + body + "$", body]
        for pat in variants:
            it = dict(default_pf)
            it["pattern"] = pat
            add({"src": "regex", "seq": s, "pattern": pat}, pipe_render.render_module({"items": [it]}))
            n_regex += 1
    # code -> spec
    corpus = pipe_check.corpus_texts(rnd, n_lines=220 if ck.quick else 2443, n_bytes=60 if ck.quick else 1000, n_big=0 if ck.quick else 40, whole=True)
    for desc, text in corpus:
        add(desc, text)
    counts = {"templates": len(g["templates"]) + 1, "items_dev1": len(g["items1"]), "items_dev2": min(n2, len(items2)), "item_pairs": n_pairs, "regex": n_regex, "corpus": len(corpus), "items_dev2_enumerated": len(items2), "token_seqs_enumerated": len(seqs)}
    return cases, counts


def main() -> int:
    ck = core.Check("C01", "model_checking")
    rnd = random.Random(ck.seed)
    # M and G run concurrently (independent TLC jobs)
    rp = pipe_check.replay_case()
    built = {}

    def build():
        built["v"] = build_cases(ck, rnd)

    jobs = [lambda: ck.model_check("Pipeline", "MC_Pipeline.cfg", "pipeline design (strict): clauses of C01/C03/C28 on all terminal states", workers=2, timeout=900)]
    if not ck.quick:
        jobs.append(lambda: ck.model_check("Pipeline", "MC_PipelineLoose.cfg", "pipeline contract (any order of passes, skipped stages)", workers=8, timeout=1500))
    if rp is None:
        jobs.append(build)
    pipe_check.in_parallel(jobs)
    if rp is not None:
        cases, counts = [dict(rp, desc=rp.get("desc", {"src": "replay"}))], {"replay": 1}
    else:
        cases, counts = built["v"]
    # R
    traces, meta, installed = pipe_check.run_cases(ck, cases, "harness.run_c01", "c01")
    # V
    viols, counters = pipe_check.validate(ck, traces, "PipelineTrace_C01.cfg", "every run is a behaviour of Pipeline; accepted xor report; rejected => exit 1")
    by_id = {c["id"]: c for c in cases}
    pipe_check.record_violations(ck, viols, traces, meta, by_id, "NoUncaughtException")
    # evidence
    texts = {}
    for tr, me in zip(traces, meta):
        c = by_id[me["id"]]
        texts.setdefault(pipe_check.text_digest(c.get("text")), tr["obs"]["load"])
    nontrivial = sum(1 for v in texts.values() if v in ("rejected", "exception"))
    accepted = sum(1 for v in texts.values() if v == "accepted")
    ck.cov["evaluations"] = len(traces)
    ck.cov["traces_validated_against_impl"] = len(traces)
    ck.cov["distinct_nontrivial"] = nontrivial
    ck.cov["rule"] = "one traced run of main.execute (target jsonschema; contains run.load_model) per text; non-trivial = distinct texts that the front end did not simply accept (rejected with a report, or an exception): %d of %d distinct texts (%d accepted). Case mix: %s" % (nontrivial, len(texts), accepted, json.dumps(counts, sort_keys=True))
    ck.cov["exhaustive"] = False
    ck.cov["wrapped_functions"] = len(installed)
    ck.cov["samples"] = [{"case": pipe_check.short_desc(by_id[meta[i]["id"]].get("desc", {})), "load": traces[i]["obs"]["load"], "rc": traces[i]["obs"]["rc"], "events": len(traces[i]["events"])} for i in (1, len(traces) // 3, len(traces) // 2, len(traces) - 1) if i < len(traces)]
    ck.assumptions += ["TLC, SANY, CommunityModules Json", "CPython ast.parse decides 'parses as Python'", "a text is a sequence of characters (files that are not valid UTF-8 are outside the quantifier)"]
    if rp is None and (nontrivial == 0 or accepted == 0):
        raise core.MachineryFailure("vacuous run: %d rejected/crashing, %d accepted texts" % (nontrivial, accepted))
    return ck.finish()
