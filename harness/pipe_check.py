"""Shared orchestration of the `pipeline` group (C01, C03, C28): G with TLC, R through harness.run_pipeline,
V with specs/PipelineTrace.tla, turning TLC's verdicts into violations with structural keys."""
from __future__ import annotations

import hashlib
import json
import os
import pathlib
import random
import re
from typing import Any, Dict, Iterable, List, Optional, Sequence, Tuple

from harness import core, pipe_render

PROCS = int(os.environ.get("VERIF_PROCS", "8"))


# ---------------------------------------------------------------------------------------------
# G
# ---------------------------------------------------------------------------------------------


def gen_syntax(ck: core.Check) -> Dict[str, Any]:
    """TLC enumerates the items of specs/PipeSyntax.tla (deviation <= 2) and the regex token sequences (<= 3)."""
    items_p, tokens_p = ck.work / "items.json", ck.work / "tokens.json"
    ck.tlc("PipeSyntaxGen", "PipeSyntaxGen.cfg", what="G: items of the accepted Python subset and its near misses; regex token sequences", env={"VERIF_OUT_ITEMS": str(items_p), "VERIF_OUT_TOKENS": str(tokens_p)}, count=False, timeout=600)
    d = core.read_json(items_p)
    t = core.read_json(tokens_p)
    d["tokens"] = t["tokens"]
    d["seqs"] = t["seqs"]
    return d


def gen_configs(ck: core.Check) -> Dict[str, Any]:
    p = ck.work / "configs.json"
    ck.tlc("PipeConfigGen", "PipeConfigGen.cfg", what="G: run configurations and same-rule pairs", env={"VERIF_OUT": str(p)}, count=False, timeout=300)
    return core.read_json(p)


def in_parallel(jobs: Sequence[Any]) -> List[Any]:
    """Run independent TLC jobs (callables) concurrently; staggered so that metadir names (ms timestamps) differ.
    An exception of any job (MachineryFailure) is re-raised."""
    import concurrent.futures
    import time as _t

    def run(k_job: Any) -> Any:
        k, job = k_job
        _t.sleep(0.25 * k)
        return job()

    with concurrent.futures.ThreadPoolExecutor(max_workers=max(1, len(jobs))) as pool:
        return list(pool.map(run, list(enumerate(jobs))))


def must_include(item: Dict[str, Any]) -> bool:
    """Two-slot items that are always run (also in the quick tier): slots that are known to interact."""
    k = item.get("k")
    if k == "serial":  # serialization settings inherited from two parents x an untagged class elsewhere
        return True
    if k == "layout":  # what precedes the first line x which failing statement ends the file
        return True
    if k == "docref":  # every role x every target shape, at the default place
        return item.get("place") == "class"
    if k == "class":  # a class constraining a primitive x its constructor
        return item.get("bases") in ("prim_dbc", "prim_only") and str(item.get("ctor", "")).startswith("prim_init")
    if k == "constset":  # item type of the set x shape of superset_of (primitive and enumeration-literal sets)
        return item.get("elt") in ("int", "enum") and item.get("sup") in ("ok", "dup", "dup_apart")
    if k == "cprim":  # a constrained primitive alone in a model without other invariants / verification functions
        return item.get("base") == "bare"
    return False


def item_key(item: Dict[str, Any]) -> str:
    return json.dumps(item, sort_keys=True)


def is_dev1(item: Dict[str, Any], items1_keys: set) -> bool:
    return item_key(item) in items1_keys


def corpus_files() -> List[pathlib.Path]:
    root = core.REPO / "dev" / "test_data"
    files = sorted(root.rglob("meta_model.py")) + sorted((root / "common_meta_models").glob("*.py"))
    return files


def corpus_texts(rnd: random.Random, n_lines: int, n_bytes: int, n_big: int, whole: bool = True) -> List[Tuple[Dict[str, Any], str]]:
    """code -> spec inputs: the repository's own meta-models, whole and truncated at line boundaries /
    seeded character offsets (a text is a sequence of characters: the cut never splits a UTF-8 sequence)."""
    out: List[Tuple[Dict[str, Any], str]] = []
    small: List[Tuple[str, str]] = []
    big: List[Tuple[str, str]] = []
    for p in corpus_files():
        try:
            text = p.read_text(encoding="utf-8")
        except Exception:
            continue
        rel = str(p.relative_to(core.REPO))
        (big if text.count("\n") > 400 else small).append((rel, text))
    if whole:
        for rel, text in small:
            out.append(({"src": "corpus", "file": rel, "cut": "whole"}, text))
    cuts: List[Tuple[str, str, int]] = []
    for rel, text in small:
        offs = [m.end() for m in re.finditer("\n", text)]
        for o in offs[:-1]:
            cuts.append((rel, text, o))
    rnd.shuffle(cuts)
    for rel, text, o in cuts[:n_lines]:
        out.append(({"src": "corpus", "file": rel, "cut": "line", "offset": o}, text[:o]))
    for k in range(n_bytes):
        rel, text = small[rnd.randrange(len(small))]
        if len(text) < 2:
            continue
        o = rnd.randrange(1, len(text))
        out.append(({"src": "corpus", "file": rel, "cut": "char", "offset": o}, text[:o]))
    for rel, text in big:
        offs = [m.end() for m in re.finditer("\n", text)]
        picks = sorted(rnd.sample(offs, min(n_big, len(offs))))
        for o in picks:
            out.append(({"src": "corpus", "file": rel, "cut": "line", "offset": o}, text[:o]))
        if whole and n_big > 0:
            out.append(({"src": "corpus", "file": rel, "cut": "whole"}, text))
    return out


# ---------------------------------------------------------------------------------------------
# R
# ---------------------------------------------------------------------------------------------


def run_cases(ck: core.Check, cases: List[Dict[str, Any]], runner: str, tag: str, procs: int = PROCS, timeout: int = 3000) -> Tuple[List[Dict[str, Any]], List[Dict[str, Any]], List[str]]:
    """-> (traces, meta, installed wrappers); traces[i] belongs to meta[i], meta[i]["id"] is the case id."""
    cp, op = ck.work / ("cases_%s.json" % tag), ck.work / ("out_%s.json" % tag)
    core.write_json(cp, {"cases": [{k: v for k, v in c.items() if k != "desc"} for c in cases]})
    ck.impl(runner, [str(cp), str(op), str(procs)], timeout=timeout)
    o = core.read_json(op)
    timed_out = [m for m in o["meta"] if (m.get("exc") or {}).get("exc_type") == "_Timeout"]
    if timed_out:
        raise core.MachineryFailure("%d run(s) exceeded the per-run time limit (machine overloaded?): case ids %s" % (len(timed_out), [m["id"] for m in timed_out][:5]))
    if len(o["traces"]) < len(cases):
        raise core.MachineryFailure("runner returned %d traces for %d cases" % (len(o["traces"]), len(cases)))
    return o["traces"], o["meta"], o["installed"]


# ---------------------------------------------------------------------------------------------
# V
# ---------------------------------------------------------------------------------------------

_VIOL = re.compile(r"Error: Invariant (\w+) is violated(?: by the initial state)?[.:]?\n(.*?)(?=\nError: Invariant |\Z)", re.S)


def validate(ck: core.Check, traces: List[Dict[str, Any]], cfg: str, what: str, chunk: int = 1200) -> Tuple[List[Dict[str, Any]], Dict[str, int]]:
    """TLC validates every trace against specs/PipelineTrace.tla with the invariants of `cfg`.
    -> ([{"invariant", "index" (0-based into traces), "l"}], counters printed by the spec)"""
    import concurrent.futures

    out: List[Dict[str, Any]] = []
    counters = {"traces": 0, "failing": 0, "reports": 0}
    offs = list(range(0, len(traces), chunk))

    def one(off: int) -> Any:
        import time as _t

        _t.sleep(0.13 * (off // chunk % 4))  # distinct TLC metadir names (ms timestamps) for parallel runs
        part = traces[off : off + chunk]
        pp = ck.work / ("traces_part_%d.json" % off)
        core.write_json(pp, part)
        return ck.tlc("PipelineTrace", cfg, what="V: %s" % what, env={"VERIF_OBS": str(pp)}, cont=True, workers=1, timeout=1500, jvm=("-Xmx3g", "-Xss64m"))

    with concurrent.futures.ThreadPoolExecutor(max_workers=4) as pool:
        results = list(pool.map(one, offs))
    for off, res in zip(offs, results):
        part = traces[off : off + chunk]
        if res.distinct < len(part):
            raise core.MachineryFailure("PipelineTrace visited %d states for %d traces" % (res.distinct, len(part)))
        for line in res.printed:
            m = re.search(r"traces\", (\d+), (\d+), (\d+)", line)
            if m:
                counters["traces"] += int(m.group(1))
                counters["failing"] += int(m.group(2))
                counters["reports"] += int(m.group(3))
        n_listed = len(re.findall(r"Error: Invariant \w+ is violated", res.stdout))
        found = 0
        for m in _VIOL.finditer(res.stdout):
            tids = re.findall(r"^/\\ tid = (\d+)", m.group(2), re.M)
            ls = re.findall(r"^/\\ l = (\d+)", m.group(2), re.M)
            if not tids or not ls:
                raise core.MachineryFailure("cannot locate the trace of a violation of %s" % m.group(1))
            out.append({"invariant": m.group(1), "index": off + int(tids[-1]) - 1, "l": int(ls[-1])})
            found += 1
        if found != n_listed:
            raise core.MachineryFailure("parsed %d of %d violations" % (found, n_listed))
    if counters["traces"] != len(traces):
        raise core.MachineryFailure("TLC read %d traces, %d were recorded" % (counters["traces"], len(traces)))
    return out, counters


def shape_of(trace: Dict[str, Any]) -> str:
    """Compressed class sequence of the observed stderr (only used in violation keys)."""
    out: List[str] = []
    for f in trace["obs"]["lines"]:
        if f["blank"]:
            c = "blank"
        elif f["c1"] == 42 and f["c2"] == 32:
            c = "bullet"
        elif f["indent"] >= 2:
            c = "cont"
        elif f["indent"] == 0 and f["last"] == 58:
            c = "headline"
        else:
            c = "other"
        if not out or out[-1] != c:
            out.append(c)
    return ",".join(out[:8])


def short_desc(desc: Dict[str, Any]) -> Dict[str, Any]:
    d = dict(desc)
    d.pop("text", None)
    return d


def family_of(desc: Dict[str, Any]) -> str:
    src = desc.get("src", "?")
    if src == "items":
        return "+".join(sorted(it["k"] for it in desc["items"]))
    return src


def record_violations(ck: core.Check, viols: List[Dict[str, Any]], traces: List[Dict[str, Any]], meta: List[Dict[str, Any]], cases_by_id: Dict[int, Dict[str, Any]], exception_clause: str) -> None:
    for v in viols:
        tr, me = traces[v["index"]], meta[v["index"]]
        case = cases_by_id[me["id"]]
        desc = case.get("desc", {})
        ev = tr["events"][v["l"] - 1] if 1 <= v["l"] <= len(tr["events"]) else {"e": "?", "p": "", "x": "?"}
        if v["invariant"] in ("Inv_TraceAccepted", "Inv_FrontEndTraceAccepted") and ev.get("x") == "exc":
            exc = me.get("exc") or {}
            key = {"stage": exc.get("stage", ev["p"] or ev["e"]), "exc_type": exc.get("exc_type", "?"), "frame": exc.get("frame", "?")}
            clause = exception_clause
            detail = "%s at %s: %s | case=%s" % (exc.get("exc_type"), exc.get("site"), (exc.get("msg") or "")[:120], json.dumps(short_desc(desc), sort_keys=True)[:200])
        elif v["invariant"] in ("Inv_TraceAccepted", "Inv_FrontEndTraceAccepted"):
            key = {"clause": "TraceIsPipelineBehaviour", "event": ev["e"], "phase": ev["p"], "tool": tr["tool"], "family": family_of(desc)}
            clause = "TraceIsPipelineBehaviour"
            detail = "trace rejected at event %d %s | case=%s" % (v["l"], json.dumps(ev), json.dumps(short_desc(desc), sort_keys=True)[:200])
        else:
            key = {"clause": v["invariant"], "tool": tr["tool"], "family": family_of(desc), "rc": tr["obs"]["rc"], "shape": shape_of(tr)}
            if desc.get("cache"):
                key["cache"] = desc["cache"]
            if desc.get("via"):
                key["via"] = desc["via"]
            if desc.get("src") == "config":
                key.update({"target": desc["config"]["target"], "model": desc["config"]["model"], "snippets": desc["config"]["snippets"], "arg": desc["config"]["arg"]})
            clause = v["invariant"]
            detail = "rc=%s stderr=%r | case=%s" % (tr["obs"]["rc"], me.get("stderr", "")[:160], json.dumps(short_desc(desc), sort_keys=True)[:200])
        obs = {"obs": {k: x for k, x in tr["obs"].items() if k not in ("lines", "recGot", "recWant")}, "events": [(e["e"], e["p"], e["x"], e["ids"]) for e in tr["events"]][-12:], "stderr": me.get("stderr", "")[:2000], "exc": me.get("exc")}
        ck.violation(key, clause, {"runner_case": {k: x for k, x in case.items()}, "l": v["l"]}, obs, detail=detail)
    dump = os.environ.get("VERIF_PIPE_DUMP")  # development aid: all violations of the run, verbatim
    if dump:
        pathlib.Path(dump).write_text(json.dumps(ck.violations, indent=1, default=str))
    # summary of the distinct keys of this run (evidence notes)
    seen: Dict[str, int] = {}
    for x in ck.violations:
        ks = json.dumps([x["clause"], x["key"]], sort_keys=True)
        seen[ks] = seen.get(ks, 0) + 1
    ck.notes = [n for n in ck.notes if not n.startswith("violation-key ")]
    for ks, n in sorted(seen.items())[:80]:
        ck.notes.append("violation-key %s x%d" % (ks, n))


def replay_case() -> Optional[Dict[str, Any]]:
    p = os.environ.get("VERIF_REPLAY")
    if not p:
        return None
    d = json.loads(pathlib.Path(p).read_text())
    case = d["case"]["runner_case"]
    case["id"] = 0
    return case


def text_digest(text: Optional[str]) -> str:
    return hashlib.sha1((text or "").encode("utf-8", errors="surrogatepass")).hexdigest()
