"""C10 — Python SDK serialization round-trips and rejects bad documents.

M: MC_Sdk (the wire formats and the reference de-serializers, model-checked: bijection, monotonicity, typing, what each
   mutation action promises);  G: SdkGen (models, instances, mutated documents);  R: run_c10 (the generated jsonization /
   xmlization);  V: SdkTrace (serialized form + round trip) and SdkMutTrace (mutated documents vs the three-valued verdict).
"""
from __future__ import annotations

import collections
import concurrent.futures
import json
import os
import re
from typing import Any, Dict, List

from harness import core
from harness import sdk_tlc

DEPS = ["Sdk", "SdkModels", "SdkMut"]


def value_features(v: Dict[str, Any], model_enums: Dict[str, Dict[str, List[int]]], out: Dict[str, bool]) -> None:
    """Structural features of an instance that matter for the wire formats (fingerprint of a finding)."""
    k = v["k"]
    if k == "str":
        if 13 in v["cps"]:
            out["carriage_return"] = True
    elif k == "bytes":
        if not v["bs"]:
            out["empty_bytes"] = True
    elif k == "enum":
        val = model_enums.get(v["enum"], {}).get(v["lit"], [0])
        if not val:
            out["empty_enum_text"] = True
        if 13 in val:
            out["carriage_return"] = True
    elif k == "list":
        for i in v["items"]:
            value_features(i, model_enums, out)
    elif k == "inst":
        for f in v["fields"]:
            value_features(f["v"], model_enums, out)


def rt_key(inv: str, rec: Dict[str, Any], enums: Dict[str, Dict[str, List[int]]]) -> Dict[str, Any]:
    feats: Dict[str, bool] = {}
    value_features(rec["x"], enums, feats)
    fmt = "xml" if "Xml" in inv else "json"
    key: Dict[str, Any] = {"clause": inv, "features": "+".join(sorted(feats)) or "plain"}
    if inv in ("Inv_XmlRoundTrip", "Inv_XmlFieldByField"):
        key["outcome"] = rec["rtx"]["o"]
    elif inv in ("Inv_JsonRoundTrip", "Inv_JsonFieldByField"):
        key["outcome"] = rec["rtj"]["o"]
    elif inv == "Inv_JsonTextRoundTrip":
        key["outcome"] = rec["rtjt"]["o"]
    elif inv == "Inv_XmlForm":
        key["outcome"] = "well_formed" if rec["xparsed"] else rec["xo"]
    elif inv == "Inv_JsonForm":
        key["outcome"] = rec["jo"]
    elif inv == "Inv_SdkGenerated":
        key["outcome"] = "sdk_not_importable" if not rec["sdk"] else "instance_not_constructible"
    return key


def has_empty_leaf(node: Dict[str, Any]) -> bool:
    """An XML element without text and without children (how an empty string / byte array / literal text is written)."""
    if not node["kids"]:
        return node["text"]["x"] == "none"
    return any(has_empty_leaf(k) for k in node["kids"])


def mut_key(inv: str, rec: Dict[str, Any]) -> Dict[str, Any]:
    key: Dict[str, Any] = {"clause": inv, "fmt": rec["fmt"], "outcome": rec["outcome"]["o"]}
    if inv == "Inv_AcceptsWellFormed" and rec["fmt"] == "xml" and rec["outcome"]["o"] == "rejected" and has_empty_leaf(rec["doc"]):
        # a valid document that is refused and carries an empty-text element: the fingerprint of the "empty text" findings
        key["features"] = "empty_leaf_text"
        return key
    if rec["outcome"]["o"] == "exception":
        m = re.match(r"(\w+) in ([\w.]*):", rec["detail"])
        key["exception"] = m.group(1) if m else "?"
        key["sdk_function"] = m.group(2) if m else "?"
    else:
        key["kind"] = rec["kind"]
        key["at"] = rec["at"]
    return key


def main() -> int:
    ck = core.Check("C10", "model_checking")
    suffix = "" if ck.quick else "_thorough"
    # M: design level
    # M: design level (runs beside G and R: it needs nothing from them)
    pool = concurrent.futures.ThreadPoolExecutor(max_workers=2)
    m_future = pool.submit(ck.model_check, "MC_Sdk", "MC_Sdk%s.cfg" % suffix, "wire formats: bijection on the image, strict => lenient, typed results, promises of the mutation actions", workers=sdk_tlc.MAX_PAR, timeout=3000)
    # G
    nparts = 4 if ck.quick else 8
    gen = sdk_tlc.generate(ck, "SdkGen", "SdkGen%s.cfg" % suffix, DEPS, ["models", "instances", "mutants"], nparts, "G: models x instances x mutated documents")
    models, instances, mutants = gen["models"], gen["instances"], gen["mutants"]
    replay = os.environ.get("VERIF_REPLAY")
    if replay:
        rp = core.read_json(__import__("pathlib").Path(replay))
        case = rp["case"]
        if "x" in case:
            instances, mutants = [c for c in instances if c["mi"] == case["mi"] and c["x"] == case["x"]], []
        else:
            instances, mutants = [], [c for c in mutants if c["mi"] == case["mi"] and c["doc"] == case["doc"]]
        if not instances and not mutants:
            raise core.MachineryFailure("the replayed case is not in the generated case space (other tier / seed?)")
    if not ck.quick:
        pass
    core.write_json(ck.work / "models.json", models)
    core.write_json(ck.work / "instances.json", instances)
    core.write_json(ck.work / "mutants.json", mutants)
    # R
    ck.impl("harness.run_c10", [str(ck.work / "models.json"), str(ck.work / "instances.json"), str(ck.work / "mutants.json"), str(ck.work / "rt.json"), str(ck.work / "mut.json"), str(ck.work / "sdk")], timeout=3000)
    rt = core.read_json(ck.work / "rt.json")
    mut = core.read_json(ck.work / "mut.json")
    details = core.read_json(ck.work / "rt.json.details")
    enums_by_mi = {e["mi"]: {en["name"]["src"]: {l["name"]["src"]: l["val"] for l in en["lits"]} for en in e["raw"]["enums"]} for e in models}
    # V
    nsl = sdk_tlc.MAX_PAR
    mres = m_future.result()  # a violated design-level invariant raises MachineryFailure here
    if not ck.quick:
        # two successive mutation actions (documents that no longer look like a serialization) on the parametric model
        ck.model_check("MC_Sdk", "MC_Sdk_thorough2.cfg", "wire formats under two successive mutations", workers=sdk_tlc.MAX_PAR, timeout=3000)
    rt_future = pool.submit(sdk_tlc.validate, ck, "SdkTrace", "SdkTrace.cfg", rt, "V: serialized form and round trip of every instance", max(1, nsl // 2))
    v_mut, printed = sdk_tlc.validate(ck, "SdkMutTrace", "SdkMutTrace.cfg", mut, "V: outcome on every mutated document vs the reference verdict", max(1, nsl - nsl // 2))
    v_rt, _ = rt_future.result()
    pool.shutdown()
    verdicts: Dict[int, str] = {}
    for line in printed:
        kind, idx, rest = line.split(" ", 2)
        if kind == "verdict":
            verdicts[int(idx)] = rest.strip().strip('"')
    if mut and len(verdicts) != len(mut):
        raise core.MachineryFailure("verdicts for %d of %d mutated documents" % (len(verdicts), len(mut)))
    for inv, idx in v_rt:
        rec = rt[idx]
        key = rt_key(inv, rec, enums_by_mi[rec["mi"]])
        case = {"mi": rec["mi"], "model": rec["mid"], "x": rec["x"]}
        obs = {k: rec[k] for k in ("sdk", "built", "jo", "j", "rtj", "rtjt", "deepj", "deepjt", "xo", "xparsed", "xml", "rtx", "deepx")}
        ck.violation(key, inv, case, obs, detail="model=%s %s %s" % (rec["mid"], rec["detail"][:200], details.get("sdk:%d" % rec["mi"], "")[:200]))
    for inv, idx in v_mut:
        rec = mut[idx]
        key = mut_key(inv, rec)
        case = {"mi": rec["mi"], "model": rec["mid"], "fmt": rec["fmt"], "kind": rec["kind"], "at": rec["at"], "doc": rec["doc"], "text": rec.get("text", "")}
        ck.violation(key, inv, case, {"outcome": rec["outcome"], "verdict": verdicts.get(idx)}, detail="model=%s %s/%s verdict=%s outcome=%s %s" % (rec["mid"], rec["kind"], rec["at"], verdicts.get(idx), rec["outcome"]["o"], rec["detail"][:200]))
    # evidence
    vc = collections.Counter(verdicts.values())
    constrained = sum(1 for i, r in enumerate(mut) if verdicts.get(i) in ("MustReject", "MustAcceptWith"))
    nontrivial_rt = sum(1 for r in rt if r["built"])
    ck.cov["evaluations"] = len(rt) + len(mut)
    ck.cov["traces_validated_against_impl"] = len(rt) + len(mut)
    ck.cov["distinct_nontrivial"] = nontrivial_rt + constrained
    ck.cov["rule"] = (
        "G (TLC): %d meta-models (5 fixed + seeded sample of the 1024-member parametric family), %d distinct instances (base instance with one slot varied over "
        "boundary alphabets / every concrete descendant / lists of 0-2 / optionals unset, recursively), %d distinct mutated JSON/XML documents (mutation actions at every "
        "position) + text-level malformed XML; non-trivial = an instance that was built and serialized (%d) or a mutated document whose verdict constrains the SDK "
        "(MustReject %d, MustAcceptWith %d; Either %d not counted)" % (len(models), len(instances), len(mutants), nontrivial_rt, vc["MustReject"], vc["MustAcceptWith"], vc["Either"])
    )
    ck.cov["exhaustive"] = True
    ck.cov["verdicts"] = dict(vc)
    ck.cov["mutation_kinds"] = dict(collections.Counter("%s:%s" % (r["fmt"], r["kind"]) for r in mut))
    ck.cov["outcomes"] = dict(collections.Counter("%s:%s" % (r["fmt"], r["outcome"]["o"]) for r in mut))
    ck.cov["model_check_states"] = mres.distinct
    ck.cov["models_refused_by_the_front_end"] = sorted({r["mid"] for r in rt if not r["accepted"]})
    if rt:
        ck.cov["samples"].append({"instance": rt[len(rt) // 2]["x"], "model": rt[len(rt) // 2]["mid"], "observed_jsonable": rt[len(rt) // 2]["j"]})
    if mut:
        for r in (mut[len(mut) // 3], mut[2 * len(mut) // 3]):
            ck.cov["samples"].append({"model": r["mid"], "fmt": r["fmt"], "mutation": r["kind"] + "/" + r["at"], "doc": r["doc"], "outcome": r["outcome"]["o"]})
    ck.assumptions += [
        "TLC, SANY, CommunityModules (Json, IOUtils, SequencesExt), CPython json / xml.etree (to parse the SDK's XML output and to render mutated trees; the rendering is self-checked by a parse-back)",
        "number texts and float values are opaque tokens for TLC: they are converted and compared on the Python side (repr / xs:double lexical forms)",
        "most permissive reading: unknown members / elements, null for an optional property, integral JSON number for a float, modelType where no dispatch needs it, "
        "tags and namespaces of items of primitive lists, base64 text a lenient decoder could take, junk after the XML root element are neither required to be rejected nor to be accepted",
    ]
    if not replay and (nontrivial_rt == 0 or constrained == 0):
        raise core.MachineryFailure("vacuous run")
    return ck.finish()
