"""Shared R-phase helpers: render an abstract meta-model (JSON produced by TLC) to the Python subset,
drive the real front end / generators, import a generated Python SDK.

Abstract meta-model (all fields optional unless noted):
  {"items": [ITEM, ...], "version": "V1", "xmlns": "https://dummy.com", "header": "extra import lines"}
ITEM kinds
  {"kind":"class","name":N,"bases":[...],"abstract":bool,"wmt":null|true|false,"impl":bool,
   "props":[{"name":n,"type":T,"doc":str?}], "invs":[{"expr":E,"desc":D}], "methods":[text,...],
   "ctor": "auto" | "none" | explicit text, "doc": str?, "decorators":[text,...]}
  {"kind":"enum","name":N,"literals":[[NAME, "value"], ...], "doc": str?}
  {"kind":"cprim","name":N,"base":"str"|..|other cprim,"invs":[...], "doc": str?}
  {"kind":"raw","text":...}            (constants, constant sets, verification functions, anything)
Types are Python annotation texts: int, str, bool, float, bytearray, Optional[X], List[X], class names.
"""
from __future__ import annotations

import contextlib
import importlib
import io
import json
import os
import pathlib
import shutil
import sys
import tempfile
import traceback
from typing import Any, Dict, List, Optional, Sequence, Tuple

PRIMS = {"bool", "int", "float", "str", "bytearray"}


def pylit(s: str) -> str:
    return json.dumps(s, ensure_ascii=True)


def _inherited_props(mm: Dict[str, Any], cls: Dict[str, Any]) -> List[Dict[str, Any]]:
    """Properties in constructor order: ancestors' (per base order, de-duplicated) then own."""
    by_name = {it["name"]: it for it in mm["items"] if it.get("kind") == "class"}
    seen: List[str] = []
    out: List[Dict[str, Any]] = []

    def visit(c: Dict[str, Any]) -> None:
        for b in c.get("bases", []):
            if b in by_name:
                visit(by_name[b])
        for p in c.get("props", []):
            if p["name"] not in seen:
                seen.append(p["name"])
                out.append(p)

    visit(cls)
    return out


def _is_optional(t: str) -> bool:
    return t.startswith("Optional[")


def render_ctor(mm: Dict[str, Any], cls: Dict[str, Any]) -> str:
    by_name = {it["name"]: it for it in mm["items"] if it.get("kind") == "class"}
    allp = _inherited_props(mm, cls)
    if not allp:
        return ""
    req = [p for p in allp if not _is_optional(p["type"])]
    opt = [p for p in allp if _is_optional(p["type"])]
    args = ["self"] + ["%s: %s" % (p["name"], pytype(p["type"])) for p in req] + ["%s: %s = None" % (p["name"], pytype(p["type"])) for p in opt]
    lines = ["    def __init__(%s) -> None:" % ", ".join(args)]
    assigned = set()
    for b in cls.get("bases", []):
        if b in by_name:
            bp = _inherited_props(mm, by_name[b])
            if bp:
                lines.append("        %s.__init__(self, %s)" % (b, ", ".join("%s=%s" % (p["name"], p["name"]) for p in bp)))
            assigned |= {p["name"] for p in bp}
    for p in cls.get("props", []):
        lines.append("        self.%s = %s" % (p["name"], p["name"]))
    return "\n".join(lines) + "\n"


def pytype(t: str) -> str:
    """Type texts are already Python annotations; our own types must be quoted if used before declaration —
    the front end accepts string annotations ('Forward') as names."""
    return t


def render_invs(invs: Sequence[Dict[str, Any]]) -> str:
    out = []
    for inv in invs:
        out.append("@invariant(\n    lambda self: %s,\n    %s\n)\n" % (inv["expr"], pylit(inv["desc"])))
    return "".join(out)


def render_doc(doc: Optional[str], indent: str) -> str:
    if doc is None:
        return ""
    body = doc.replace("\\", "\\\\").replace('"""', '\\"\\"\\"')
    return '%s"""%s"""\n\n' % (indent, body)


def render_item(mm: Dict[str, Any], it: Dict[str, Any]) -> str:
    k = it.get("kind")
    if k == "raw":
        return it["text"].rstrip("\n") + "\n"
    if k == "enum":
        s = "class %s(Enum):\n" % it["name"]
        s += render_doc(it.get("doc"), "    ")
        for lit in it["literals"]:
            s += "    %s = %s\n" % (lit[0], pylit(lit[1]))
            if len(lit) > 2 and lit[2] is not None:
                s += render_doc(lit[2], "    ")
        return s
    if k == "cprim":
        s = render_invs(it.get("invs", []))
        for d in it.get("decorators", []):
            s += d + "\n"
        s += "class %s(%s, DBC):\n" % (it["name"], it["base"])
        s += render_doc(it.get("doc"), "    ")
        s += "    pass\n"
        return s
    if k == "class":
        s = ""
        if it.get("abstract"):
            s += "@abstract\n"
        if it.get("impl"):
            s += "@implementation_specific\n"
        if it.get("wmt") is not None:
            s += "@serialization(with_model_type=%s)\n" % ("True" if it["wmt"] else "False")
        for d in it.get("decorators", []):
            s += d + "\n"
        s += render_invs(it.get("invs", []))
        bases = list(it.get("bases", [])) + ["DBC"]
        s += "class %s(%s):\n" % (it["name"], ", ".join(bases))
        body = render_doc(it.get("doc"), "    ")
        for p in it.get("props", []):
            body += "    %s: %s\n" % (p["name"], pytype(p["type"]))
            if p.get("doc") is not None:
                body += render_doc(p["doc"], "    ")
        if it.get("props"):
            body += "\n"
        for m in it.get("methods", []):
            body += m.rstrip("\n") + "\n\n"
        ctor = it.get("ctor", "auto")
        if ctor == "auto":
            body += render_ctor(mm, it)
        elif ctor != "none":
            body += ctor.rstrip("\n") + "\n"
        if not body.strip():
            body = "    pass\n"
        return s + body
    raise ValueError("unknown item kind %r" % k)


HEADER = (
    "from enum import Enum\n"
    "from re import match\n"
    "from typing import List, Optional, Set\n\n"
    "from icontract import invariant, DBC, ensure, require\n\n"
    "from aas_core_meta.marker import (\n"
    "    abstract,\n    serialization,\n    implementation_specific,\n    verification,\n"
    "    constant_set,\n    non_mutating,\n"
    ")\n\n"
)


def render(mm: Dict[str, Any]) -> str:
    parts = [mm.get("header", HEADER)]
    if mm.get("doc") is not None:
        parts.insert(0, render_doc(mm["doc"], ""))
    for it in mm["items"]:
        parts.append(render_item(mm, it))
        parts.append("\n")
    if mm.get("version", "V1") is not None:
        parts.append("__version__ = %s\n" % pylit(mm.get("version", "V1")))
    if mm.get("xmlns", "https://dummy.com") is not None:
        parts.append("__xml_namespace__ = %s\n" % pylit(mm.get("xmlns", "https://dummy.com")))
    return "\n".join(parts)


# ---------------------------------------------------------------------------------------------
# driving the real code
# ---------------------------------------------------------------------------------------------

TARGETS = ["cpp", "csharp", "golang", "java", "jsonschema", "python", "typescript", "xsd"]


def default_snippets(target: str, root_class: str = "Something", xmlns: str = "https://dummy.com", module: str = "vsdk") -> Dict[str, str]:
    if target in ("cpp", "csharp"):
        return {"namespace.txt": "dummy"}
    if target == "golang":
        return {"repo_url.txt": "github.com/dummy-works/dummy"}
    if target == "java":
        return {"package.txt": "dummy"}
    if target == "python":
        return {"qualified_module_name.txt": module}
    if target == "typescript":
        return {"package_documentation.txt": "Provide dummy SDK.", "package_identifier.txt": "@dummy-works/dummy"}
    if target == "jsonschema":
        return {
            "schema_base.json": json.dumps(
                {"$schema": "https://json-schema.org/draft/2019-09/schema", "title": "DummyForTest", "type": "object", "allOf": [{"$ref": "#/definitions/%s" % root_class}]},
                indent=2,
            )
        }
    if target == "xsd":
        return {
            "root_element.xml": (
                '<xs:schema xmlns:xs="http://www.w3.org/2001/XMLSchema" xmlns="%s" elementFormDefault="qualified" targetNamespace="%s">\n'
                '    <xs:element name="root" type="xs:string" />\n</xs:schema>\n' % (xmlns, xmlns)
            )
        }
    raise ValueError(target)


def write_snippets(d: pathlib.Path, snippets: Dict[str, str]) -> None:
    d.mkdir(parents=True, exist_ok=True)
    for k, v in snippets.items():
        p = d / k
        p.parent.mkdir(parents=True, exist_ok=True)
        p.write_text(v, encoding="utf-8")


def innermost_repo_frame(tb: Any) -> str:
    frames = traceback.extract_tb(tb)
    repo = os.environ.get("VERIF_REPO", "/repo")
    last = ""
    for f in frames:
        if f.filename.startswith(repo):
            last = "%s:%d in %s" % (f.filename[len(repo) + 1 :], f.lineno, f.name)
    return last


def exc_obs(ex: BaseException) -> Dict[str, str]:
    return {"type": type(ex).__name__, "msg": str(ex)[:300], "frame": innermost_repo_frame(ex.__traceback__)}


def load_model(text: str, scratch: pathlib.Path, cache_model: bool = False) -> Dict[str, Any]:
    """run.load_model on a text. Returns {"outcome": "accepted"|"rejected"|"exception", "error":..., "exc":..., "st":..., "atok":...}."""
    from aas_core_codegen import run

    scratch.mkdir(parents=True, exist_ok=True)
    p = scratch / "meta_model.py"
    p.write_text(text, encoding="utf-8")
    try:
        res, err = run.load_model(model_path=p, cache_model=cache_model)
    except Exception as ex:  # observation
        return {"outcome": "exception", "error": None, "exc": exc_obs(ex), "st": None, "atok": None}
    if err is not None:
        return {"outcome": "rejected", "error": err, "exc": None, "st": None, "atok": None}
    assert res is not None
    return {"outcome": "accepted", "error": None, "exc": None, "st": res[0], "atok": res[1]}


def generate(model_path: pathlib.Path, target: str, snippets_dir: pathlib.Path, out_dir: pathlib.Path, cache_model: bool = False) -> Dict[str, Any]:
    """main.execute for one target. Returns {"rc", "stdout", "stderr", "exc"}; rc is None on exception."""
    from aas_core_codegen import main as cg_main

    out, err = io.StringIO(), io.StringIO()
    params = cg_main.Parameters(model_path=model_path, target=cg_main.Target(target), snippets_dir=snippets_dir, output_dir=out_dir, cache_model=cache_model)
    try:
        rc = cg_main.execute(params, stdout=out, stderr=err)
    except Exception as ex:
        return {"rc": None, "stdout": out.getvalue(), "stderr": err.getvalue(), "exc": exc_obs(ex)}
    return {"rc": rc, "stdout": out.getvalue(), "stderr": err.getvalue(), "exc": None}


def generate_text(text: str, target: str, scratch: pathlib.Path, snippets: Optional[Dict[str, str]] = None, module: str = "vsdk", root_class: str = "Something") -> Dict[str, Any]:
    """Write the model + default snippets (+ overrides) under scratch and generate. Output under scratch/out."""
    if scratch.exists():
        shutil.rmtree(scratch)
    scratch.mkdir(parents=True)
    mp = scratch / "meta_model.py"
    mp.write_text(text, encoding="utf-8")
    sn = default_snippets(target, module=module, root_class=root_class)
    sn.update(snippets or {})
    write_snippets(scratch / "snippets", sn)
    res = generate(mp, target, scratch / "snippets", scratch / "out")
    res["out_dir"] = str(scratch / "out")
    return res


_sdk_counter = [0]


def generate_python_sdk(text: str, scratch: pathlib.Path, snippets: Optional[Dict[str, str]] = None) -> Dict[str, Any]:
    """Generate the Python SDK under a unique package name and import it.
    Returns the generate() result plus "pkg" (module name) and "mods" (dict of imported submodules) when rc == 0."""
    _sdk_counter[0] += 1
    pkg = "vsdk_%d_%d" % (os.getpid(), _sdk_counter[0])
    res = generate_text(text, "python", scratch, snippets=snippets, module=pkg)
    res["pkg"] = pkg
    res["mods"] = {}
    if res["rc"] != 0:
        return res
    out = pathlib.Path(res["out_dir"])
    pkgdir = out / pkg
    if not (pkgdir / "__init__.py").exists():
        (pkgdir / "__init__.py").write_text("")
    sys.path.insert(0, str(pkgdir.parent))
    try:
        importlib.invalidate_caches()
        for f in sorted(pkgdir.glob("*.py")):
            if f.stem == "__init__":
                continue
            try:
                res["mods"][f.stem] = importlib.import_module("%s.%s" % (pkg, f.stem))
            except Exception as ex:
                res.setdefault("import_errors", {})[f.stem] = exc_obs(ex)
    finally:
        sys.path.remove(str(pkgdir.parent))
    return res


def drop_sdk(res: Dict[str, Any]) -> None:
    pkg = res.get("pkg")
    if pkg:
        for k in [k for k in sys.modules if k == pkg or k.startswith(pkg + ".")]:
            del sys.modules[k]
