"""C15 — schema constraint inference equals the invariant conjunction.

M: MC_ConstraintsAlgo (match / reduce / merge / in-line as a state machine vs Constraints.tla, pinned and repaired design)
G: ConstraintsGen (TLC enumerates the scenario families)      R: harness.run_c15 (real infer_for_schema)
V: ConstraintsTrace (one invariant per clause, structural keys computed by the spec)
"""
import json
import os
import pathlib
import random
import re
from typing import Any, Dict, List

from harness import core, schema_scen

CLAUSES = {
    "Inv_NoException": "inference raised instead of returning a result or an error list",
    "Inv_LenExact": "inferred length range differs from the set of lengths all recognised invariants admit",
    "Inv_PatsExact": "inferred pattern list differs from the recognised pattern calls",
    "Inv_LitsExact": "inferred literal set differs from the intersection of the recognised constant sets",
    "Inv_UnrecognisedIgnored": "an invariant in unrecognised form changed the inferred constraints (misread)",
    "Inv_UnsatReported": "mutually unsatisfiable recognised length constraints were not reported as an error",
    "Inv_ErrorExplainable": "an error was reported although the recognised constraints are satisfiable",
}


def check_library(lib: Dict[str, Any]) -> None:
    """S: the harness's concrete tables are the spec's library, and the spec's pattern semantics agrees with re."""
    for pid, v in schema_scen.PATTERNS.items():
        if sorted(list(r) for r in lib["pats"].get(pid, [])) != sorted(v["ranges"]):
            raise core.MachineryFailure("pattern library differs between Constraints.tla and schema_scen.py: %s" % pid)
    for sid, vals in list(schema_scen.STR_SETS.items()) + list(schema_scen.ENUM_SETS.items()):
        if sorted(lib["sets"].get(sid, [])) != sorted(vals):
            raise core.MachineryFailure("set library differs between Constraints.tla and schema_scen.py: %s" % sid)
    if set(lib["pats"]) != set(schema_scen.PATTERNS) or set(lib["sets"]) != set(schema_scen.STR_SETS) | set(schema_scen.ENUM_SETS):
        raise core.MachineryFailure("library ids differ between Constraints.tla and schema_scen.py")
    bad = schema_scen.selfcheck_library()
    if bad:
        raise core.MachineryFailure("spec pattern semantics disagrees with Python re: %s" % bad[:3])


def validate(ck: core.Check, obs: List[Dict[str, Any]], what: str, chunk: int = 20000):
    """V over all observations; returns (violations as (clause, obs index, key record), keys)."""
    out = []
    keys_all: List[Dict[str, Any]] = []
    for off in range(0, len(obs), chunk):
        part = obs[off : off + chunk]
        pp = ck.work / "obs_part.json"
        kp = ck.work / "keys_part.json"
        core.write_json(pp, part)
        res = ck.tlc("ConstraintsTrace", what=what, env={"VERIF_OBS": str(pp), "VERIF_KEYS": str(kp)}, cont=True, workers=1, timeout=1500)
        keys = core.read_json(kp)
        if len(keys) != len(part) or res.distinct != len(part):
            raise core.MachineryFailure("V consumed %d of %d observations" % (res.distinct, len(part)))
        keys_all.extend(keys)
        for v in res.violations:
            m = re.search(r"\bi = (\d+)", v["state"])
            if not m:
                raise core.MachineryFailure("cannot read the record index of a TLC violation: %r" % v["state"][:200])
            out.append((v["invariant"], off + int(m.group(1)) - 1))
    return out, keys_all


def main() -> int:
    ck = core.Check("C15", "model_checking")
    rnd = random.Random(ck.seed)
    suffix = "" if ck.quick else "_thorough"
    nproc = min(int(os.environ.get("VERIF_NPROC", "12")), os.cpu_count() or 4)

    replay = os.environ.get("VERIF_REPLAY")
    if replay:
        scns = [json.load(open(replay))["case"]]
        n_fam: Any = "replay"
    else:
        # M: the algorithm as designed (with its named deviations) and as repaired, against the declarative meaning
        ck.model_check("MC_ConstraintsAlgo", "MC_ConstraintsAlgo%s.cfg" % suffix, "match/reduce/merge/in-line as pinned (named deviations) vs Admits", workers=16, timeout=1500)
        ck.model_check("MC_ConstraintsAlgo", "MC_ConstraintsAlgo_fixed%s.cfg" % suffix, "match/reduce/merge/in-line as repaired vs Admits (no carve-outs)", workers=16, timeout=1500)
        if not ck.quick:
            ck.model_check("MC_ConstraintsAlgo", "MC_ConstraintsAlgo_live.cfg", "every run of the inference machine reaches an outcome", workers=8, timeout=900)
        # G
        scn_p, lib_p = ck.work / "scenarios.json", ck.work / "lib.json"
        g = ck.tlc("ConstraintsGen", "ConstraintsGen%s.cfg" % suffix, what="G: scenario families", env={"VERIF_OUT": str(scn_p), "VERIF_LIB": str(lib_p)}, count=False, timeout=1500)
        scns = core.read_json(scn_p)
        check_library(core.read_json(lib_p))
        n_fam = g.printed[0] if g.printed else ""
        scns.sort(key=lambda s: json.dumps(s, sort_keys=True))
        rnd.shuffle(scns)

    # R
    scn_p = ck.work / "cases.json"
    obs_p = ck.work / "obs.json"
    core.write_json(scn_p, scns)
    ck.impl("harness.run_c15", [str(scn_p), str(obs_p), str(nproc)], timeout=1500)
    obs = core.read_json(obs_p)
    bad = [o for o in obs if o["outcome"] not in ("ok", "error", "exception")]
    if bad:
        raise core.MachineryFailure("scenario not accepted by the front end / harness error: %s %s" % (bad[0]["outcome"], bad[0]["msg"][:300]))

    # V
    viols, keys = validate(ck, obs, "V: inferred constraints vs declarative meaning")
    for clause, idx in viols:
        o, k = obs[idx], keys[idx]
        key = {"clause": clause, "cause": k["cause"], "kind": k["kind"], "as_if_foreign_guard_dropped": bool(k["as_if_unguarded"]), "outcome": o["outcome"]}
        ck.violation(key, clause, o["scn"], {"outcome": o["outcome"], "levels": o["levels"], "msg": o["msg"], "exc": o["exc"], "frame": o["frame"]}, detail="%s; model:\n%s" % (CLAUSES.get(clause, clause), schema_scen.render(o["scn"])[-900:] if len(viols) < 50 else json.dumps(o["scn"])[:600]))

    # negative control (thorough): a corrupted observation must be rejected by TLC
    if not ck.quick and not replay:
        ok = [o for o in obs if o["outcome"] == "ok" and o["levels"] and o["levels"][0]["v"]["hasmax"]][:20]
        if ok:
            corrupted = json.loads(json.dumps(ok))
            for o in corrupted:
                o["levels"][0]["v"]["max"] += 1
            v2, _ = validate(ck, corrupted, "negative control: corrupted ranges must be rejected")
            if len({i for _, i in v2}) != len(corrupted):
                raise core.MachineryFailure("negative control: TLC accepted %d corrupted observations" % (len(corrupted) - len({i for _, i in v2})))
            ck.cov["negative_control_rejected"] = len(corrupted)

    nontrivial = len({json.dumps(o["scn"], sort_keys=True) for o, k in zip(obs, keys) if k["nontrivial"]})
    ck.cov["evaluations"] = len(obs)
    ck.cov["traces_validated_against_impl"] = len(obs)
    ck.cov["distinct_nontrivial"] = nontrivial
    ck.cov["outcomes"] = {x: sum(1 for o in obs if o["outcome"] == x) for x in ("ok", "error", "exception")}
    ck.cov["by_cause"] = {c: sum(1 for k in keys if k["cause"] == c) for c in sorted({k["cause"] for k in keys})}
    ck.cov["mutually_unsat_scenarios"] = sum(1 for k in keys if k["unsat"])
    ck.cov["with_unrecognised_forms"] = sum(1 for k in keys if k["unrecognised"])
    ck.cov["rule"] = (
        "G: TLC enumerates the scenario families of ConstraintsGen.tla exhaustively (%s): one atom of every form on every kind; "
        "two atoms in one class; two atoms at different places of C1<-C2<-C3 / P1<-P2 / primitive vs class / items vs list; "
        "(thorough) three atoms; pattern calls; constant sets (strings, enumeration literals); mixed. "
        "Non-trivial = the recognised atoms imply some constraint at some level, or the scenario contains an unrecognised form that must be ignored; distinct = distinct scenario" % (n_fam,)
    )
    ck.cov["exhaustive"] = not replay
    ck.cov["samples"] = [{"scenario": o["scn"], "outcome": o["outcome"], "levels": o["levels"]} for o in obs[:3]]
    ck.assumptions += [
        "TLC, SANY, CommunityModules Json",
        "recognised forms = those documented in infer_for_schema (single len comparison with an int literal, pattern call, membership in a constant set; unguarded or guarded by the same property; set membership only on class invariants)",
        "Unsat => error is demanded for length constraints whose atoms are individually satisfiable (mutually unsatisfiable); an empty intersection of constant sets must be inferred exactly, not reported",
        "an error on a satisfiable duplicate '==' in one class is tolerated",
    ]
    if nontrivial == 0:
        raise core.MachineryFailure("vacuous run")
    return ck.finish()
