"""R phase of C05: render each hierarchy case (or read a real meta-model), run the real front end
(run.load_model), project the intermediate symbol table into the vocabulary of specs/Hierarchy.tla.

usage: python -m harness.run_c05 <entries.json> <out.json>
entry: {"case": <TLC case>} | {"path": <meta-model file>} | {"text": <meta-model text>}
"""
import json
import pathlib
import sys
import tempfile

from harness import core, hier, mm


def comparable(h):
    return {k: h[k] for k in ("n", "kind", "bases", "abstract", "props", "invs", "methods", "wmt")}


def main() -> None:
    in_path, out_path = sys.argv[1], sys.argv[2]
    core.assert_repo_bound()
    entries = json.load(open(in_path))
    scratch = pathlib.Path(tempfile.mkdtemp(prefix="c05-"))
    out = []
    for e in entries:
        rec = {"src": e.get("path") or e.get("label") or "", "extract_ok": True, "extract_diff": ""}
        if "case" in e:
            case = e["case"]
            text = hier.render_case(case)
            rec["part"] = case.get("part", "")
            rec["style"] = case.get("style", "")
            rec["rank"] = case.get("rank", [])
        else:
            text = e["text"] if "text" in e else pathlib.Path(e["path"]).read_text(encoding="utf-8")
            rec["part"] = e.get("part", "real")
            rec["style"] = ""
            rec["rank"] = []
        # the source-level hierarchy, read independently of the code under test
        h, names = hier.extract_hierarchy(text)
        if "case" in e:
            want = e["case"]["h"]
            if comparable(want) != comparable(h) or want["ctor"] != h["ctor"] or names != hier.case_names(e["case"]):
                rec["extract_ok"] = False
                rec["extract_diff"] = "case=%s extracted=%s names=%s" % (json.dumps(want), json.dumps(h), names)
        rec["h"] = h
        rec["names"] = names
        res = mm.load_model(text, scratch)
        rec["outcome"] = res["outcome"]
        rec["exc"] = json.dumps(res["exc"]) if res["exc"] else ""
        rec["error"] = str(res["error"])[:400] if res["error"] is not None else ""
        if res["outcome"] == "accepted":
            rec["o"] = hier.project(res["st"], names)
        else:
            rec["o"] = hier.empty_observation(h["n"])
        out.append(rec)
    json.dump(out, open(out_path, "w"))


if __name__ == "__main__":
    main()
