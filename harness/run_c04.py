"""R phase of C04: make the real code report located errors and record where it says they are.

  python -m harness.run_c04 <job.json> <obs.json> <scratch dir>

job = {"planted": [CASE...], "fixtures": [{"path":..., "prefix":..., "smoke": bool}], "table_max": n}
Every observation record has the fields of specs/LocTrace.tla:
  kind "node" | "stderr" | "table", L, C, nl [newline offsets], cands [{"off", "indent"}], txt, positions
plus bookkeeping (src, case, node, msg) that TLC ignores.
"""
import ast
import io
import itertools
import json
import pathlib
import re
import sys
from typing import Any, Dict, List, Optional, Tuple

from harness import core

AT_RE = re.compile(r"At line (\d+) and column (\d+): ")

# ---------------------------------------------------------------------------------------------
# rendering of planted cases
# ---------------------------------------------------------------------------------------------

PREFIX = {
    "none": "",
    "blank2": "\n\n",
    "comment": "# A comment before everything.\n",
    "comment_nonascii_tab": "# é\tü ✓ \U0001F600\n#\n",
    "docstring_multiline": '"""Provide a dummy meta-model é.\n\nWith more text.\n"""\n',
    "formfeed_line": "# page one\n\x0c\n# page two\n",
    "unicode_seps_docstring": '"""Provide a dummy\u2028meta-model\u2029pasted\x85from a PDF.\n"""\n',
    "ctrl_seps_comment": "# a\x0bb\x1cc\x1dd\x1ee\n",
    "ws_first_line": "   \n",
    "indented_comment_first": "    # an indented comment\n",
}

TAIL = {
    "full": '\n__version__ = "V1"\n__xml_namespace__ = "https://dummy.com"\n',
    "no_version": '\n__xml_namespace__ = "https://dummy.com"\n',
    "none": "\n",
}

GAP = {0: "", 1: "\n", 3: "\n# just a comment\n\n"}

CTOR_INT = "\n    def __init__(self, y: int) -> None:\n        self.y = y\n"

PLANT = {
    "stray_assign": "planted = 1 + 1\n",
    "stray_expr": "print(1)\n",
    "bad_import": "import typing\n",
    "early_class": "class Planted(DBC):\n    y: Dict[str, int]\n\n    def __init__(self, y: Dict[str, int]) -> None:\n        self.y = y\n",
    "bad_annotation": "class Planted(DBC):\n    y: Dict[str, int]\n\n    def __init__(self, y: Dict[str, int]) -> None:\n        self.y = y\n",
    "inv_no_desc": "@invariant(lambda self: self.y > 0)\nclass Planted(DBC):\n    y: int\n" + CTOR_INT,
    "unknown_base": "class Planted(Unknown, DBC):\n    y: int\n" + CTOR_INT,
    "bad_lambda": '@invariant(lambda self: self.y @ 2, "Y is fine.")\nclass Planted(DBC):\n    y: int\n' + CTOR_INT,
    "bad_lambda_nonascii": '@invariant(lambda self: len("éé✓") > 0 and self.y @ 2, "Y is fine.")\nclass Planted(DBC):\n    y: int\n' + CTOR_INT,
    "fstring_lambda": '@invariant(lambda self: len(f"{self.y @ 2}") > 0, "Y is fine.")\nclass Planted(DBC):\n    y: int\n' + CTOR_INT,
    "unknown_type": "class Planted(DBC):\n    y: Unknown\n\n    def __init__(self, y: Unknown) -> None:\n        self.y = y\n",
    "bad_func_body": "@verification\ndef planted(x: int) -> bool:\n    while True:\n        pass\n",
    "enum_bad_literal": "class Planted(Enum):\n    A = 1\n",
}


def valid_class(name: str) -> str:
    return "class %s(DBC):\n    x: int\n\n    def __init__(self, x: int) -> None:\n        self.x = x\n" % name


def render_planted(case: Dict[str, Any]) -> str:
    from harness import mm

    plant = PLANT[case["plant"]]
    if case["tab"]:
        plant = plant.replace("\n        ", "\n\t\t").replace("\n    ", "\n\t")
    tail = TAIL[case.get("tail", "full")]
    a, b = valid_class("First") + "\n\n", valid_class("Second") + "\n\n"
    gap = GAP[case["gap"]]
    body_plant = gap + plant + "\n\n"
    where = case["where"]
    if where == "line1":
        text = plant + "\n\n" + mm.HEADER + a + b + tail
    else:
        prefix = PREFIX[case["prefix"]]
        if where == "after_header":
            text = prefix + mm.HEADER + body_plant + a + b + tail
        elif where == "middle":
            text = prefix + mm.HEADER + a + body_plant + b + tail
        else:
            text = prefix + mm.HEADER + a + b + body_plant + tail
    return text


# ---------------------------------------------------------------------------------------------
# candidates: where may the report point?  (from Python's ast data, independent of LinenoColumner)
# ---------------------------------------------------------------------------------------------


class TextIndex:
    def __init__(self, text: str) -> None:
        self.text = text
        self.lines = text.split("\n")
        self.starts = [0]
        for ln in self.lines[:-1]:
            self.starts.append(self.starts[-1] + len(ln) + 1)
        self.nl = [i for i, ch in enumerate(text) if ch == "\n"]

    def offset(self, lineno: int, col_utf8: int) -> int:
        """(1-based line, utf-8 byte column as in ast) -> character offset"""
        line = self.lines[lineno - 1]
        chars = len(line.encode("utf-8")[:col_utf8].decode("utf-8", errors="ignore"))
        return self.starts[lineno - 1] + chars

    def indent_at(self, off: int) -> int:
        ls = self.text.rfind("\n", 0, off) + 1
        n = 0
        while ls + n < len(self.text) and self.text[ls + n] in " \t":
            n += 1
        return n

    def cand(self, off: int) -> Dict[str, int]:
        return {"off": off, "indent": self.indent_at(off)}


def node_starts(ti: TextIndex, node: ast.AST) -> List[int]:
    """start offsets a reader may take for `the first character of the construct`"""
    out: List[int] = []
    if isinstance(node, ast.Module):
        out.append(0)
        body = getattr(node, "body", None)
        if body:  # a reader may also take the first statement as the start of the module
            out.extend(node_starts(ti, body[0]))
        return out
    if hasattr(node, "lineno") and hasattr(node, "col_offset"):
        try:
            out.append(ti.offset(node.lineno, node.col_offset))
        except Exception:
            pass
    decos = getattr(node, "decorator_list", None)
    if decos:
        d = decos[0]
        try:
            off = ti.offset(d.lineno, d.col_offset)
            at = ti.text.rfind("@", 0, off)
            if at >= 0 and ti.text[at:off].strip() == "@":
                out.append(at)
            out.append(off)
        except Exception:
            pass
    return out


def parents_of(tree: ast.AST) -> Dict[int, ast.AST]:
    par: Dict[int, ast.AST] = {}
    for n in ast.walk(tree):
        for c in ast.iter_child_nodes(n):
            par[id(c)] = n
    return par


def candidates_for_node(ti: TextIndex, atok: Any, node: ast.AST, par: Dict[int, ast.AST]) -> List[Dict[str, int]]:
    offs: List[int] = []
    offs.extend(node_starts(ti, node))
    try:
        offs.append(atok.get_text_range(node)[0])  # the construct's first token
    except Exception:
        pass
    cur: Optional[ast.AST] = par.get(id(node))
    while cur is not None:
        if isinstance(cur, ast.stmt):
            offs.extend(node_starts(ti, cur))
            try:
                offs.append(atok.get_text_range(cur)[0])
            except Exception:
                pass
        cur = par.get(id(cur))
    seen = []
    for o in offs:
        if isinstance(o, int) and 0 <= o <= len(ti.text) and o not in seen:
            seen.append(o)
    return [ti.cand(o) for o in seen]


def candidates_all(ti: TextIndex) -> List[Dict[str, int]]:
    tree = ast.parse(ti.text)
    offs = {0}
    for n in ast.walk(tree):
        for o in node_starts(ti, n):
            offs.add(o)
    return [ti.cand(o) for o in sorted(offs)]


# ---------------------------------------------------------------------------------------------
# observation
# ---------------------------------------------------------------------------------------------

LOG: List[Dict[str, Any]] = []
TEXTS: List[str] = []


DEPTH = [0]


def preorder(error: Any) -> List[Any]:
    out = [error]
    for u in (getattr(error, "underlying", None) or []):
        out.extend(preorder(u))
    return out


def analyse(atok: Any, error: Any, res: str) -> None:
    """Walk the Error tree in the order it is rendered and find, for every error, what stands in front of its
    message in the rendered report: nothing but indentation, or an ``At line L and column C: `` prefix.
    (Works for a recursive and for an iterative rendering alike.)"""
    pos = 0
    for e in preorder(error):
        lines = [ln.strip() for ln in str(e.message).splitlines() if ln.strip()]
        if not lines:
            continue
        first = lines[0]
        idx = res.find(first, pos)
        if idx < 0:
            LOG.append({"lost": first[:80]})
            continue
        ls = res.rfind("\n", 0, idx) + 1
        before = res[ls:idx]
        m = re.fullmatch(r"\s*(?:\* )?At line (\d+) and column (\d+): ", before)
        pos = idx + len(first)
        LOG.append({"atok": atok, "node": e.node, "L": int(m.group(1)) if m else 0, "C": int(m.group(2)) if m else 0,
                    "msg": (before.strip() + " " + first)[:120], "prefixed": m is not None, "clean": m is not None or before.strip() in ("", "*")})


def install_wrapper() -> None:
    from aas_core_codegen import common

    original = common.LinenoColumner.error_message

    def wrapped(self: Any, error: Any) -> str:
        DEPTH[0] += 1
        try:
            res = original(self, error)
        except Exception as ex:
            if DEPTH[0] == 1:
                LOG.append({"raised": "%s: %s" % (type(ex).__name__, str(ex)[:100]), "atok": self.atok, "node": getattr(error, "node", None)})
            raise
        finally:
            DEPTH[0] -= 1
        if DEPTH[0] == 0:
            try:
                analyse(self.atok, error, res)
            except Exception as ex:  # the wrapper must never disturb the code under test
                LOG.append({"wrapper_error": repr(ex)})
        return res

    common.LinenoColumner.error_message = wrapped  # type: ignore


def flush_log(src: str, case: Any, tid: int, text: str, ti: "TextIndex", obs: List[Dict[str, Any]], stats: Dict[str, int]) -> None:
    """LOG entries -> observation records of kind node / nonode / raised."""
    pars: Dict[int, Dict[int, ast.AST]] = {}
    for e in LOG:
        if "wrapper_error" in e:
            raise SystemExit("wrapper failed: %s" % e["wrapper_error"])
        if "lost" in e:
            stats["lost"] = stats.get("lost", 0) + 1
            continue
        atok = e["atok"]
        ti_e = ti if atok.text == text else TextIndex(atok.text)
        lead = atok.text[:1] in (" ", "\t", "\x0c")
        tokenless = e.get("node") is not None and not hasattr(e["node"], "first_token")
        if id(atok) not in pars:
            pars[id(atok)] = parents_of(atok.tree)
        if "raised" in e:
            rec = base_record("raised", src, case)
            rec["lead_blank"], rec["tokenless"] = lead, tokenless
            rec["tid"] = tid
            rec["msg"] = e["raised"]
            rec["node"] = type(e["node"]).__name__ if e["node"] is not None else ""
            rec["nl"] = ti_e.nl
            obs.append(rec)
            continue
        if e["node"] is None:
            rec = base_record("nonode", src, case)
            rec["lead_blank"] = lead
            rec["tid"] = tid
            rec["L"], rec["C"] = e["L"], e["C"]
            rec["nl"] = ti_e.nl
            rec["msg"] = e["msg"]
            obs.append(rec)
            stats["unlocated"] = stats.get("unlocated", 0) + 1
            continue
        rec = base_record("node", src, case)
        rec["lead_blank"], rec["tokenless"] = lead, tokenless
        rec["tid"] = tid
        rec["L"], rec["C"] = e["L"], e["C"]  # (0, 0) when a located error carries no prefix
        rec["nl"] = ti_e.nl
        rec["cands"] = candidates_for_node(ti_e, atok, e["node"], pars[id(atok)])
        rec["node"] = type(e["node"]).__name__
        rec["msg"] = e["msg"]
        obs.append(rec)
        stats["located_wrapper"] += 1


def base_record(kind: str, src: str, case: Any) -> Dict[str, Any]:
    return {"kind": kind, "L": 0, "C": 0, "nl": [], "cands": [], "txt": [], "positions": [], "src": src, "case": case, "node": "", "msg": "", "tid": -1, "lead_blank": False, "tokenless": False}


def observe_text(text_bytes: bytes, src: str, case: Any, scratch: pathlib.Path, smoke: bool, obs: List[Dict[str, Any]], stats: Dict[str, int]) -> None:
    from aas_core_codegen import main as cg_main
    from aas_core_codegen.smoke import main as smoke_main
    from harness import mm

    scratch.mkdir(parents=True, exist_ok=True)
    mp = scratch / "meta_model.py"
    mp.write_bytes(text_bytes)
    text = mp.read_text(encoding="utf-8")  # as the tool reads it (universal newlines)
    ti = TextIndex(text)
    TEXTS.append(text)
    tid = len(TEXTS) - 1
    mm.write_snippets(scratch / "snippets", mm.default_snippets("jsonschema"))
    runs = [("main", None)]
    if smoke:
        runs.append(("smoke", None))
    for tool, _ in runs:
        LOG.clear()
        err = io.StringIO()
        exc = None
        try:
            if tool == "main":
                params = cg_main.Parameters(model_path=mp, target=cg_main.Target("jsonschema"), snippets_dir=scratch / "snippets", output_dir=scratch / "out", cache_model=False)
                rc = cg_main.execute(params, stdout=io.StringIO(), stderr=err)
            else:
                rc = smoke_main.execute(model_path=mp, stderr=err)
        except Exception as ex:  # observation (C01/C02 judge it); nothing located to check here
            exc = "%s: %s" % (type(ex).__name__, str(ex)[:200])
            rc = None
        stats["runs"] += 1
        if exc is not None:
            stats["exceptions"] += 1
        # wrapper level
        flush_log("%s:%s" % (tool, src), case, tid, text, ti, obs, stats)
        # stream level
        found = AT_RE.findall(err.getvalue())
        if found:
            allc = candidates_all(ti)
            for (l, c) in found:
                rec = base_record("stderr", "%s:%s" % (tool, src), case)
                rec["lead_blank"] = text[:1] in (" ", "\t", "\x0c")
                rec["tid"] = tid
                rec["L"], rec["C"] = int(l), int(c)
                rec["nl"] = ti.nl
                rec["cands"] = allc
                obs.append(rec)
        stats["located_stream"] += len(found)
        if rc == 0:
            stats["accepted"] += 1


def observe_tables(max_len: int, obs: List[Dict[str, Any]], stats: Dict[str, int], only: Optional[List[str]] = None, alphabet: str = "x\n") -> None:
    """The real LinenoColumner on every tiny text: (1) a located error for EVERY node of the text through
    error_message (public behaviour), (2) its offset table when the implementation still has one."""
    import asttokens
    from aas_core_codegen import common

    texts = only if only is not None else ["".join(tup) for n in range(0, max_len + 1) for tup in itertools.product(alphabet, repeat=n)]
    for text in texts:
        rec = base_record("table", "table", text)
        rec["lead_blank"] = text[:1] in (" ", "\t", "\x0c")
        rec["txt"] = [1 if ch == "\n" else 0 for ch in text]
        try:
            atok = asttokens.ASTTokens(text, parse=True)
        except Exception:
            continue  # not Python: nothing to observe
        LOG.clear()
        try:
            lc = common.LinenoColumner(atok=atok)
            for node in ast.walk(atok.tree):
                if isinstance(node, ast.Module) or hasattr(node, "lineno"):
                    try:
                        lc.error_message(common.Error(node, "tinymessage"))
                    except Exception:
                        pass  # logged by the wrapper as "raised"
        except Exception as ex:
            r2 = base_record("raised", "tiny", text)
            r2["msg"] = "%s: %s" % (type(ex).__name__, str(ex)[:100])
            obs.append(r2)
            continue
        TEXTS.append(text)
        flush_log("tiny", text, len(TEXTS) - 1, text, TextIndex(text), obs, stats)
        positions = getattr(lc, "positions", None)
        if isinstance(positions, list) and all(isinstance(p, tuple) and len(p) == 2 for p in positions):
            rec["positions"] = [[int(a), int(b)] for (a, b) in positions]
            obs.append(rec)


def main() -> None:
    job_path, out_path, scratch = sys.argv[1], sys.argv[2], pathlib.Path(sys.argv[3])
    core.assert_repo_bound()
    job = json.load(open(job_path))
    install_wrapper()
    obs: List[Dict[str, Any]] = []
    stats = {"runs": 0, "exceptions": 0, "located_stream": 0, "located_wrapper": 0, "accepted": 0}
    for i, case in enumerate(job.get("planted", [])):
        text = render_planted(case)
        data = text.encode("utf-8")
        if case["eol"] == "crlf":
            data = text.replace("\n", "\r\n").encode("utf-8")
        observe_text(data, "planted", case, scratch / "p", False, obs, stats)
    for fx in job.get("fixtures", []):
        text = fx.get("prefix", "") + pathlib.Path(fx["path"]).read_text(encoding="utf-8")
        observe_text(text.encode("utf-8"), "fixture", {"path": fx["path"], "prefix": fx.get("prefix", "")}, scratch / "f", bool(fx.get("smoke")), obs, stats)
    for raw in job.get("texts", []):
        observe_text(raw["text"].encode("utf-8"), "replay", raw.get("case"), scratch / "r", bool(raw.get("smoke")), obs, stats)
    if job.get("table_max") is not None:
        observe_tables(int(job["table_max"]), obs, stats, alphabet=job.get("table_alphabet", "x\n"))
    if job.get("table_texts"):
        observe_tables(0, obs, stats, only=list(job["table_texts"]))
    json.dump({"obs": obs, "stats": stats, "texts": TEXTS}, open(out_path, "w"))


if __name__ == "__main__":
    main()
