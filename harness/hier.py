"""Shared helpers of the `hier` group (C05, C06): rendering hierarchy cases, an independent reader of the
source hierarchy (Python `ast` only, nothing from aas_core_codegen), and the projection of the
intermediate symbol table into the vocabulary of specs/Hierarchy.tla.
"""
from __future__ import annotations

import ast
from typing import Any, Dict, List, Optional, Sequence, Tuple

from harness import mm

PRIMITIVES = {"bool", "int", "float", "str", "bytearray"}
IGNORED_BASES = {"DBC", "Enum"}


# ---------------------------------------------------------------------------------------------
# case (TLC) -> abstract meta-model (harness/mm.py) -> text
# ---------------------------------------------------------------------------------------------


def class_name(rank: int, ident: int) -> str:
    """Names sort (as strings) by rank; the declaration position keeps them unique and readable."""
    return "T%dx%d" % (rank, ident)


def case_names(case: Dict[str, Any]) -> List[str]:
    h = case["h"]
    return [class_name(case["rank"][c], c + 1) for c in range(h["n"])]


def _heritage_props(h: Dict[str, Any], c: int, memo: Dict[int, List[str]]) -> List[str]:
    """Rendering aid (not an oracle): the order in which the written constructor lists its arguments."""
    if c in memo:
        return memo[c]
    out: List[str] = []
    for b in h["bases"][c - 1]:
        for p in _heritage_props(h, b, memo):
            if p not in out:
                out.append(p)
    for p in h["props"][c - 1]:
        if p not in out:
            out.append(p)
    memo[c] = out
    return out


def prop_type(name: str) -> str:
    # second own property of a class is optional, to exercise the "optional arguments last" layout
    return "Optional[str]" if name.endswith("x2") else "int"


def render_ctor_text(case: Dict[str, Any], c: int, names: Sequence[str], memo: Dict[int, List[str]]) -> str:
    h = case["h"]
    stmts = h["ctor"][c - 1]
    allp = _heritage_props(h, c, memo)
    if not allp and not stmts:
        return "none"
    req = [p for p in allp if not prop_type(p).startswith("Optional[")]
    opt = [p for p in allp if prop_type(p).startswith("Optional[")]
    args = ["self"] + ["%s: %s" % (p, prop_type(p)) for p in req] + ["%s: %s = None" % (p, prop_type(p)) for p in opt]
    lines = ["    def __init__(%s) -> None:" % ", ".join(args)]
    body = []
    for s in stmts:
        if s["t"] == "super":
            bp = _heritage_props(h, s["b"], memo)
            body.append("        %s.__init__(self%s)" % (names[s["b"] - 1], "".join(", %s=%s" % (p, p) for p in bp)))
        else:
            body.append("        self.%s = %s" % (s["p"], s["p"]))
    if not body:
        body = ["        pass"]
    return "\n".join(lines + body) + "\n"


def case_to_mm(case: Dict[str, Any]) -> Dict[str, Any]:
    h = case["h"]
    names = case_names(case)
    memo: Dict[int, List[str]] = {}
    items = []
    for c in range(1, h["n"] + 1):
        bases = [names[b - 1] for b in h["bases"][c - 1]]
        if h["kind"][c - 1] == "cprim":
            invs = [{"expr": "len(self) > %d" % k, "desc": d} for k, d in enumerate(h["invs"][c - 1])]
            if bases:
                # mm.py renders a single base only; several bases are written out here
                text = mm.render_invs(invs) + "class %s(%s, DBC):\n    pass\n" % (names[c - 1], ", ".join(bases))
                items.append({"kind": "raw", "text": text})
            else:
                items.append({"kind": "cprim", "name": names[c - 1], "base": "str", "invs": invs})
            continue
        wmt = {"none": None, "true": True, "false": False, "bare": None}[h["wmt"][c - 1]]
        # the decorator without the argument is written out (mm.py renders only with_model_type=True/False)
        decorators = ["@serialization()"] if h["wmt"][c - 1] == "bare" else []
        invs = [{"expr": "True", "desc": d} for d in h["invs"][c - 1]]
        methods = ["    @implementation_specific\n    def %s(self) -> int:\n        pass\n" % m for m in h["methods"][c - 1]]
        items.append(
            {
                "kind": "class",
                "name": names[c - 1],
                "bases": bases,
                "abstract": bool(h["abstract"][c - 1]),
                "wmt": wmt,
                "decorators": decorators,
                "props": [{"name": p, "type": prop_type(p)} for p in h["props"][c - 1]],
                "invs": invs,
                "methods": methods,
                "ctor": render_ctor_text(case, c, names, memo),
            }
        )
    return {"items": items}


def render_case(case: Dict[str, Any]) -> str:
    return mm.render(case_to_mm(case))


def python_accepts_hierarchy(h: Dict[str, Any]) -> bool:
    """The quantifier of C05 is 'any declaration order consistent with Python': build the same class
    statements with the real `type` machinery (C3 linearisation) and see whether Python itself takes them."""
    made: List[Any] = []
    try:
        for c in range(h["n"]):
            bases = tuple(made[b - 1] for b in h["bases"][c])
            if len(set(bases)) != len(bases):
                return False
            made.append(type("K%d" % c, bases or (object,), {}))
    except (TypeError, IndexError):
        return False
    return True


# ---------------------------------------------------------------------------------------------
# text -> hierarchy (independent reader of the source; uses only the Python grammar)
# ---------------------------------------------------------------------------------------------


def _decorator_name(d: ast.expr) -> str:
    if isinstance(d, ast.Call):
        d = d.func
    if isinstance(d, ast.Name):
        return d.id
    if isinstance(d, ast.Attribute):
        return d.attr
    return ""


def _string(node: Optional[ast.expr]) -> Optional[str]:
    if isinstance(node, ast.Constant) and isinstance(node.value, str):
        return node.value
    return None


def extract_hierarchy(text: str) -> Tuple[Dict[str, Any], List[str]]:
    """Return (h, names): the hierarchy of classes and constrained primitives as written in ``text``
    (Hierarchy.tla vocabulary; ids are 1-based declaration positions among the hierarchy members).
    Enumerations are not members of the hierarchy."""
    tree = ast.parse(text)
    raw = []
    for node in tree.body:
        if not isinstance(node, ast.ClassDef):
            continue
        base_names = []
        for b in node.bases:
            if isinstance(b, ast.Name):
                base_names.append(b.id)
            elif isinstance(b, ast.Attribute):
                base_names.append(b.attr)
            else:
                base_names.append("?")
        if "Enum" in base_names:
            continue
        raw.append((node, base_names))
    names = [node.name for node, _ in raw]
    index = {n: i + 1 for i, n in enumerate(names)}
    # kind: a constrained primitive inherits from a primitive or from a constrained primitive
    kind: Dict[str, str] = {}
    changed = True
    for node, bases in raw:
        kind[node.name] = "cprim" if any(b in PRIMITIVES for b in bases) else "class"
    while changed:
        changed = False
        for node, bases in raw:
            if kind[node.name] == "class" and any(kind.get(b) == "cprim" for b in bases):
                kind[node.name] = "cprim"
                changed = True
    h: Dict[str, Any] = {"n": len(raw), "kind": [], "bases": [], "abstract": [], "props": [], "invs": [], "methods": [], "wmt": [], "ctor": []}
    for node, bases in raw:
        h["kind"].append(kind[node.name])
        h["bases"].append([index[b] for b in bases if b in index])
        decs = [_decorator_name(d) for d in node.decorator_list]
        h["abstract"].append("abstract" in decs)
        wmt = "none"
        invs: List[str] = []
        for d in node.decorator_list:
            if isinstance(d, ast.Call) and _decorator_name(d) == "serialization":
                wmt = "bare"
                for kw in d.keywords:
                    if kw.arg == "with_model_type" and isinstance(kw.value, ast.Constant):
                        wmt = "true" if kw.value.value is True else ("false" if kw.value.value is False else "bare")
            if isinstance(d, ast.Call) and _decorator_name(d) == "invariant":
                desc = None
                if len(d.args) >= 2:
                    desc = _string(d.args[1])
                for kw in d.keywords:
                    if kw.arg == "description":
                        desc = _string(kw.value)
                invs.append(desc if desc is not None else "?")
        h["wmt"].append(wmt)
        h["invs"].append(invs)
        props: List[str] = []
        methods: List[str] = []
        ctor: List[Dict[str, Any]] = []
        for st in node.body:
            if isinstance(st, ast.AnnAssign) and isinstance(st.target, ast.Name):
                props.append(st.target.id)
            elif isinstance(st, ast.FunctionDef):
                if st.name != "__init__":
                    methods.append(st.name)
                    continue
                for s in st.body:
                    if isinstance(s, ast.Expr) and isinstance(s.value, ast.Call) and isinstance(s.value.func, ast.Attribute) and s.value.func.attr == "__init__" and isinstance(s.value.func.value, ast.Name):
                        ctor.append({"t": "super", "b": index.get(s.value.func.value.id, 0), "p": ""})
                    elif isinstance(s, ast.Assign) and len(s.targets) == 1 and isinstance(s.targets[0], ast.Attribute):
                        ctor.append({"t": "assign", "b": 0, "p": s.targets[0].attr})
        h["props"].append(props if kind[node.name] == "class" else [])
        h["methods"].append(methods if kind[node.name] == "class" else [])
        h["ctor"].append(ctor if kind[node.name] == "class" else [])
    return h, names


# ---------------------------------------------------------------------------------------------
# intermediate symbol table -> observation
# ---------------------------------------------------------------------------------------------


def empty_observation(n: int) -> Dict[str, Any]:
    e: List[List[Any]] = [[] for _ in range(n)]
    return {
        "anc": list(e), "desc": list(e), "cdesc": list(e), "props": list(e), "invs": list(e), "methods": list(e),
        "ctor": list(e), "super": [0] * n, "iface": [False] * n, "wmt": [False] * n, "topo": [],
    }


def project(st: Any, names: Sequence[str]) -> Dict[str, Any]:
    """Project the intermediate symbol table to what a user of the API can see, in terms of ``names``
    (unknown names map to 0)."""
    from aas_core_codegen.intermediate import construction

    index = {n: i + 1 for i, n in enumerate(names)}

    def ident(x: Any) -> int:
        return index.get(str(getattr(x, "name", "")), 0)

    o = empty_observation(len(names))
    by_name = {str(t.name): t for t in st.our_types}
    for i, n in enumerate(names):
        t = by_name.get(n)
        if t is None:
            continue
        o["anc"][i] = [ident(x) for x in getattr(t, "ancestors", [])]
        o["desc"][i] = [ident(x) for x in getattr(t, "descendants", [])]
        o["cdesc"][i] = [ident(x) for x in getattr(t, "concrete_descendants", [])]
        o["invs"][i] = [{"name": str(v.description), "owner": ident(v.specified_for)} for v in getattr(t, "invariants", [])]
        o["props"][i] = [{"name": str(p.name), "owner": ident(p.specified_for)} for p in getattr(t, "properties", [])]
        o["methods"][i] = [{"name": str(m.name), "owner": ident(m.specified_for)} for m in getattr(t, "methods", [])]
        ctor = getattr(t, "constructor", None)
        if ctor is not None:
            stmts = list(ctor.inlined_statements)
            o["ctor"][i] = [str(s.name) for s in stmts if isinstance(s, construction.AssignArgument)]
            o["super"][i] = sum(1 for s in stmts if not isinstance(s, construction.AssignArgument))
        o["iface"][i] = getattr(t, "interface", None) is not None
        ser = getattr(t, "serialization", None)
        o["wmt"][i] = bool(ser is not None and ser.with_model_type)
    o["topo"] = [ident(t) for t in st.our_types_topologically_sorted]
    return o
