// Stand-in for https://github.com/TartanLlama/optional: the generated code only includes it below C++17;
// the /verif checks compile with -std=c++20, where std::optional is used.  Kept so that the include path
// is complete if a generated header ever asks for it.
#ifndef VERIF_SHIM_TL_OPTIONAL_HPP_
#define VERIF_SHIM_TL_OPTIONAL_HPP_
#include <optional>
namespace tl {
using std::make_optional;
using std::nullopt;
using std::optional;
}  // namespace tl
#endif  // VERIF_SHIM_TL_OPTIONAL_HPP_
