"""C23 — model caching is opt-in and transparent.
M: ModelCache (OptIn, Transparent, ReuseOnlySameText, FinalAlwaysComplete hold in the design);
G: CacheHistGen (all run histories up to a length, with edits and evictions);
R: run_c23 (each history through the real main.main argv entry point, audit log of every cache / stray write);
V: ModelCacheTrace (each run must be the spec's run: without the flag no step on the cache at all; with it the
   observed steps, listing after each run and result equal to the uncached reference)."""
import json
import random

from harness import core
from harness import cache_texts
from harness.c24 import validate


def main() -> int:
    ck = core.Check("C23", "model_checking")
    rnd = random.Random(ck.seed)
    ck.model_check("ModelCache", "MC_ModelCache.cfg", "cache protocol incl. runs without the flag (OptIn, Transparent)", workers=16, timeout=900)
    hp = ck.work / "hists.json"
    ck.tlc("CacheHistGen", "CacheHistGen.cfg" if ck.quick else "CacheHistGen_thorough.cfg", what="G: run histories", env={"VERIF_OUT": str(hp)}, count=False)
    hists = core.read_json(hp)
    hists.sort(key=lambda h: json.dumps(h))
    all_targets = ["cpp", "csharp", "golang", "java", "jsonschema", "python", "typescript", "xsd"]
    cases = []
    short = [h for h in hists if len(h) <= 2]
    long = [h for h in hists if len(h) > 2]
    rnd.shuffle(long)
    if ck.quick:
        # every history of <= 2 operations, and a seeded sample of the longer ones; targets rotate
        chosen = short + long[:130]
    else:
        chosen = short + long[:4000]
    for i, h in enumerate(chosen):
        cases.append({"target": "jsonschema" if i % 3 else all_targets[(i // 3) % len(all_targets)], "steps": h})
    if ck.replay_case is not None:
        cases = [ck.replay_case["history"]]
    ip = ck.work / "histories.json"
    core.write_json(ip, {"texts": cache_texts.TEXTS if ck.quick else cache_texts.TEXTS_THOROUGH, "targets": all_targets, "histories": cases})
    tp = ck.work / "traces_out.json"
    ck.impl("harness.run_c23", [str(ip), str(tp), str(ck.work / "cli")], timeout=2400)
    traces = core.read_json(tp)
    res, bad = validate(ck, traces, "run histories through main.main are behaviours of ModelCache")
    for tr, l, inv in bad:
        evs = tr["events"]
        at = evs[l - 1] if 0 < l <= len(evs) else {}
        # which run of the history is it, and was the flag given?
        flag = None
        for e in evs[:l]:
            if e["ev"] == "StartRun":
                flag = e["flag"]
        key = {"clause": inv, "event": at.get("ev", ""), "flag": flag, "res": at.get("res", "")}
        ck.violation(key, inv, {"history": cases[tr["id"]]}, {"events": evs}, detail="history %d (%s) rejected at line %d: %s with flag=%s res=%s stray=%s diff=%s" % (tr["id"], tr["target"], l, at.get("ev"), flag, at.get("res"), at.get("stray"), at.get("diff")))
    nontriv = sum(1 for c in cases if any(s["a"] == "run" and s["flag"] for s in c["steps"]) and len(c["steps"]) >= 2)
    ck.cov["evaluations"] = len(traces)
    ck.cov["traces_validated_against_impl"] = len(traces)
    ck.cov["distinct_nontrivial"] = nontriv
    ck.cov["trace_events"] = sum(len(t["events"]) for t in traces)
    ck.cov["rule"] = "histories of <= 3 operations over run(text, flag on|off) and evict(text), texts = a rich model, an edited model and near-identical variants (leading blank line, trailing blank lines, trailing space) (TLC-enumerated: %d; all of length <= 2 and a seeded sample of length 3 replayed through main.main(argv), targets rotating over all eight); non-trivial = at least two operations with at least one cache-enabled run" % len(hists)
    ck.cov["samples"] = [cases[0], cases[len(cases) // 2]]
    ck.cov["exhaustive"] = False
    ck.assumptions += ["cache directory = <tempfile.gettempdir()>/aas-core-codegen-<version> (the documented location)", "in-process invocation of main.main with patched sys.argv stands for the CLI process"]
    if nontriv == 0 and ck.replay_case is None:
        raise core.MachineryFailure("vacuous")
    return ck.finish()
