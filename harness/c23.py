"""C23 — model caching is opt-in and transparent.
M: ModelCache (OptIn, Transparent, ReuseOnlySameText, FinalAlwaysComplete hold in the design);
G: CacheHistGen (all run histories up to a length, with edits and evictions);
R: run_c23 (each history through the real main.main argv entry point, audit log of every cache / stray write);
V: ModelCacheTrace (each run must be the spec's run: without the flag no step on the cache at all; with it the
   observed steps, listing after each run and result equal to the uncached reference)."""
import json
import random

from harness import core
from harness.c24 import T1, T2, validate


def main() -> int:
    ck = core.Check("C23", "model_checking")
    rnd = random.Random(ck.seed)
    ck.model_check("ModelCache", "MC_ModelCache.cfg", "cache protocol incl. runs without the flag (OptIn, Transparent)", workers=16, timeout=900)
    hp = ck.work / "hists.json"
    ck.tlc("CacheHistGen", "CacheHistGen.cfg" if ck.quick else "CacheHistGen_thorough.cfg", what="G: run histories", env={"VERIF_OUT": str(hp)}, count=False)
    hists = core.read_json(hp)
    hists.sort(key=lambda h: json.dumps(h))
    all_targets = ["cpp", "csharp", "golang", "java", "jsonschema", "python", "typescript", "xsd"]
    cases = []
    if ck.quick:
        for h in hists:
            cases.append({"target": "jsonschema", "steps": h})
        sample = list(hists)
        rnd.shuffle(sample)
        for i, h in enumerate(sample[:70]):
            cases.append({"target": all_targets[i % len(all_targets)], "steps": h})
    else:
        rnd.shuffle(hists)
        for i, h in enumerate(hists):
            cases.append({"target": "jsonschema" if i % 2 == 0 else all_targets[(i // 2) % len(all_targets)], "steps": h})
        cases = cases[:6000]
    if ck.replay_case is not None:
        cases = [ck.replay_case["history"]]
    ip = ck.work / "histories.json"
    core.write_json(ip, {"texts": {"t1": T1, "t2": T2}, "targets": all_targets, "histories": cases})
    tp = ck.work / "traces_out.json"
    ck.impl("harness.run_c23", [str(ip), str(tp), str(ck.work / "cli")], timeout=2400)
    traces = core.read_json(tp)
    res, bad = validate(ck, traces, "run histories through main.main are behaviours of ModelCache")
    for tr, l, inv in bad:
        evs = tr["events"]
        at = evs[l - 1] if 0 < l <= len(evs) else {}
        # which run of the history is it, and was the flag given?
        flag = None
        for e in evs[:l]:
            if e["ev"] == "StartRun":
                flag = e["flag"]
        key = {"clause": inv, "event": at.get("ev", ""), "flag": flag, "res": at.get("res", "")}
        ck.violation(key, inv, {"history": cases[tr["id"]]}, {"events": evs}, detail="history %d (%s) rejected at line %d: %s with flag=%s res=%s stray=%s diff=%s" % (tr["id"], tr["target"], l, at.get("ev"), flag, at.get("res"), at.get("stray"), at.get("diff")))
    nontriv = sum(1 for c in cases if any(s["a"] == "run" and s["flag"] for s in c["steps"]) and len(c["steps"]) >= 2)
    ck.cov["evaluations"] = len(traces)
    ck.cov["traces_validated_against_impl"] = len(traces)
    ck.cov["distinct_nontrivial"] = nontriv
    ck.cov["trace_events"] = sum(len(t["events"]) for t in traces)
    ck.cov["rule"] = "all histories of <= MaxLen operations over run(t1|t2, flag on|off) and evict(t1|t2) (TLC-enumerated: %d), each replayed through main.main(argv) for target jsonschema and a sample for the other targets; non-trivial = at least two operations with at least one cache-enabled run" % len(hists)
    ck.cov["samples"] = [cases[0], cases[len(cases) // 2]]
    ck.cov["exhaustive"] = ck.quick
    ck.assumptions += ["cache directory = <tempfile.gettempdir()>/aas-core-codegen-<version> (the documented location)", "in-process invocation of main.main with patched sys.argv stands for the CLI process"]
    if nontriv == 0 and ck.replay_case is None:
        raise core.MachineryFailure("vacuous")
    return ck.finish()
