"""C04 — reported error locations point at the offending construct.

M: LocAlgo (the incremental table construction as a state machine) against the declarative Line/Col of Loc.tla:
   the repaired design (column reset to 0) must refine it; the design as pinned (reset to 1) must be REJECTED by TLC
   (negative control of the refinement check, and the design-level confirmation of the defect).
G: LocGen (layouts of planted offending constructs), + the repository's negative fixtures with line-shifting prefixes.
R: harness.run_c04 — LinenoColumner.error_message wrapped (node, reported L/C), stderr of main.execute and of the
   smoke tool parsed, the real offset table for all tiny texts.
V: LocTrace — Inv_OneBased, Inv_Line, Inv_NoShift, Inv_Column, Inv_TableRefines.
"""
import bisect
import json
import os
import pathlib
import random
import re
from typing import Any, Dict, List

from harness import core

JVM = ("-Xmx3g", "-XX:ParallelGCThreads=4")
PRIORITY = ["Inv_LocationComputed", "Inv_NoLocationWithoutConstruct", "Inv_OneBased", "Inv_Line", "Inv_NoShift", "Inv_Column", "Inv_TableRefines"]
PREFIXES = ["", "# shifted by a comment é\n\n", '"""Docstring first.\n\nTwo more lines.\n"""\n\n\n']


def fingerprint(o: Dict[str, Any]) -> Dict[str, Any]:
    """structural key of a violating record: by how much is the column off the nearest allowed column of that
    line, is it on a later line, and is it the position right after a newline that starts the text?"""
    if o["kind"] in ("nonode", "raised"):
        return {"delta": None, "later_line": False, "after_leading_newline": False}
    if o["kind"] == "table":
        txt, pos = o["txt"], o["positions"]
        line, col = 1, 0
        for i, p in enumerate(pos):
            col += 1
            want = [line, col]
            isnl = txt[i] == 1
            if (not isnl or i == 0) and p != want:
                return {"delta": p[1] - col if p[0] == line else None, "later_line": line > 1, "after_leading_newline": isnl and i == 0}
            if isnl:
                line, col = line + 1, 0
        return {"delta": None, "later_line": False, "after_leading_newline": False}
    nl = o["nl"]
    best = None
    for k in o["cands"]:
        line = 1 + bisect.bisect_left(nl, k["off"])
        if line != o["L"]:
            continue
        start = 0 if line == 1 else nl[line - 2] + 1
        for col in (k["off"] - start + 1, 1, k["indent"] + 1):
            d = o["C"] - col
            if best is None or abs(d) < abs(best):
                best = d
    return {"delta": best, "later_line": o["L"] > 1, "after_leading_newline": bool(nl) and nl[0] == 0 and o["L"] == 2 and o["C"] in (0, 1)}


def main() -> int:
    replay = os.environ.get("VERIF_REPLAY")
    # (core.Check wipes replays/<id>: read the replay file first)
    replay_doc = core.read_json(pathlib.Path(replay)) if replay else None
    ck = core.Check("C04", "model_checking")
    rnd = random.Random(ck.seed)

    def design_level() -> None:
        # ---- M ----------------------------------------------------------------------------------
        ck.model_check("LocAlgo", "MC_LocAlgo_fixed%s.cfg" % ("" if ck.quick else "_thorough"), "the table construction with column reset to 0 refines the declarative Line/Col on every text over {x, newline}", workers=4, jvm=JVM, timeout=900)
        res = ck.tlc("LocAlgo", "MC_LocAlgo_pinned.cfg", what="M (negative control): the table construction with column reset to 1 must be rejected", workers=1, jvm=JVM, timeout=600)
        if not any(v["invariant"] == "Refines" for v in res.violations):
            raise core.MachineryFailure("the known-bad design (column = 1 after a newline) was not rejected by TLC")
        ck.notes.append("design level: 'column = 1 after a newline' (the pinned design) violates Refines; TLC counterexample text %s" % " ".join((res.var_of(res.violations[0], "txt") or "").split()))
        res = ck.tlc("LocAlgo", "MC_LocAlgo_reset0_everywhere.cfg", what="M (negative control): resetting the column to 0 is still wrong AT a newline (module range of a text that starts with a blank line)", workers=1, jvm=JVM, timeout=600)
        if not any(v["invariant"] == "RefinesEverywhere" for v in res.violations):
            raise core.MachineryFailure("the design 'column = 0 after a newline' was not rejected at newline offsets")
        ck.notes.append("design level: 'column = 0 after a newline' refines the map at token starts but not at newline offsets (counterexample text %s): the repair appends the position before resetting" % " ".join((res.var_of(res.violations[0], "txt") or "").split()))

        res = ck.tlc("LocAlgo", "MC_LocAlgo_splitlines.cfg", what="M (negative control): line starts from str.splitlines are wrong after a form feed / NEL / U+2028", workers=1, jvm=JVM, timeout=600)
        if not any(v["invariant"] == "Refines" for v in res.violations):
            raise core.MachineryFailure("the design 'line starts from str.splitlines' was not rejected")


    m_pool = m_future = None
    if not replay:
        # the design-level runs proceed in the background while G / R / V go on; joined before the verdict
        import concurrent.futures
        m_pool = concurrent.futures.ThreadPoolExecutor(max_workers=1)
        m_future = m_pool.submit(design_level)

    # ---- G ----------------------------------------------------------------------------------
    job: Dict[str, Any] = {"planted": [], "fixtures": [], "texts": []}
    n_cases = 0
    if replay:
        rp = replay_doc
        c = rp["case"]
        if c.get("text") is not None:
            job["texts"].append({"text": c["text"], "case": c.get("case"), "smoke": str(c.get("src", "")).startswith("smoke")})
        else:
            job["table_texts"] = [c["table_text"]]
    else:
        cases_p = ck.work / "cases.json"
        ck.tlc("LocGen", "LocGen.cfg", what="G: layouts of planted offending constructs", env={"VERIF_OUT": str(cases_p)}, count=False, jvm=JVM, timeout=600)
        cases = sorted(core.read_json(cases_p), key=lambda c: json.dumps(c, sort_keys=True))
        n_cases = len(cases)
        rnd.shuffle(cases)
        line1 = [c for c in cases if c["where"] == "line1"]
        rest = [c for c in cases if c["where"] != "line1"]
        job["planted"] = line1 + (rest[:330] if ck.quick else rest)
        d = core.REPO / "dev" / "test_data"
        fixtures = sorted(list(d.glob("parse/unexpected/**/meta_model.py")) + list(d.glob("intermediate/unexpected/**/meta_model.py")))
        for n, p in enumerate(fixtures):
            for k, pre in enumerate(PREFIXES if not ck.quick else PREFIXES[: 1 + (n % 2)] + PREFIXES[2:] * (n % 3 == 0)):
                job["fixtures"].append({"path": str(p), "prefix": pre, "smoke": (n + k) % 4 == 0})
        for p in sorted(d.glob("smoke/test_main/unexpected/**/meta_model.py")):
            job["fixtures"].append({"path": str(p), "prefix": "", "smoke": True})
            job["fixtures"].append({"path": str(p), "prefix": PREFIXES[1], "smoke": True})
        job["table_max"] = 5 if ck.quick else 7
        job["table_alphabet"] = "x\n\x0c "

    # ---- R ----------------------------------------------------------------------------------
    job_p, obs_p = ck.work / "job.json", ck.work / "obs.json"
    core.write_json(job_p, job)
    ck.impl("harness.run_c04", [str(job_p), str(obs_p), str(ck.work / "scratch")])
    out = core.read_json(obs_p)
    obs, stats, texts = out["obs"], out["stats"], out["texts"]
    failed_tables = [o for o in obs if o["kind"] == "table_failed"]
    if failed_tables and len(failed_tables) > len([o for o in obs if o["kind"] == "table"]):
        raise core.MachineryFailure("could not build LinenoColumner for the tiny texts: %s" % failed_tables[0]["msg"])

    # ---- V ----------------------------------------------------------------------------------
    slim = [{k: o[k] for k in ("kind", "L", "C", "nl", "cands", "txt", "positions")} for o in obs]
    counters = {"later": 0, "first": 0, "table": 0, "nonode": 0}
    chunk = 4000
    for off in range(0, len(slim), chunk):
        part = slim[off : off + chunk]
        pp = ck.work / "obs_part.json"
        core.write_json(pp, part)
        res = ck.tlc("LocTrace", what="V: reported positions against the declarative Line/Col", env={"VERIF_OBS": str(pp)}, cont=True, workers=1, jvm=JVM, timeout=900)
        for line in res.printed:
            m = re.search(r"counters\", (\d+), (\d+), (\d+), (\d+), (\d+)", line)
            if m:
                counters["later"] += int(m.group(2))
                counters["first"] += int(m.group(3))
                counters["table"] += int(m.group(4))
                counters["nonode"] += int(m.group(5))
        per_rec: Dict[int, List[str]] = {}
        for v in res.violations:
            mi = re.search(r"(?:^|\n)(?:/\\ )?i = (\d+)", v["state"])
            if not mi:
                raise core.MachineryFailure("cannot read the record index from TLC's report: %s" % v["state"][:300])
            i = int(mi.group(1))
            per_rec.setdefault(off + i - 1, []).append(v["invariant"])
        for idx in sorted(per_rec):
            o = obs[idx]
            inv = next((p for p in PRIORITY if p in per_rec[idx]), per_rec[idx][0])
            key = {"clause": inv, "kind": o["kind"], "lead_blank": bool(o.get("lead_blank")), "tokenless": bool(o.get("tokenless"))}
            key.update(fingerprint(o))
            the_text = texts[o["tid"]] if 0 <= o.get("tid", -1) < len(texts) else (o["case"] if isinstance(o["case"], str) else None)
            key["empty_text"] = the_text == ""
            if o["kind"] == "raised" and o["tid"] < 0:
                case = {"table_text": o["case"]}
                detail = "LinenoColumner on the text %r raised %s" % (o["case"], o["msg"])
            elif o["kind"] == "table":
                case = {"table_text": o["case"]}
                detail = "text %r: table %s" % (o["case"], o["positions"])
            else:
                case = {"text": texts[o["tid"]] if 0 <= o["tid"] < len(texts) else None, "case": o["case"], "src": o["src"]}
                if o["src"] == "tiny":
                    case = {"table_text": o["case"]}
                detail = "%s reported (%d, %d) for %s %r; candidates (offset, line-indent) %s" % (o["src"], o["L"], o["C"], o["node"] or "a construct", o["msg"][:80], [(k["off"], k["indent"]) for k in o["cands"][:6]])
            ck.violation(key, inv, case, {"L": o["L"], "C": o["C"], "node": o["node"], "msg": o["msg"], "violated": per_rec[idx]}, detail=detail)

    if m_future is not None:
        m_future.result()
        m_pool.shutdown()
    if not replay and counters["nonode"] == 0:
        raise core.MachineryFailure("vacuous run: no error without a construct was rendered next to located ones")
    n_loc = len([o for o in obs if o["kind"] in ("node", "stderr")])
    n_tab = len([o for o in obs if o["kind"] == "table"])
    ck.cov["evaluations"] = len(obs)
    ck.cov["traces_validated_against_impl"] = len(obs)
    ck.cov["distinct_nontrivial"] = min(len(obs), counters["later"] + counters["table"])
    ck.cov["exhaustive"] = True
    ck.cov["rule"] = (
        "G: TLC enumerates %d layouts (13 planted offending constructs x position in the file incl. line 1 x text before it "
        "(blank lines, comments with tabs and non-ASCII, multi-line docstring, form feed, VT/FS/GS/RS, NEL/U+2028/U+2029, blank-with-spaces or indented-comment first line) x gap x LF/CRLF x tab indentation x which mandatory assignments are missing); quick runs a seeded sample. "
        "+ the %d negative fixtures of dev/test_data (parse, intermediate, smoke) with line-shifting prefixes, through main.execute and the smoke tool. "
        "%d runs, %d located errors seen at LinenoColumner.error_message, %d 'At line' prefixes in stderr; + the real columner (a located error per AST node, and its table) for the %d parsable texts of <= %s characters over {x, newline, form feed, blank}. "
        "non-trivial = a located report on a line after the first (%d; on line 1: %d) or a table with a character after a newline (%d); errors without a construct rendered inside reports: %d"
        % (n_cases, len({f["path"] for f in job["fixtures"]}), stats["runs"], stats["located_wrapper"], stats["located_stream"], n_tab, job.get("table_max"), counters["later"], counters["first"], counters["table"], counters["nonode"])
    )
    sample = [o for o in obs if o["kind"] == "node"]
    ck.cov["samples"] = [{"src": o["src"], "case": o["case"], "node": o["node"], "reported": [o["L"], o["C"]], "msg": o["msg"][:100]} for o in (sample[:1] + sample[len(sample) // 2 : len(sample) // 2 + 1] + sample[-1:])]
    ck.cov["run_stats"] = stats
    ck.assumptions += [
        "TLC, SANY, CommunityModules Json; CPython's ast line/column data (candidates are computed from it, not from LinenoColumner)",
        "allowed columns: first character of the construct, column 1, or the first non-blank character of the line; allowed lines: the construct's own start (with or without decorators) or the start of any statement enclosing it",
        "stderr-level records do not tell which construct they are about: every construct start of the text is a candidate (weak); the node-level records carry the binding",
    ]
    if not replay and (counters["later"] == 0 or n_loc == 0):
        raise core.MachineryFailure("vacuous run: no located error on a later line was observed")
    return ck.finish()
