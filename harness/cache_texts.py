"""Model texts used by the cache checks (C23/C24): one text that exercises most intermediate types that get
pickled (enumeration, constant set with superset_of, constrained-primitive chain, abstract class with model
type, diamond, pattern and transpilable verification functions, descriptions) and its near-identical variants,
which differ only in ways a careless key derivation could conflate."""

RICH = '''"""Provide a small meta-model for the cache checks."""
from enum import Enum
from re import match
from typing import List, Optional, Set

from icontract import invariant, DBC

from aas_core_meta.marker import abstract, serialization, verification, constant_set


@verification
def matches_id(text: str) -> bool:
    """Check that :paramref:`text` is an identifier."""
    pattern = f"^[a-zA-Z][a-zA-Z0-9_]*$"
    return match(pattern, text) is not None


@verification
def is_short(text: str) -> bool:
    """Check that :paramref:`text` is short."""
    return len(text) <= 8


class Color(Enum):
    """Represent a colour."""

    Red = "RED"
    Green = "GREEN"
    Blue = "BLUE"


Warm_colors: Set[Color] = constant_set(
    values=[Color.Red],
    description="Colours that are warm.",
)

Vivid_colors: Set[Color] = constant_set(
    values=[Color.Red, Color.Green],
    description="Colours that are vivid.",
    superset_of=[Warm_colors],
)


@invariant(lambda self: len(self) > 0, "Non-empty")
class Name(str, DBC):
    """Represent a non-empty name."""


@invariant(lambda self: matches_id(self), "Name is an identifier")
@invariant(lambda self: is_short(self), "Name is short")
class Identifier(Name, DBC):
    """Represent an identifier."""


class Marker(DBC):
    """Represent a marker with :attr:`ident`."""

    ident: Identifier

    def __init__(self, ident: Identifier) -> None:
        self.ident = ident


@abstract
@serialization(with_model_type=True)
@invariant(lambda self: self.count >= 0, "Count is non-negative")
class Node(DBC):
    """Represent a node."""

    name: str
    count: int

    def __init__(self, name: str, count: int) -> None:
        self.name = name
        self.count = count


@abstract
class Colored(Node, DBC):
    """Represent something with a colour."""

    color: Optional[Color]

    def __init__(self, name: str, count: int, color: Optional[Color] = None) -> None:
        Node.__init__(self, name, count)
        self.color = color


@abstract
class Labelled(Node, DBC):
    """Represent something with tags."""

    tags: Optional[List[Marker]]

    def __init__(self, name: str, count: int, tags: Optional[List[Marker]] = None) -> None:
        Node.__init__(self, name, count)
        self.tags = tags


@invariant(
    lambda self: not (self.color is not None) or self.color in Vivid_colors,
    "Colour must be vivid",
)
@invariant(
    lambda self: not (self.tags is not None) or len(self.tags) <= 3,
    "At most three tags",
)
class Leaf(Colored, Labelled, DBC):
    """Represent a leaf with :attr:`color` and :attr:`tags`."""

    payload: bytearray

    def __init__(
        self,
        name: str,
        count: int,
        payload: bytearray,
        color: Optional[Color] = None,
        tags: Optional[List[Marker]] = None,
    ) -> None:
        Colored.__init__(self, name, count, color)
        Labelled.__init__(self, name, count, tags)
        self.payload = payload


class Something(DBC):
    """Represent the root: a container of :class:`Node`."""

    title: Name
    nodes: List[Node]
    best: Optional[Leaf]

    def __init__(self, title: Name, nodes: List[Node], best: Optional[Leaf] = None) -> None:
        self.title = title
        self.nodes = nodes
        self.best = best


__version__ = "V1"
__xml_namespace__ = "https://dummy.com"
'''

T1 = RICH
T2 = RICH.replace('"Count is non-negative"', '"Count is not negative"')
# near-identical variants of T1: same tokens, different bytes
T3 = "\n" + RICH  # one leading blank line (shifts every line number)
T4 = RICH.rstrip("\n") + "\n\n\n"  # extra trailing blank lines
T5 = RICH.replace("\n", "\r\n")  # CRLF line endings
T6 = RICH.replace('__version__ = "V1"', '__version__ = "V1" ')  # one trailing space on a line

TEXTS = {"t1": T1, "t2": T2, "t3": T3, "t4": T4}
# NOTE: the CRLF variant (T5) is deliberately NOT among the texts: the generator reads the model in text mode (universal
# newlines), so for the program T5 *is* T1 and sharing the entry is correct (a thorough-tier false alarm of an earlier
# version of this check).
TEXTS_THOROUGH = {"t1": T1, "t2": T2, "t3": T3, "t4": T4, "t5": T6}
