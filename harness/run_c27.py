"""R phase of C27: call the real common.wrap_text_into_lines on every case."""
import json
import sys

from harness import core


def main() -> None:
    cases_path, out_path = sys.argv[1], sys.argv[2]
    core.assert_repo_bound()
    from aas_core_codegen import common

    cases = json.load(open(cases_path))
    obs = []
    for c in cases:
        text = core.from_cps(c["text"])
        try:
            segs = common.wrap_text_into_lines(text, line_width=c["width"])
            first = [core.cps(s) for s in segs]
            # a caller may do what it likes with the returned list: a second call must not be affected (history of calls)
            try:
                segs.append("<mutated by the caller>")
                segs[0] = "<mutated by the caller>"
            except Exception:
                pass
            again = common.wrap_text_into_lines(text, line_width=c["width"])
            obs.append({"text": c["text"], "width": c["width"], "outcome": "ok", "segs": first, "segs2": [core.cps(s) for s in again], "exc": ""})
        except Exception as ex:  # an observation, not a harness crash
            obs.append({"text": c["text"], "width": c["width"], "outcome": "exception", "segs": [], "segs2": [], "exc": "%s: %s" % (type(ex).__name__, str(ex)[:200])})
    json.dump(obs, open(out_path, "w"))


if __name__ == "__main__":
    main()
