"""Orchestration shared by C13 and C14 (group xsd): M (XsdDesign) -> G (XsdGen, cached) -> select -> R (harness.run_cNN)
-> V (XsdTrace13 / XsdTrace14) -> violations / evidence.  The two checks differ in the clauses (cfg of the V phase), in
the mix of scenarios and in the non-vacuity rule."""
from __future__ import annotations

import concurrent.futures
import hashlib
import json
import os
import pathlib
import random
import re
import threading
import time
from typing import Any, Dict, List, Optional, Tuple

from harness import core

GEN_SPECS = ["XsdRegex.tla", "XsdConstraints.tla", "XsdTrees.tla", "XsdGen.tla"]
FEATURES = ["enc_meta", "enc_set_meta", "uni_esc", "esc_dollar", "lit_bs", "del_char", "multi", "multi_dotrep", "multi_negset", "multi_esc"]

# per (property, tier): how many cores of each family are taken (after stratified seeded shuffling), the wall-clock
# budget of the R phase, and the value bounds.  The R phase stops taking new scenarios at its deadline; what was
# actually run is what the evidence reports.
PLANS: Dict[Tuple[str, str], Dict[str, Any]] = {
    ("C13", "quick"): {"cfg": "XsdGen.cfg", "take": {"pat": 420, "multi": 160, "len": 260}, "r_budget": 42, "min_done": 10,
                       "opts": {"max_len": 4, "max_str": 3, "max_strings": 130, "mutations": False, "gen_timeout": 15}},
    ("C13", "thorough"): {"cfg": "XsdGen_thorough.cfg", "take": {"pat": 100000, "multi": 2600, "len": 2400}, "r_budget": 380, "min_done": 100,
                          "opts": {"max_len": 5, "max_str": 3, "max_strings": 200, "mutations": False, "gen_timeout": 30}},
    ("C14", "quick"): {"cfg": "XsdGen.cfg", "take": {"pat": 170, "multi": 70, "len": 520}, "r_budget": 42, "min_done": 10,
                       "opts": {"max_len": 4, "max_str": 3, "max_strings": 110, "mutations": True, "gen_timeout": 15}},
    ("C14", "thorough"): {"cfg": "XsdGen_thorough.cfg", "take": {"pat": 1500, "multi": 900, "len": 6500}, "r_budget": 380, "min_done": 100,
                          "opts": {"max_len": 5, "max_str": 3, "max_strings": 200, "mutations": True, "gen_timeout": 30}},
}


# ---------------------------------------------------------------------------------------------
# G
# ---------------------------------------------------------------------------------------------


def generate_cores(ck: core.Check, cfg: str) -> Dict[str, Any]:
    h = hashlib.sha1()
    for n in GEN_SPECS + [cfg]:
        h.update((core.SPECS / n).read_bytes())
    cache = core.VERIF / "work" / "gen" / ("xsd-%s.json" % h.hexdigest()[:16])
    if cache.exists():
        try:
            d = core.read_json(cache)
            ck.notes.append("G: cores taken from cache %s (sha of spec + cfg); printed by TLC when generated: %s" % (cache.name, d.get("_printed")))
            ck.cov["tlc_runs"].append({"what": "G: scenario cores (cached result of XsdGen / %s)" % cfg, "cmd": d.get("_cmd", ""), "generated": 0, "distinct": 0, "wall_s": 0, "violations": 0})
            return d
        except Exception:
            pass
    out = ck.work / "cores.json"
    res = ck.tlc("XsdGen", cfg, what="G: scenario cores", env={"VERIF_OUT": str(out)}, count=False, timeout=2400)
    d = core.read_json(out)
    d["_printed"] = res.printed
    d["_cmd"] = res.cmd.replace(str(core.VERIF) + "/", "")
    cache.parent.mkdir(parents=True, exist_ok=True)
    tmp = cache.with_suffix(".tmp%d" % os.getpid())
    tmp.write_text(json.dumps(d))
    os.replace(tmp, cache)
    return d


def compatible(c: Dict[str, Any], sh: Dict[str, Any]) -> bool:
    """Mirror of XsdConstraints!SrcOk for the shape dimension (V re-checks WellFormed on every scenario)."""
    has_desc = any(k["src"] == "desc" for k in list(c["atoms"]) + list(c["pats"]))
    if has_desc and not sh["pa"] < sh["L"]:
        return False
    return True


def select(cores: Dict[str, Any], take: Dict[str, int], rnd: random.Random) -> List[Dict[str, Any]]:
    """Stratified, seeded order: strata = (family, kind, features, number of constraints); round-robin over strata so
    that every prefix of the list is representative (the R phase may stop at its deadline)."""
    shapes = cores["shapes"]
    per_fam: Dict[str, List[Dict[str, Any]]] = {}
    for fam in ("pat", "multi", "len"):
        strata: Dict[str, List[Dict[str, Any]]] = {}
        for c in cores[fam]:
            key = "%s|%s|%s|%d" % (c["kind"], "+".join(c["feat"]), ",".join(sorted(k["src"] for k in list(c["atoms"]) + list(c["pats"]))), len(c["atoms"]))
            strata.setdefault(key, []).append(c)
        keys = sorted(strata)
        for k in keys:
            strata[k].sort(key=lambda c: json.dumps(c, sort_keys=True))
            rnd.shuffle(strata[k])
        rnd.shuffle(keys)
        order: List[Dict[str, Any]] = []
        depth = 0
        while len(order) < min(take[fam], len(cores[fam])):
            progressed = False
            for k in keys:
                if depth < len(strata[k]):
                    order.append(strata[k][depth])
                    progressed = True
            depth += 1
            if not progressed:
                break
        per_fam[fam] = order[: take[fam]]
    # interleave the families proportionally
    out: List[Dict[str, Any]] = []
    total = sum(len(v) for v in per_fam.values())
    pos = {f: 0 for f in per_fam}
    while len(out) < total:
        f = max(per_fam, key=lambda g: (len(per_fam[g]) - pos[g]) / max(1, len(per_fam[g])))
        c = per_fam[f][pos[f]]
        pos[f] += 1
        shs = [s for s in shapes if compatible(c, s)]
        sh = rnd.choice(shs)
        sc = {"fam": c["fam"], "kind": c["kind"], "L": sh["L"], "pa": sh["pa"], "opt": sh["opt"], "cpo": sh.get("cpo", 0), "atoms": c["atoms"], "pats": c["pats"], "alpha": c["alpha"], "feat": c["feat"], "id": len(out) + 1}
        out.append(sc)
    return out


# ---------------------------------------------------------------------------------------------
# V
# ---------------------------------------------------------------------------------------------

V_FIELDS = ("sc", "gen", "loads10", "loads11", "xpats", "shapes", "vals", "muts")


def n_states(o: Dict[str, Any]) -> int:
    return 1 + len(o["vals"]) + len(o["muts"])


def chunks_of(obs: List[Dict[str, Any]], max_states: int) -> List[List[Dict[str, Any]]]:
    out: List[List[Dict[str, Any]]] = [[]]
    n = 0
    for o in obs:
        if out[-1] and n + n_states(o) > max_states:
            out.append([])
            n = 0
        out[-1].append(o)
        n += n_states(o)
    return [c for c in out if c]


def alias_field(state: str, name: str) -> str:
    m = re.search(r"(?:^|\n)\s*(?:/\\ )?%s = (.*?)(?=\n\s*(?:/\\ )?\w+ = |\Z)" % re.escape(name), state, re.S)
    return m.group(1).strip() if m else ""


def decode_value(t: List[Any]) -> Dict[str, Any]:
    return {"inst": t[0], "none": bool(t[1]), "cnt": t[2], "len": t[3], "usestr": bool(t[4]), "str": core.from_cps(t[5]) if t[4] else None}


def describe(sc: Dict[str, Any], o: Dict[str, Any]) -> Dict[str, Any]:
    return {"fam": sc["fam"], "kind": sc["kind"], "L": sc["L"], "pa": sc["pa"], "opt": sc["opt"], "cprim_declaration_order": o.get("cpo", 0), "atoms": sc["atoms"], "patterns": [{"src": p["src"], "text": t} for p, t in zip(sc["pats"], o.get("ptexts", []))]}


def run_v(ck: core.Check, module: str, obs: List[Dict[str, Any]], max_states: int, parallel: int) -> Tuple[List[Tuple[Dict[str, Any], Dict[str, Any]]], List[str]]:
    """Returns ([(violation record from TLC, observation)], printed counter lines)."""
    parts = chunks_of(obs, max_states)
    lock = threading.Lock()
    found: List[Tuple[Dict[str, Any], Dict[str, Any]]] = []
    printed: List[str] = []
    machinery: List[str] = []

    def one(q: int) -> None:
        part = parts[q]
        wd = ck.work / ("v%d" % q)
        pp = wd / "obs.json"
        core.write_json(pp, [{k: o[k] for k in V_FIELDS} for o in part])
        res = core.run_tlc(module, module + ".cfg", workdir=wd, env={"VERIF_OBS": str(pp)}, cont=True, workers=2, timeout=1500, jvm=("-Xmx4g",))
        with lock:
            ck.cov["states"] += res.distinct
            ck.cov["transitions"] += res.generated
            ck.cov["tlc_runs"].append({"what": "V: %s chunk %d/%d (%d scenarios)" % (module, q + 1, len(parts), len(part)), "cmd": res.cmd.replace(str(core.VERIF) + "/", ""), "generated": res.generated, "distinct": res.distinct, "wall_s": round(res.wall, 2), "violations": len(res.violations)})
            try:
                core.tlc_must_pass(res, "V %s chunk %d" % (module, q))
            except core.MachineryFailure as ex:
                machinery.append(str(ex))
                return
            expected = sum(n_states(o) for o in part)
            if res.distinct != expected:
                machinery.append("V %s chunk %d: TLC saw %d states, expected %d" % (module, q, res.distinct, expected))
                return
            printed.extend(res.printed)
            for v in res.violations:
                v["state"] = re.split(r"\n(?:Computed \d+ initial|Finished computing)", v["state"])[0]
                i = int(alias_field(v["state"], "i") or "0")
                if not 1 <= i <= len(part):
                    machinery.append("cannot locate violating record: %s" % v["state"][:200])
                    continue
                found.append((v, part[i - 1]))

    with concurrent.futures.ThreadPoolExecutor(max_workers=parallel) as ex:
        list(ex.map(one, range(len(parts))))
    if machinery:
        raise core.MachineryFailure("; ".join(machinery[:3]))
    return found, printed


def to_violation(ck: core.Check, v: Dict[str, Any], o: Dict[str, Any]) -> None:
    inv = v["invariant"]
    st = re.split(r"\n(?:Computed \d+ initial|Finished computing)", v["state"])[0]
    j = int(alias_field(st, "j") or "0")
    sc = o["sc"]
    feats = "+".join(o.get("feat", [])) or "none"
    key: Dict[str, Any] = {"clause": inv, "fam": sc["fam"], "kind": sc["kind"]}
    for f in FEATURES:  # structural fingerprint computed by the spec (XsdConstraints!ScenarioFeatures)
        key[f] = f in o.get("feat", [])
    case: Dict[str, Any] = {"scenario": {**sc, "alpha": o.get("alpha", []), "feat": o.get("feat", []), "id": o.get("id", 0), "cpo": o.get("cpo", 0)}, "described": describe(sc, o)}
    observation: Dict[str, Any] = {"gen": o["gen"], "loads10": o["loads10"], "loads11": o["loads11"], "xsd_patterns": [core.from_cps(p) for p in o["xpats"]], "detail": o.get("detail", ""), "load_err": o.get("load_err", "")}
    nv = len(o["vals"])
    detail = "%s %s patterns=%s atoms=%s -> xsd=%s" % (sc["kind"], feats, o.get("ptexts"), [(a["src"], a["op"], a["c"], a["side"]) for a in sc["atoms"]], observation["xsd_patterns"])
    if j == 0:
        key["sat"] = alias_field(st, "sat") == "TRUE"
        if inv == "Inv_PatternGrammar":
            key["badesc"] = re.sub(r"\s+", "", alias_field(st, "badesc"))
        if inv == "Inv_Generated":
            detail += " REFUSED: " + o.get("detail", "")[-220:]
        if inv.startswith("Inv_SchemaLoads"):
            detail += " LOAD: " + o.get("load_err", "")[:220]
    elif j <= nv:
        r = o["vals"][j - 1]
        case["value"] = decode_value(r[0])
        observation.update({"verify_ok": bool(r[1]), "re_ok": bool(r[2]), "xsd10": r[3], "xsd11": r[4]})
        broken = sorted(re.findall(r'"(\w+)"', alias_field(st, "broken")))
        key["broken"] = "+".join(broken) or "none"
        detail += " value=%r verdicts(1.0,1.1)=%s,%s broken=%s" % (case["value"], r[3], r[4], key["broken"])
    else:
        r = o["muts"][j - nv - 1]
        case["value"] = decode_value(r[0])
        case["mutation"] = {"kind": r[1][0], "at": r[1][1], "in": r[1][2]}
        key["mutation"] = r[1][0]
        key["in"] = r[1][2]
        observation.update({"xsd10": r[3], "xsd11": r[4]})
        detail += " mutation=%s verdicts=%s,%s" % (case["mutation"], r[3], r[4])
    ck.violation(key, inv, case, observation, detail)


# ---------------------------------------------------------------------------------------------
# the check
# ---------------------------------------------------------------------------------------------


def run_check(pid: str, level: str, model_check: Any = None) -> int:
    ck = core.Check(pid, level)
    module = "XsdTrace13" if pid == "C13" else "XsdTrace14"
    plan = dict(PLANS[(pid, ck.tier)])
    scale = float(os.environ.get("VERIF_XSD_SCALE", "1"))  # development aid: shrink the sample (and the minimum) uniformly
    if os.environ.get("VERIF_XSD_BUDGET"):  # development aid: another wall-clock budget for the R phase
        plan["r_budget"] = int(os.environ["VERIF_XSD_BUDGET"])
    if scale != 1:
        plan["take"] = {k: max(1, int(v * scale)) for k, v in plan["take"].items()}
        plan["min_done"] = max(1, int(plan["min_done"] * scale))
    rnd = random.Random(ck.seed)
    replay = os.environ.get("VERIF_REPLAY")
    # M runs beside G and R (TLC on its own cores); its verdict is collected before V
    m_error: List[BaseException] = []
    m_thread: Optional[threading.Thread] = None
    if model_check is not None and not replay and not os.environ.get("VERIF_XSD_SKIP_M"):  # (the variable is a development aid)

        def run_m() -> None:
            try:
                model_check(ck)
            except BaseException as ex:  # re-raised in the main thread
                m_error.append(ex)

        m_thread = threading.Thread(target=run_m)
        m_thread.start()
    if replay:
        rp = json.loads(pathlib.Path(replay).read_text())
        sc = dict(rp["case"]["scenario"])
        sc["id"] = 1
        scenarios = [sc]
        budget = 600
        ck.notes.append("replay of %s" % replay)
    else:
        cores = generate_cores(ck, plan["cfg"])
        scenarios = select(cores, plan["take"], rnd)
        budget = plan["r_budget"]
    # R
    opts = dict(plan["opts"])
    opts["budget"] = budget  # seconds, counted by the runner from the moment its workers are up
    job = ck.work / "job.json"
    obs_p = ck.work / "obs.json"
    core.write_json(job, {"scenarios": scenarios, "opts": opts, "procs": 8})
    t0 = time.time()
    ck.impl("harness.run_%s" % pid.lower(), [str(job), str(obs_p)], timeout=plan["r_budget"] + 600)
    r_wall = time.time() - t0
    raw = core.read_json(obs_p)
    errs = [o for o in raw if "harness_error" in o]
    if errs:
        raise core.MachineryFailure("runner failed on %d scenario(s): %s" % (len(errs), errs[0]["harness_error"][-800:]))
    obs = [o for o in raw if not o.get("skipped")]
    by_id = {s["id"]: s for s in scenarios}
    for o in obs:
        o["alpha"] = by_id[o["id"]].get("alpha", [])
    n_skipped = len(raw) - len(obs)
    if not replay and len(obs) < plan["min_done"]:
        raise core.MachineryFailure("R phase processed only %d of %d scenarios within its budget of %ds (machine too busy?)" % (len(obs), len(raw), plan["r_budget"]))
    gens: Dict[str, int] = {}
    for o in obs:
        gens[o["gen"]] = gens.get(o["gen"], 0) + 1
    judged = [o for o in obs if o["gen"] != "model_rejected"]
    if m_thread is not None:
        m_thread.join()
        if m_error:
            raise m_error[0]
    # V
    found, printed = run_v(ck, module, judged, max_states=30000 if ck.quick else 60000, parallel=4)
    machinery = [(v, o) for v, o in found if v["invariant"].startswith("S_")]
    if machinery:
        v, o = machinery[0]
        raise core.MachineryFailure("oracle self-check %s failed on %d record(s), e.g. scenario %s state %s" % (v["invariant"], len(machinery), json.dumps(describe(o["sc"], o))[:600], v["state"][:300]))
    for v, o in found:
        to_violation(ck, v, o)
    # counters printed by TLC
    tag = "counts13" if pid == "C13" else "counts14"
    sums: List[int] = []
    for line in printed:
        m = re.search(r"%s\", (.*)>>" % tag, line)
        if m:
            nums = [int(x) for x in re.findall(r"-?\d+", m.group(1))]
            sums = nums if not sums else [a + b for a, b in zip(sums, nums)]
    n_docs = sum(len(o["vals"]) for o in judged)
    n_muts = sum(1 for o in judged for m in o["muts"] if m[2] == 1)
    ck.cov["evaluations"] = len(judged) + n_docs + n_muts
    ck.cov["traces_validated_against_impl"] = len(judged) + n_docs + n_muts
    ck.cov["scenarios_selected"] = len(raw)
    ck.cov["scenarios_run"] = len(obs)
    ck.cov["scenarios_skipped_at_deadline"] = n_skipped
    ck.cov["generator_outcomes"] = gens
    ck.cov["r_wall_s"] = round(r_wall, 1)
    ck.cov["exhaustive"] = False
    if pid == "C13":
        # counts13: scenarios, with a loaded schema, valid documents, valid documents of pattern scenarios, spec/SDK disagreements
        with_schema, valid, valid_pat, disagree = (sums + [0] * 5)[1:5]
        nontrivial = valid
        ck.cov["scenarios_with_loaded_schema"] = with_schema
        ck.cov["valid_documents"] = valid
        ck.cov["valid_documents_in_pattern_scenarios"] = valid_pat
        ck.cov["spec_vs_sdk_verify_disagreements"] = disagree
        ck.cov["rule"] = ("G: TLC enumerates scenario cores (kind x length atoms at sources own/desc/cprim/cprim_anc; kind x 1..3 pattern trees with encoded metacharacters, "
                          "escapes, ranges, quantifiers) and shapes (chain length, own class, optional); a stratified seeded sample of core x shape is run; per scenario all lengths 0..max "
                          "/ all strings <= 3 over the pattern's boundary alphabet are written by the generated SDK and validated under XSD 1.0 and 1.1. Non-trivial = an SDK-written document of an "
                          "instance that is valid by the spec's conjunction and by the SDK's verify(), against a schema that loaded (counted by TLC); evaluations = scenarios + documents")
    else:
        with_schema, must, excl, excl_acc, nmut, disagree = (sums + [0] * 7)[1:7]
        nontrivial = must + nmut
        ck.cov["scenarios_with_loaded_schema"] = with_schema
        ck.cov["must_reject_documents"] = must
        ck.cov["only_excluded_violations"] = excl
        ck.cov["only_excluded_violations_accepted_by_schema"] = excl_acc
        ck.cov["mutated_documents"] = nmut
        ck.cov["spec_vs_sdk_verify_disagreements"] = disagree
        ck.cov["rule"] = ("G as for C13, with more length scenarios; per scenario every length 0..max (string / bytes / list size / item length) and, for pattern scenarios, every string <= 3 over the "
                          "boundary alphabet is written by the SDK, plus every single element mutation (unknown / misplaced / missing required / duplicate / wrong namespace, at every position, also inside "
                          "lists) of one valid document per instantiated class. Non-trivial = a document that breaks a recognised constraint of the property's own class or of a constrained primitive "
                          "(MustReject, counted by TLC) or an applied mutation, against a schema that loaded")
    ck.cov["distinct_nontrivial"] = min(nontrivial, ck.cov["evaluations"])
    samples = []
    for o in (judged[:1] + judged[len(judged) // 2 : len(judged) // 2 + 1] + judged[-1:]):
        s = describe(o["sc"], o)
        s["xsd_patterns"] = [core.from_cps(p) for p in o["xpats"]]
        s["gen"] = o["gen"]
        if o["vals"]:
            r = o["vals"][len(o["vals"]) // 2]
            s["a_document"] = {"value": decode_value(r[0]), "verify_ok": bool(r[1]), "xsd10": r[3], "xsd11": r[4]}
        samples.append(s)
    ck.cov["samples"] = samples
    exc = [o for o in obs if o["gen"] in ("exception", "timeout")]
    if exc:
        ck.notes.append("%d scenario(s) made the XSD generator raise / time out (C02's subject, not judged here), e.g. %s" % (len(exc), [(o["ptexts"], o["detail"][:160]) for o in exc[:4]]))
    rej = [o for o in obs if o["gen"] == "model_rejected"]
    if rej:
        ck.notes.append("%d scenario(s) were not accepted by the front end / Python generator and are not judged, e.g. %s" % (len(rej), [(o["ptexts"], o["detail"][:160]) for o in rej[:3]]))
    ck.assumptions += ["TLC, SANY, CommunityModules (Json, IOUtils, FiniteSetsExt)", "xmlschema %s as the independent XSD 1.0 / 1.1 validator" % _xmlschema_version(),
                       "CPython re as the reference for the spec's FullMatch (S_ReAgrees, checked on every string)", "the generated Python SDK's verify() as second witness that an instance satisfies all invariants"]
    dump = os.environ.get("VERIF_XSD_DUMP")  # development aid: all violations of this run, one JSON line each
    if dump:
        with open(dump, "w") as f:
            for x in ck.violations:
                f.write(json.dumps({"key": x["key"], "detail": x["detail"]}) + "\n")
    if not replay and nontrivial == 0:
        raise core.MachineryFailure("vacuous run: no non-trivial document was judged")
    return ck.finish()


def _xmlschema_version() -> str:
    try:
        import subprocess

        return subprocess.run([core.PY, "-c", "import xmlschema; print(xmlschema.__version__)"], stdout=subprocess.PIPE, text=True, timeout=60).stdout.strip()
    except Exception:
        return "?"
