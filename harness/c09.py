"""C09 -- all runnable SDK targets agree with the Python SDK.

M: MC_CrossSdk (the reference wire format is a bijection on its image, mutation verdicts are coherent);
G: CrossSdkGen (TLC enumerates instances / mutated documents / probe texts of the families of CrossSdkModels);
R: run_c09 (real generators; Python SDK in-process; C++ and Java SDKs compiled with g++ / javac and driven);
V: CrossSdkTrace (TLC: pairwise agreement with the Python SDK per clause and target; the Python SDK against the
   reference semantics of CrossSdk.tla).
"""
from __future__ import annotations

import concurrent.futures
import hashlib
import json
import os
import re
import shutil
import threading
from typing import Any, Dict, List

from harness import core
from harness import cross_lib as cl



def _errs(o: Dict[str, Any]) -> set:
    return {(tuple(e["path"]), e["cause"]) for e in o["errors"]}


def _reduce_for_replay(G: Dict[str, Any], case: Dict[str, Any]) -> Dict[str, Any]:
    """Keep only the meta-model and the single case of a replay file (the per-model tables are cheap and stay)."""
    model = case.get("model")
    models = [e for e in G["models"] if e["model"]["name"] == model] or G["models"]
    for e in models:
        e["targets"] = ["cpp", "java"]
    out = {"models": models, "families": []}
    for f in G["families"]:
        if f["model"] not in [e["model"]["name"] for e in models]:
            continue
        g = dict(f)
        g["instances"], g["docs"] = [], []
        if f["name"] == case.get("fam"):
            if case.get("kind") == "inst":
                g["instances"] = [{"x": case["x"], "feats": cl.value_feats(case["x"])}]
            elif case.get("kind") == "doc":
                g["docs"] = [{"doc": case["doc"], "mut": case.get("mut", "?"), "at": case.get("at", "?"), "loc": case.get("loc", []), "base": 1}]
        out["families"].append(g)
    return out


def main() -> int:
    ck = core.Check("C09", "exploration")
    models_by_name: Dict[str, Any] = {}

    replay = os.environ.get("VERIF_REPLAY")
    reuse = os.environ.get("VERIF_C09_REUSE")  # development only: directory with cases.json and obs.json of an earlier run
    # ---- G ------------------------------------------------------------------------------------------
    cases_p = ck.work / "cases.json"
    if reuse:
        shutil.copy(os.path.join(reuse, "cases.json"), cases_p)
    else:
        # G depends only on the spec and the tier: cached under work/gen/<sha of the modules + tier> (DESIGN section 2)
        h = hashlib.sha1(ck.tier.encode())
        for name in ("CrossSdk.tla", "CrossSdkModels.tla", "CrossSdkGen.tla", "CrossSdkGen.cfg"):
            h.update((core.SPECS / name).read_bytes())
        cache = core.VERIF / "work" / "gen" / ("C09-%s.json" % h.hexdigest()[:16])
        if cache.exists():
            shutil.copy(cache, cases_p)
            ck.notes.append("G: reused %s" % cache.name)
        else:
            ck.tlc("CrossSdkGen", what="G: instances, mutated documents, enumeration probes", env={"VERIF_OUT": str(cases_p), "VERIF_TIER": ck.tier}, count=False, timeout=1800)
            cache.parent.mkdir(parents=True, exist_ok=True)
            tmp = cache.with_suffix(".tmp%d" % os.getpid())
            shutil.copy(cases_p, tmp)
            os.replace(tmp, cache)
    G = core.read_json(cases_p)
    if replay and not reuse:
        rp = core.read_json(__import__("pathlib").Path(replay))
        G = _reduce_for_replay(G, rp.get("case", {}))
        core.write_json(cases_p, G)
    for e in G["models"]:
        models_by_name[e["model"]["name"]] = e["model"]
    fam_root = {f["name"]: f["root"] for f in G["families"]}
    fam_model = {f["name"]: f["model"] for f in G["families"]}

    models_p = ck.work / "models.json"
    core.write_json(models_p, {"models": G["models"]})

    # ---- M (design-level checks of the reference semantics, on the cases G wrote) runs beside R ----------------
    m_box: Dict[str, Any] = {}

    def run_m() -> None:
        try:
            m_box["res"] = core.run_tlc("MC_CrossSdk", "MC_CrossSdk.cfg", workdir=ck.work / "m", env={"VERIF_CASES": str(cases_p), "VERIF_TIER": ck.tier}, workers=2, timeout=2400, jvm=("-Xmx3g", "-XX:ParallelGCThreads=2"))
        except Exception as ex:  # reported below
            m_box["exc"] = ex

    m_thread = threading.Thread(target=run_m)
    if reuse:
        replay = replay or "reuse"
    if not replay:
        m_thread.start()

    # ---- R ------------------------------------------------------------------------------------------
    obs_p = ck.work / "obs.json"
    try:
        if reuse:
            shutil.copy(os.path.join(reuse, "obs.json"), obs_p)
        else:
            ck.impl("harness.run_c09", [str(cases_p), str(obs_p), str(ck.work / "build"), "8"], timeout=3000)
    finally:
        if not replay:
            m_thread.join()
    if not replay:
        if "exc" in m_box:
            raise core.MachineryFailure("M: %s" % m_box["exc"])
        mres = m_box["res"]
        ck.cov["states"] += mres.distinct
        ck.cov["transitions"] += mres.generated
        ck.cov["tlc_runs"].append({"what": "M: reference (de)serialiser round-trips; wire shape; errors anchored; mutation verdicts coherent; base64, integer order, pattern facts", "cmd": mres.cmd.replace(str(core.VERIF) + "/", ""), "generated": mres.generated, "distinct": mres.distinct, "wall_s": round(mres.wall, 2), "violations": len(mres.violations)})
        core.tlc_must_pass(mres, "M: MC_CrossSdk")
        if mres.violations or mres.distinct == 0:
            raise core.MachineryFailure("design-level model check MC_CrossSdk violated or empty: %s" % (mres.violations[:1],))
    obs = core.read_json(obs_p)
    recs: List[Dict[str, Any]] = obs["records"]
    ck.notes.append("R timings: %s" % json.dumps(obs["timings"]))

    builds = {(r["model"], r["target"]): r for r in recs if r["kind"] == "build"}
    must = G["models"][0]["model"]["name"]   # "main" (or the single meta-model of a replay)
    for target in ("cpp", "java"):
        b = builds.get((must, target))
        if b is None or b["status"] in ("gen_exception", "gen_rejected", "run_failed", "not_built"):
            raise core.MachineryFailure("no observation of the %s SDK of the %s meta-model: %s" % (target, must, b and (b["status"] + " " + b["detail"][:300])))
    if builds[(must, "py")]["status"] != "ok":
        raise core.MachineryFailure("the Python SDK of the %s meta-model could not be generated/imported: %s" % (must, builds[(must, "py")]["detail"][:300]))

    # ---- V ------------------------------------------------------------------------------------------
    counts = [0, 0, 0, 0, 0, 0]
    ref_doubts: List[str] = []
    n_pair = 0
    n_chunks = max(1, min(4 if ck.quick else 8, (len(recs) + 399) // 400))
    size = (len(recs) + n_chunks - 1) // n_chunks
    parts = [recs[off : off + size] for off in range(0, len(recs), size)]

    def run_v(q: int) -> core.TlcResult:
        pp = ck.work / ("obs_part_%d.json" % q)
        core.write_json(pp, parts[q])
        return core.run_tlc("CrossSdkTrace", None, workdir=ck.work / ("v%d" % q), env={"VERIF_OBS": str(pp), "VERIF_CASES": str(models_p)}, cont=True, workers=1, timeout=2400, jvm=("-Xmx3g", "-XX:ParallelGCThreads=2"))

    with concurrent.futures.ThreadPoolExecutor(max_workers=4 if ck.quick else 8) as ex:
        v_results = list(ex.map(run_v, range(len(parts))))
    for part, res in zip(parts, v_results):
        ck.cov["states"] += res.distinct
        ck.cov["transitions"] += res.generated
        ck.cov["tlc_runs"].append({"what": "V: pairwise agreement with the Python SDK; Python SDK vs reference", "cmd": res.cmd.replace(str(core.VERIF) + "/", ""), "generated": res.generated, "distinct": res.distinct, "wall_s": round(res.wall, 2), "violations": len(res.violations)})
        core.tlc_must_pass(res, "V: CrossSdkTrace")
        if res.distinct != len(part):
            raise core.MachineryFailure("V consumed %d of %d records" % (res.distinct, len(part)))
        for line in res.printed:
            m = re.search(r"counts\", (\d+), (\d+), (\d+), (\d+), (\d+), (\d+)", line)
            if m:
                for q in range(6):
                    counts[q] += int(m.group(q + 1))
        for v in res.violations:
            mi = re.search(r"\bi = (\d+)", v["state"])
            if not mi:
                raise core.MachineryFailure("cannot read the record index of a violation: %r" % v["state"][:200])
            i = int(mi.group(1))
            r = part[i - 1]
            inv = v["invariant"]
            if inv.startswith("Inv_Ref_"):
                ref_doubts.append("%s on %s/%s: %s" % (inv, r.get("model"), r.get("fam"), json.dumps({k: r[k] for k in r if k in ("x", "doc", "mut", "loc", "py", "status", "detail")})[:700]))
                continue
            n_pair += 1
            target = inv.rsplit("_", 1)[1]
            model = models_by_name[r["model"]]
            base_case = {"kind": r["kind"], "model": r["model"], "fam": r["fam"]}
            if r["kind"] == "build":
                ck.violation({"clause": inv, "target": target, "model": r["model"], "unit": r["unit"]}, inv, base_case, {"status": r["status"], "detail": r["detail"]}, detail="generated %s SDK of meta-model %r does not build (%s): %s" % (target, r["model"], r["unit"], r["detail"][:200].replace("\n", " | ")))
            elif r["kind"] == "inst":
                case = dict(base_case, x=r["x"])
                a, b = r[target], r["py"]
                if inv.startswith("Inv_Verify"):
                    if a["built"] != b["built"] or a["verified"] != b["verified"]:
                        ck.violation({"clause": inv, "target": target, "what": "exception"}, inv, case, {target: a, "py": b}, detail="%s: %s / python: %s" % (target, a["exc"], b["exc"]))
                    else:
                        ea, eb = _errs(a), _errs(b)
                        for path, cause in sorted(ea ^ eb):
                            k = cl.error_key(model, r["x"], path, cause)
                            sign = "extra" if (path, cause) in ea else "missing"
                            ck.violation(
                                {"clause": inv, "target": target, "sign": sign, **k},
                                inv,
                                case,
                                {target: sorted(ea), "py": sorted(eb)},
                                detail="%s SDK reports %s error at %s: %r (family %s)" % (target, sign, "/".join(path) or "<root>", cause, r["fam"]),
                            )
                else:  # Inv_Json_cpp
                    if a["serialized"] != b["serialized"]:
                        ck.violation({"clause": inv, "target": target, "what": "serialize_failed_in_" + (target if not a["serialized"] else "py"), "int64_extreme": "int64_extreme" in r["feats"]}, inv, case, {target: a["exc"], "py": b["exc"]}, detail="%s: %s / python: %s" % (target, a["exc"][:200], b["exc"][:200]))
                    else:
                        ja, jb = cl.unproject_json(a["json"]), cl.unproject_json(b["json"])
                        keys = sorted(k for k in set(ja) | set(jb) if ja.get(k, "<absent>") != jb.get(k, "<absent>")) if isinstance(ja, dict) and isinstance(jb, dict) else ["<root>"]
                        for k in keys:
                            ck.violation({"clause": inv, "target": target, "what": "json_differs", "type": cl.type_at(model, fam_root[r["fam"]], [k])}, inv, case, {target: ja, "py": jb}, detail="JSON differs at %r: %s=%r python=%r" % (k, target, ja.get(k) if isinstance(ja, dict) else ja, jb.get(k) if isinstance(jb, dict) else jb))
            elif r["kind"] == "doc":
                case = dict(base_case, doc=r["doc"], mut=r["mut"], at=r["at"], loc=r["loc"])
                a, b = r[target], r["py"]
                what = "verdict" if a["accepted"] != b["accepted"] else "value"
                ck.violation(
                    {"clause": inv, "target": target, "mut": r["mut"], "type": cl.type_at(model, fam_root[r["fam"]], r["loc"]), "what": what, "py_accepts": b["accepted"]},
                    inv,
                    case,
                    {target: a, "py": b},
                    detail="document %s (%s at %s): python %s (%s), %s %s (%s %s)" % (cl.json_text(r["doc"])[:160], r["mut"], "/".join(r["loc"]) or "<root>", "accepts" if b["accepted"] else "rejects", b["exc"] or b["msg"][:60], target, "accepts" if a["accepted"] else "rejects", a["exc"], a["msg"][:60]),
                )
            elif r["kind"] == "consts":
                a, b = r[target], r["py"]
                names = [x["name"] for x in b["values"]]
                av = {x["name"]: x for x in a["values"]}
                for x in b["values"]:
                    y = av.get(x["name"])
                    if y is None or y["value"] != x["value"]:
                        ck.violation({"clause": inv, "target": target, "const_kind": x["value"]["k"], "feature": cl.const_feature(x["value"])}, inv, dict(base_case, const=x["name"]), {target: y, "py": x}, detail="constant %s: python %s, %s %s" % (x["name"], json.dumps(x["value"])[:120], target, json.dumps(y)[:160]))
            elif r["kind"] == "enums":
                a, b = r[target], r["py"]
                for x, y in zip(b["values"], a["values"] + [None] * len(b["values"])):
                    if y is None or x != y:
                        ck.violation({"clause": inv, "target": target, "enum": x["name"], "what": "texts" if (y is None or x["texts"] != y["texts"]) else "parse"}, inv, dict(base_case, enum=x["name"]), {target: y, "py": x}, detail="enumeration %s differs: python %s, %s %s" % (x["name"], json.dumps(x)[:160], target, json.dumps(y)[:160]))

    n_inst, n_failing, n_docs, n_rej, n_ok, n_either = counts
    n_tables = sum(1 for r in recs if r["kind"] in ("consts", "enums", "build"))
    # the comparison grid (descriptions "... must hold.") makes nearly every instance fail something; count the
    # instances on which an invariant *outside* the grid fails (the Python SDK's list is tied to RefErrors by Inv_Ref_Verify)
    n_beyond_grid = sum(1 for r in recs if r["kind"] == "inst" and any(not e["cause"].endswith(" must hold.") for e in r["py"]["errors"]))
    ck.cov["evaluations"] = n_inst + n_docs + n_tables
    ck.cov["traces_validated_against_impl"] = len(recs)
    ck.cov["distinct_nontrivial"] = n_beyond_grid + n_rej + n_ok
    ck.cov["rule"] = (
        "G: TLC enumerates, per family of specs/CrossSdkModels.tla, the %s of the boundary value alphabets "
        "(%d instances) and every mutant of the documents of the base instances (%d documents: each JSON location x a palette "
        "of 10 replacement values, member/item removal, extra member), plus %d constant/enumeration/build tables; "
        "non-trivial = an instance on which the reference semantics (CrossSdk!RefErrors) has a failing invariant other than "
        "those of the generated comparison grid (%d; %d fail at least one invariant counting the grid), or a mutated document "
        "the reference classifies as must-reject (%d) or must-accept-with-value (%d); "
        "%d documents are 'either' (verdict not fixed by the sentence; only pairwise agreement is checked). "
        "Records are distinct by construction (set-valued enumeration)."
        % ("covering sub-products" if ck.quick else "full product", n_inst, n_docs, n_tables, n_beyond_grid, n_failing, n_rej, n_ok, n_either)
    )
    ck.cov["exhaustive"] = False
    ck.cov["pairwise_disagreements"] = n_pair
    kc: Dict[str, int] = {}
    for v in ck.violations:
        ks = json.dumps(v["key"], sort_keys=True)
        kc[ks] = kc.get(ks, 0) + 1
    ck.cov["disagreement_keys"] = [{"key": json.loads(k), "cases": n} for k, n in sorted(kc.items())][:80]
    ck.cov["targets_observed"] = {"%s/%s" % k: v["status"] for k, v in builds.items()}
    insts = [r for r in recs if r["kind"] == "inst"]
    docs = [r for r in recs if r["kind"] == "doc"]
    samples = []
    for r in (insts[:1] + insts[len(insts) // 2 : len(insts) // 2 + 1] + insts[-1:]):
        samples.append({"family": r["fam"], "instance": r["x"], "python_errors": r["py"]["errors"], "python_json": cl.json_text(r["py"]["json"])})
    for r in docs[3:4] + docs[-1:]:
        samples.append({"family": r["fam"], "mutation": r["mut"], "at": r["loc"], "document": cl.json_text(r["doc"]), "python_accepts": r["py"]["accepted"], "cpp_accepts": r["cpp"]["accepted"]})
    ck.cov["samples"] = samples
    ck.assumptions += [
        "TLC, SANY, CommunityModules Json; g++ 12, javac/java 17, nlohmann json",
        "harness/shims/tl/expected.hpp stands in for TartanLlama/expected (absent in the sandbox)",
        "the drivers (harness/cross_drivers.py) and the minimal JSON reader inside the Java driver",
        "descriptions are compared after removing the fixed prefix 'Invariant violated:\\n' the Java target adds; property names in paths case- and underscore-insensitively; JSON numbers by value (1 == 1.0)",
        "TypeScript SDK: not executable here (no tsc; node 20 cannot strip types). Java jsonization: not compilable here (Jackson absent)",
    ]
    if n_beyond_grid + n_rej + n_ok == 0 and not replay:
        raise core.MachineryFailure("vacuous run")
    # oracle doubts: only when no unexplained pairwise disagreement is to be reported
    known = [f for f in core.load_known() if f["property"] == "C09" and f.get("status") == "open"]
    has_new = any(not any(core.key_matches(f["key"], v["key"]) for f in known) for v in ck.violations)
    if ref_doubts and not has_new:
        raise core.MachineryFailure("the Python SDK's observation differs from the reference semantics of CrossSdk.tla on %d record(s) (oracle in doubt; a defect of the Python generator belongs to C08/C10): %s" % (len(ref_doubts), ref_doubts[0]))
    if ref_doubts:
        ck.notes.append("reference doubts: %d, e.g. %s" % (len(ref_doubts), ref_doubts[0][:300]))
    return ck.finish()
