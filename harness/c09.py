"""C09 -- all runnable SDK targets agree with the Python SDK.

M: MC_CrossSdk (the reference wire format is a bijection on its image, mutation verdicts are coherent);
G: CrossSdkGen (TLC enumerates instances / mutated documents / probe texts of the families of CrossSdkModels);
R: run_c09 (real generators; Python SDK in-process; C++ and Java SDKs compiled with g++ / javac and driven);
V: CrossSdkTrace (TLC: pairwise agreement with the Python SDK per clause and target; the Python SDK against the
   reference semantics of CrossSdk.tla).
"""
from __future__ import annotations

import json
import os
import re
from typing import Any, Dict, List

from harness import core
from harness import cross_lib as cl

CHUNK = 1500


def _errs(o: Dict[str, Any]) -> set:
    return {(tuple(e["path"]), e["cause"]) for e in o["errors"]}


def _reduce_for_replay(G: Dict[str, Any], case: Dict[str, Any]) -> Dict[str, Any]:
    """Keep only the single case of a replay file (plus the per-model tables, which are cheap)."""
    out = {"models": G["models"], "families": []}
    for f in G["families"]:
        g = dict(f)
        g["instances"], g["docs"] = [], []
        if f["name"] == case.get("fam"):
            if case.get("kind") == "inst":
                g["instances"] = [{"x": case["x"], "feats": cl.value_feats(case["x"])}]
            elif case.get("kind") == "doc":
                g["docs"] = [{"doc": case["doc"], "mut": case.get("mut", "?"), "at": case.get("at", "?"), "loc": case.get("loc", []), "base": 1}]
        out["families"].append(g)
    return out


def main() -> int:
    ck = core.Check("C09", "exploration")
    models_by_name: Dict[str, Any] = {}

    # ---- M: design-level checks of the reference semantics ---------------------------------------
    replay = os.environ.get("VERIF_REPLAY")
    if not replay:
        ck.model_check("MC_CrossSdk", "MC_CrossSdk.cfg", "reference (de)serialiser round-trips; mutation verdicts coherent; base64; constant sets", env={"VERIF_TIER": ck.tier}, workers=4, timeout=600)

    # ---- G ------------------------------------------------------------------------------------------
    cases_p = ck.work / "cases.json"
    g = ck.tlc("CrossSdkGen", what="G: instances, mutated documents, enumeration probes", env={"VERIF_OUT": str(cases_p), "VERIF_TIER": ck.tier}, count=False, timeout=900)
    G = core.read_json(cases_p)
    if replay:
        rp = core.read_json(__import__("pathlib").Path(replay))
        G = _reduce_for_replay(G, rp.get("case", {}))
        core.write_json(cases_p, G)
    for e in G["models"]:
        models_by_name[e["model"]["name"]] = e["model"]
    fam_root = {f["name"]: f["root"] for f in G["families"]}
    fam_model = {f["name"]: f["model"] for f in G["families"]}

    # ---- R ------------------------------------------------------------------------------------------
    obs_p = ck.work / "obs.json"
    ck.impl("harness.run_c09", [str(cases_p), str(obs_p), str(ck.work / "build"), "8"], timeout=3000)
    obs = core.read_json(obs_p)
    recs: List[Dict[str, Any]] = obs["records"]
    ck.notes.append("R timings: %s" % json.dumps(obs["timings"]))

    builds = {(r["model"], r["target"]): r for r in recs if r["kind"] == "build"}
    for target in ("cpp", "java"):
        b = builds.get(("main", target))
        if b is None or b["status"] in ("gen_exception", "gen_rejected", "run_failed", "not_built"):
            raise core.MachineryFailure("no observation of the %s SDK of the main meta-model: %s" % (target, b and (b["status"] + " " + b["detail"][:300])))
    if builds[("main", "py")]["status"] != "ok":
        raise core.MachineryFailure("the Python SDK of the main meta-model could not be generated/imported: %s" % builds[("main", "py")]["detail"][:300])

    # ---- V ------------------------------------------------------------------------------------------
    counts = [0, 0, 0, 0, 0, 0]
    ref_doubts: List[str] = []
    n_pair = 0
    for off in range(0, len(recs), CHUNK):
        part = recs[off : off + CHUNK]
        pp = ck.work / "obs_part.json"
        core.write_json(pp, part)
        res = ck.tlc("CrossSdkTrace", what="V: pairwise agreement with the Python SDK; Python SDK vs reference", env={"VERIF_OBS": str(pp)}, cont=True, workers=4, timeout=1500)
        for line in res.printed:
            m = re.search(r"counts\", (\d+), (\d+), (\d+), (\d+), (\d+), (\d+)", line)
            if m:
                for q in range(6):
                    counts[q] += int(m.group(q + 1))
        for v in res.violations:
            i = int(res.var_of(v, "i") or "0")
            r = part[i - 1]
            inv = v["invariant"]
            if inv.startswith("Inv_Ref_"):
                ref_doubts.append("%s on %s/%s: %s" % (inv, r.get("model"), r.get("fam"), json.dumps({k: r[k] for k in r if k in ("x", "doc", "mut", "loc", "py", "status", "detail")})[:700]))
                continue
            n_pair += 1
            target = inv.rsplit("_", 1)[1]
            model = models_by_name[r["model"]]
            base_case = {"kind": r["kind"], "model": r["model"], "fam": r["fam"]}
            if r["kind"] == "build":
                ck.violation({"clause": inv, "target": target, "model": r["model"], "unit": r["unit"]}, inv, base_case, {"status": r["status"], "detail": r["detail"]}, detail="generated %s SDK of meta-model %r does not build (%s): %s" % (target, r["model"], r["unit"], r["detail"][:200].replace("\n", " | ")))
            elif r["kind"] == "inst":
                case = dict(base_case, x=r["x"])
                a, b = r[target], r["py"]
                if inv.startswith("Inv_Verify"):
                    if a["built"] != b["built"] or a["verified"] != b["verified"]:
                        ck.violation({"clause": inv, "target": target, "what": "exception", "operand_feats": ",".join(r["feats"])}, inv, case, {target: a, "py": b}, detail="%s: %s / python: %s" % (target, a["exc"], b["exc"]))
                    else:
                        ea, eb = _errs(a), _errs(b)
                        for path, cause in sorted(ea ^ eb):
                            k = cl.error_key(model, r["x"], path, cause)
                            sign = "extra" if (path, cause) in ea else "missing"
                            ck.violation(
                                {"clause": inv, "target": target, "sign": sign, **k},
                                inv,
                                case,
                                {target: sorted(ea), "py": sorted(eb)},
                                detail="%s SDK reports %s error at %s: %r (family %s)" % (target, sign, "/".join(path) or "<root>", cause, r["fam"]),
                            )
                else:  # Inv_Json_cpp
                    if a["serialized"] != b["serialized"]:
                        ck.violation({"clause": inv, "target": target, "what": "serialize_failed_in_" + (target if not a["serialized"] else "py"), "feats": ",".join(r["feats"])}, inv, case, {target: a["exc"], "py": b["exc"]}, detail="%s: %s / python: %s" % (target, a["exc"][:200], b["exc"][:200]))
                    else:
                        ja, jb = cl.unproject_json(a["json"]), cl.unproject_json(b["json"])
                        keys = sorted(k for k in set(ja) | set(jb) if ja.get(k, "<absent>") != jb.get(k, "<absent>")) if isinstance(ja, dict) and isinstance(jb, dict) else ["<root>"]
                        for k in keys:
                            ck.violation({"clause": inv, "target": target, "what": "json_differs", "type": cl.type_at(model, fam_root[r["fam"]], [k])}, inv, case, {target: ja, "py": jb}, detail="JSON differs at %r: %s=%r python=%r" % (k, target, ja.get(k) if isinstance(ja, dict) else ja, jb.get(k) if isinstance(jb, dict) else jb))
            elif r["kind"] == "doc":
                case = dict(base_case, doc=r["doc"], mut=r["mut"], at=r["at"], loc=r["loc"])
                a, b = r[target], r["py"]
                what = "verdict" if a["accepted"] != b["accepted"] else "value"
                ck.violation(
                    {"clause": inv, "target": target, "mut": r["mut"], "type": cl.type_at(model, fam_root[r["fam"]], r["loc"]), "what": what, "py_accepts": b["accepted"]},
                    inv,
                    case,
                    {target: a, "py": b},
                    detail="document %s (%s at %s): python %s (%s), %s %s (%s %s)" % (cl.json_text(r["doc"])[:160], r["mut"], "/".join(r["loc"]) or "<root>", "accepts" if b["accepted"] else "rejects", b["exc"] or b["msg"][:60], target, "accepts" if a["accepted"] else "rejects", a["exc"], a["msg"][:60]),
                )
            elif r["kind"] == "consts":
                a, b = r[target], r["py"]
                names = [x["name"] for x in b["values"]]
                av = {x["name"]: x for x in a["values"]}
                for x in b["values"]:
                    y = av.get(x["name"])
                    if y is None or y["value"] != x["value"]:
                        ck.violation({"clause": inv, "target": target, "const_kind": x["value"]["k"], "const": x["name"]}, inv, dict(base_case, const=x["name"]), {target: y, "py": x}, detail="constant %s: python %s, %s %s" % (x["name"], json.dumps(x["value"])[:120], target, json.dumps(y)[:160]))
            elif r["kind"] == "enums":
                a, b = r[target], r["py"]
                for x, y in zip(b["values"], a["values"] + [None] * len(b["values"])):
                    if y is None or x != y:
                        ck.violation({"clause": inv, "target": target, "enum": x["name"], "what": "texts" if (y is None or x["texts"] != y["texts"]) else "parse"}, inv, dict(base_case, enum=x["name"]), {target: y, "py": x}, detail="enumeration %s differs: python %s, %s %s" % (x["name"], json.dumps(x)[:160], target, json.dumps(y)[:160]))

    n_inst, n_failing, n_docs, n_rej, n_ok, n_either = counts
    n_tables = sum(1 for r in recs if r["kind"] in ("consts", "enums", "build"))
    ck.cov["evaluations"] = n_inst + n_docs + n_tables
    ck.cov["traces_validated_against_impl"] = len(recs)
    ck.cov["distinct_nontrivial"] = n_failing + n_rej + n_ok
    ck.cov["rule"] = (
        "G: TLC enumerates, per family of specs/CrossSdkModels.tla, the full product of the boundary value alphabets "
        "(%d instances) and every mutant of the documents of the base instances (%d documents: each JSON location x a palette "
        "of 10 replacement values, member/item removal, extra member), plus %d constant/enumeration/build tables; "
        "non-trivial = an instance for which the reference semantics (CrossSdk!RefErrors) yields at least one failing invariant "
        "(%d) or a mutated document the reference classifies as must-reject (%d) or must-accept-with-value (%d); "
        "%d documents are 'either' (verdict not fixed by the sentence; only pairwise agreement is checked). "
        "Records are distinct by construction (set-valued enumeration)." % (n_inst, n_docs, n_tables, n_failing, n_rej, n_ok, n_either)
    )
    ck.cov["exhaustive"] = False
    ck.cov["pairwise_disagreements"] = n_pair
    ck.cov["targets_observed"] = {"%s/%s" % k: v["status"] for k, v in builds.items()}
    insts = [r for r in recs if r["kind"] == "inst"]
    docs = [r for r in recs if r["kind"] == "doc"]
    samples = []
    for r in (insts[:1] + insts[len(insts) // 2 : len(insts) // 2 + 1] + insts[-1:]):
        samples.append({"family": r["fam"], "instance": r["x"], "python_errors": r["py"]["errors"], "python_json": cl.json_text(r["py"]["json"])})
    for r in docs[3:4] + docs[-1:]:
        samples.append({"family": r["fam"], "mutation": r["mut"], "at": r["loc"], "document": cl.json_text(r["doc"]), "python_accepts": r["py"]["accepted"], "cpp_accepts": r["cpp"]["accepted"]})
    ck.cov["samples"] = samples
    ck.assumptions += [
        "TLC, SANY, CommunityModules Json; g++ 12, javac/java 17, nlohmann json",
        "harness/shims/tl/expected.hpp stands in for TartanLlama/expected (absent in the sandbox)",
        "the drivers (harness/cross_drivers.py) and the minimal JSON reader inside the Java driver",
        "descriptions are compared after removing the fixed prefix 'Invariant violated:\\n' the Java target adds; property names in paths case- and underscore-insensitively; JSON numbers by value (1 == 1.0)",
        "TypeScript SDK: not executable here (no tsc; node 20 cannot strip types). Java jsonization: not compilable here (Jackson absent)",
    ]
    if n_failing + n_rej + n_ok == 0 and not replay:
        raise core.MachineryFailure("vacuous run")
    # oracle doubts: only when no unexplained pairwise disagreement is to be reported
    known = [f for f in core.load_known() if f["property"] == "C09" and f.get("status") == "open"]
    has_new = any(not any(core.key_matches(f["key"], v["key"]) for f in known) for v in ck.violations)
    if ref_doubts and not has_new:
        raise core.MachineryFailure("the Python SDK's observation differs from the reference semantics of CrossSdk.tla on %d record(s) (oracle in doubt; a defect of the Python generator belongs to C08/C10): %s" % (len(ref_doubts), ref_doubts[0]))
    if ref_doubts:
        ck.notes.append("reference doubts: %d, e.g. %s" % (len(ref_doubts), ref_doubts[0][:300]))
    return ck.finish()
