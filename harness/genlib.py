"""Shared helpers of the `gen` group (C02, C21, C22): render the abstract meta-models of specs/GenFeatures.tla
(and Naming.tla / Determinism.tla) to the Python subset, discover the snippets a target asks for, run all
targets + the smoke tool on a text and project what happened into the vocabulary of the observation specs.

Nothing here is an oracle: the verdicts are TLC's (GenTrace.tla, NamingTrace.tla, DeterminismTrace.tla).
"""
from __future__ import annotations

import hashlib
import io
import os
import pathlib
import re
import shutil
import sys
import traceback
from typing import Any, Dict, Iterable, List, Optional, Sequence, Set, Tuple

from harness import mm

TARGETS = list(mm.TARGETS)

# ---------------------------------------------------------------------------------------------
# rendering
# ---------------------------------------------------------------------------------------------

_U = re.compile(r"\{\{([0-9A-Fa-f]{4,6})\}\}")


def expand(s: str) -> str:
    """The specs are ASCII-only; ``{{00E4}}`` stands for the code point U+00E4."""
    return _U.sub(lambda m: chr(int(m.group(1), 16)), s)


def pystr(s: str) -> str:
    """A Python string literal denoting exactly ``s`` (ASCII-only source, astral characters as \\UXXXXXXXX)."""
    out = ['"']
    for ch in s:
        o = ord(ch)
        if ch == '"':
            out.append('\\"')
        elif ch == "\\":
            out.append("\\\\")
        elif ch == "\n":
            out.append("\\n")
        elif ch == "\t":
            out.append("\\t")
        elif ch == "\r":
            out.append("\\r")
        elif o < 0x20 or o == 0x7F:
            out.append("\\x%02x" % o)
        elif o < 0x7F:
            out.append(ch)
        elif o <= 0xFFFF:
            out.append("\\u%04x" % o)
        else:
            out.append("\\U%08x" % o)
    out.append('"')
    return "".join(out)


def type_text(t: Dict[str, Any]) -> str:
    k = t["k"]
    if k == "prim":
        return t["n"]
    if k == "ref":
        return t["n"]
    if k == "list":
        return "List[%s]" % type_text(t["of"])
    if k == "opt":
        return "Optional[%s]" % type_text(t["of"])
    raise ValueError(k)


def render_doc(doc: str, indent: str) -> str:
    """A docstring the way the real meta-models write it (text starts on its own line when it spans lines)."""
    doc = expand(doc)
    if doc == "":
        return ""
    body = doc.replace("\\", "\\\\").replace('"""', '\\"\\"\\"')
    if "\n" not in body and not body.endswith('"'):
        return '%s"""%s"""\n' % (indent, body)
    lines = body.rstrip("\n").split("\n")
    out = ['%s"""' % indent]
    for ln in lines:
        out.append((indent + ln) if ln.strip() else "")
    out.append('%s"""' % indent)
    return "\n".join(out) + "\n"


_OPS = {"lt": "<", "le": "<=", "eq": "==", "ge": ">=", "gt": ">", "ne": "!="}


def inv_expr(inv: Dict[str, Any], optional_props: Set[str]) -> str:
    k = inv["k"]
    if k == "raw":
        return expand(inv["expr"])
    on = inv["on"]
    subject = "self" if on == "self" else "self.%s" % on
    if k == "len":
        if inv.get("flip"):
            e = "%s %s len(%s)" % (inv["n"], _OPS[inv["op"]], subject)
        else:
            e = "len(%s) %s %s" % (subject, _OPS[inv["op"]], inv["n"])
    elif k == "match":
        e = "%s(%s)" % (inv["fn"], subject)
    elif k == "in":
        e = "%s in %s" % (subject, inv["set"])
    else:
        raise ValueError(k)
    if on in optional_props:
        e = "(%s is None) or (%s)" % (subject, e)
    return e


def _all_props(model: Dict[str, Any], cname: str) -> List[Dict[str, Any]]:
    by = {c["name"]: c for c in model["classes"]}
    seen: List[str] = []
    out: List[Dict[str, Any]] = []

    def visit(n: str) -> None:
        for b in by[n]["bases"]:
            if b in by:
                visit(b)
        for p in by[n]["props"]:
            if p["name"] not in seen:
                seen.append(p["name"])
                out.append(p)

    visit(cname)
    return out


def render_method(me: Dict[str, Any]) -> str:
    doc = render_doc(me.get("doc", ""), "        ")
    n = me["name"]
    if me["kind"] == "impl":
        return "    @implementation_specific\n    def %s(self, amount: int) -> int:\n%s        pass\n" % (n, doc)
    if me["kind"] == "understood":
        return "    @non_mutating\n    def %s(self) -> int:\n%s        return 4\n" % (n, doc)
    if me["kind"] == "contract":
        return "    @require(lambda amount: amount > 0)\n    @implementation_specific\n    def %s(self, amount: int) -> int:\n%s        pass\n" % (n, doc)
    raise ValueError(me["kind"])


def render_fn(fn: Dict[str, Any]) -> str:
    args = ", ".join("%s: %s" % (a["name"], type_text(a["type"])) for a in fn["args"])
    doc = render_doc(fn.get("doc", "") or "Check.", "    ")
    k = fn["kind"]
    if k == "pattern":
        return "@verification\ndef %s(%s) -> bool:\n%s    pattern = %s\n    return match(pattern, %s) is not None\n" % (fn["name"], args, doc, pystr(expand(fn["regex"])), fn["args"][0]["name"])
    if k == "pattern_f":
        return (
            "@verification\ndef %s(%s) -> bool:\n%s    word = \"[a-z]+\"\n    sep = \"[-_]\"\n"
            "    pattern = f\"^{word}({sep}{word})*$\"\n    return match(pattern, %s) is not None\n" % (fn["name"], args, doc, fn["args"][0]["name"])
        )
    if k == "impl":
        return "@verification\n@implementation_specific\ndef %s(%s) -> bool:\n%s    pass\n" % (fn["name"], args, doc)
    if k == "transp":
        return "@verification\ndef %s(%s) -> bool:\n%s    return %s\n" % (fn["name"], args, doc, expand(fn["body"]))
    raise ValueError(k)


def render_const(c: Dict[str, Any]) -> str:
    k = c["kind"]
    desc = (", description=%s" % pystr(expand(c["doc"]))) if c.get("doc") else ""
    if k == "str":
        return "%s: str = constant_str(value=%s%s)\n" % (c["name"], pystr(expand(c["value"])), desc)
    if k == "int":
        return "%s: int = constant_int(value=%s%s)\n" % (c["name"], c["value"], desc)
    if k == "bool":
        return "%s: bool = constant_bool(value=%s%s)\n" % (c["name"], c["value"], desc)
    if k == "float":
        return "%s: float = constant_float(value=%s%s)\n" % (c["name"], c["value"], desc)
    if k == "bytearray":
        return '%s: bytearray = constant_bytearray(value=b"%s"%s)\n' % (c["name"], c["value"], desc)
    sup = (", superset_of=[%s]" % ", ".join(c["superset_of"])) if c.get("superset_of") else ""
    if k == "set_str":
        return "%s: Set[str] = constant_set(values=[%s]%s%s)\n" % (c["name"], ", ".join(pystr(expand(v)) for v in c["values"]), desc, sup)
    if k == "set_int":
        return "%s: Set[int] = constant_set(values=[%s]%s%s)\n" % (c["name"], ", ".join(c["values"]), desc, sup)
    if k == "set_enum":
        return "%s: Set[%s] = constant_set(values=[%s]%s%s)\n" % (c["name"], c["enum"], ", ".join("%s.%s" % (c["enum"], v) for v in c["values"]), desc, sup)
    raise ValueError(k)


def render_enum(e: Dict[str, Any]) -> str:
    s = "class %s(Enum):\n" % e["name"]
    s += render_doc(e.get("doc", ""), "    ")
    if e.get("doc") and e["lits"]:
        s += "\n"
    for lit in e["lits"]:
        s += "    %s = %s\n" % (lit["name"], pystr(expand(lit["value"])))
        s += render_doc(lit.get("doc", ""), "    ")
        if lit.get("doc"):
            s += "\n"
    if not e["lits"] and not e.get("doc"):
        s += "    pass\n"
    return s


HEADER = (
    "from enum import Enum\n"
    "from re import match\n"
    "from typing import List, Optional, Set\n\n"
    "from icontract import invariant, DBC, ensure, require\n\n"
    "from aas_core_meta.marker import (\n"
    "    abstract,\n    serialization,\n    implementation_specific,\n    verification,\n"
    "    constant_set,\n    non_mutating,\n"
    ")\n\n"
)


def render_class(model: Dict[str, Any], c: Dict[str, Any]) -> str:
    allp = _all_props(model, c["name"])
    optional = {p["name"] for p in allp if p["type"]["k"] == "opt"}
    s = ""
    if c.get("abstract"):
        s += "@abstract\n"
    if c.get("impl"):
        s += "@implementation_specific\n"
    if c.get("wmt", "none") != "none":
        s += "@serialization(with_model_type=%s)\n" % ("True" if c["wmt"] == "true" else "False")
    for inv in c.get("invs", []):
        s += "@invariant(\n    lambda self: %s,\n    %s\n)\n" % (inv_expr(inv, optional), pystr(expand(inv["desc"])))
    s += "class %s(%s):\n" % (c["name"], ", ".join(list(c["bases"]) + ["DBC"]))
    body = render_doc(c.get("doc", ""), "    ")
    if body:
        body += "\n"
    for p in c["props"]:
        body += "    %s: %s\n" % (p["name"], type_text(p["type"]))
        d = render_doc(p.get("doc", ""), "    ")
        if d:
            body += d + "\n"
    if c["props"]:
        body += "\n"
    for me in c.get("methods", []):
        body += render_method(me) + "\n"
    # constructor: required arguments first, then the optional ones (default None); ancestors' constructors are called
    if allp:
        req = [p for p in allp if p["type"]["k"] != "opt"]
        opt = [p for p in allp if p["type"]["k"] == "opt"]
        args = ["self"] + ["%s: %s" % (p["name"], type_text(p["type"])) for p in req] + ["%s: %s = None" % (p["name"], type_text(p["type"])) for p in opt]
        body += "    def __init__(\n        %s\n    ) -> None:\n" % ",\n        ".join(args)
        for b in c["bases"]:
            bp = _all_props(model, b)
            if bp:
                body += "        %s.__init__(self, %s)\n" % (b, ", ".join("%s=%s" % (p["name"], p["name"]) for p in bp))
        own = [p for p in c["props"]]
        for p in own:
            body += "        self.%s = %s\n" % (p["name"], p["name"])
        if not own and not any(_all_props(model, b) for b in c["bases"]):
            body += "        pass\n"
    if not body.strip():
        body = "    pass\n"
    return s + body


def render_cprim(c: Dict[str, Any]) -> str:
    s = ""
    for inv in c.get("invs", []):
        s += "@invariant(\n    lambda self: %s,\n    %s\n)\n" % (inv_expr(inv, set()), pystr(expand(inv["desc"])))
    s += "class %s(%s, DBC):\n" % (c["name"], c["base"])
    d = render_doc(c.get("doc", ""), "    ")
    s += d if d else "    pass\n"
    return s


def render(model: Dict[str, Any]) -> str:
    """Abstract meta-model (GenFeatures.tla record, as JSON) -> text in the Python subset."""
    parts: List[str] = []
    if model.get("doc"):
        parts.append(render_doc(model["doc"], ""))
    parts.append(HEADER)
    for e in model.get("enums", []):
        parts.append(render_enum(e) + "\n")
    for c in model.get("consts", []):
        parts.append(render_const(c))
    for f in model.get("fns", []):
        parts.append(render_fn(f) + "\n")
    for c in model.get("cprims", []):
        parts.append(render_cprim(c) + "\n")
    for c in model.get("classes", []):
        parts.append(render_class(model, c) + "\n")
    parts.append('__version__ = "V1"\n')
    parts.append('__xml_namespace__ = "https://dummy.com"\n')
    return "\n".join(parts)


# ---------------------------------------------------------------------------------------------
# running
# ---------------------------------------------------------------------------------------------


def repo_root() -> str:
    return os.environ.get("VERIF_REPO", "/repo")


def frame_site(ex: BaseException) -> str:
    """``file:function`` of the innermost frame inside the repository (structural: no line numbers)."""
    repo = repo_root()
    last = ""
    for f in traceback.extract_tb(ex.__traceback__):
        if f.filename.startswith(repo + "/"):
            last = "%s:%s" % (f.filename[len(repo) + 1 :], f.name)
    return last


def exc_record(ex: BaseException) -> Dict[str, str]:
    return {"type": type(ex).__name__, "site": frame_site(ex), "msg": str(ex)[:240]}


class _RecordingSnippets(dict):
    """A snippet map that remembers which keys the generator asked for and did not find."""

    def __init__(self, *a: Any, **kw: Any) -> None:
        super().__init__(*a, **kw)
        self.missed: Set[str] = set()

    def get(self, key: Any, default: Any = None) -> Any:  # type: ignore[override]
        if not dict.__contains__(self, key):
            self.missed.add(str(key))
        return dict.get(self, key, default)

    def __getitem__(self, key: Any) -> Any:
        if not dict.__contains__(self, key):
            self.missed.add(str(key))
        return dict.__getitem__(self, key)

    def __contains__(self, key: Any) -> bool:
        r = dict.__contains__(self, key)
        if not r:
            self.missed.add(str(key))
        return r


def snippet_text(key: str) -> str:
    """Dummy content for a snippet the generator asks for."""
    if key.endswith(".json"):
        return '{"type": "object"}'
    if key.endswith(".xml") or key.endswith(".xsd"):
        return '<xs:complexType name="dummy_t"><xs:sequence/></xs:complexType>'
    if key.endswith(".py"):
        return "# DUMMY SNIPPET for %s" % key
    return "// DUMMY SNIPPET for %s" % key


def discover_snippets(model_path: pathlib.Path, target: str, base: Dict[str, str], scratch: pathlib.Path, rounds: int = 6) -> Dict[str, str]:
    """Run the target with a recording snippet map until it stops asking for unknown keys; return base + asked keys.
    Discovery runs are not observations (they go through a wrapper); the observation is a separate, unwrapped run."""
    from aas_core_codegen import specific_implementations as si

    snippets = dict(base)
    real = si.read_from_directory
    for _ in range(rounds):
        sdir = snippets_dir_for(scratch, snippets)
        rec: List[_RecordingSnippets] = []

        def wrapped(snippets_dir: pathlib.Path) -> Any:
            res, errs = real(snippets_dir=snippets_dir)
            if res is None:
                return res, errs
            r = _RecordingSnippets(res)
            rec.append(r)
            return r, errs

        si.read_from_directory = wrapped  # type: ignore[assignment]
        try:
            try:
                mm.generate(model_path, target, sdir, scratch / "out_disc")
            except Exception:
                pass
        finally:
            si.read_from_directory = real  # type: ignore[assignment]
        missed = set()
        for r in rec:
            missed |= r.missed
        missed = {k for k in missed if k not in snippets and si.IMPLEMENTATION_KEY_RE.fullmatch(k)}
        if not missed:
            break
        for k in sorted(missed):
            snippets[k] = snippet_text(k)
    return snippets


def count_files(d: pathlib.Path) -> int:
    if not d.exists():
        return 0
    return sum(1 for p in d.rglob("*") if p.is_file())


# -- event log of one run: what the caller of main.execute can see, in order -----------------------------------
_AUDIT: Dict[str, Any] = {"installed": False, "active": False, "root": "", "log": None, "paths": None}


def _audit(event: str, args: Any) -> None:
    if not _AUDIT["active"] or event != "open":
        return
    try:
        path, mode = args[0], args[1]
        if isinstance(path, (str, os.PathLike)) and isinstance(mode, str) and any(c in mode for c in "wxa+"):
            if str(os.fspath(path)).startswith(_AUDIT["root"]):
                _AUDIT["log"].append("w")
                if _AUDIT["paths"] is not None:
                    _AUDIT["paths"].append(str(os.fspath(path))[len(_AUDIT["root"]) :])
    except Exception:
        pass


class _EventStream(io.StringIO):
    def __init__(self, log: List[str], kind: str) -> None:
        super().__init__()
        self._log = log
        self._kind = kind

    def write(self, s: str) -> int:  # type: ignore[override]
        if s:
            self._log.append(self._kind)
        return super().write(s)


def rle(log: Sequence[str]) -> List[Dict[str, Any]]:
    out: List[Dict[str, Any]] = []
    for k in log:
        if out and out[-1]["k"] == k:
            out[-1]["n"] += 1
        else:
            out.append({"k": k, "n": 1})
    return out


def project_run(target: str, res: Dict[str, Any], nfiles: int, log: Optional[List[str]] = None) -> Dict[str, Any]:
    """Project one run into the vocabulary of GenContract.tla: the run-length encoded event sequence
    (w = a file under the output directory opened for writing, e = a write to stderr, o = a write to stdout)
    closed by ret(rc) or raise, plus a few fields used for keys and diagnostics only."""
    exc = res.get("exc")
    events = rle(log or [])
    rc = res["rc"]
    if exc:
        events.append({"k": "raise", "n": 0})
    else:
        events.append({"k": "ret", "n": int(rc) if isinstance(rc, int) and not isinstance(rc, bool) and -1000 < rc < 1000 else 999})
    return {
        "target": target,
        "events": events,
        "outcome": "exception" if exc else ("ok" if rc == 0 else "nonzero"),
        "stderr_empty": res["stderr"] == "",
        "nfiles": nfiles,
        "exc_type": exc["type"] if exc else "",
        "exc_site": exc["site"] if exc else "",
        "exc_msg": exc["msg"] if exc else "",
        "stderr_head": res["stderr"][:300],
    }


_SNIPPET_DIRS: Dict[Tuple[str, str], pathlib.Path] = {}


def snippets_dir_for(scratch: pathlib.Path, snippets: Dict[str, str]) -> pathlib.Path:
    """A directory holding exactly these snippets; directories are keyed by content and reused (creating and
    removing directories is by far the most expensive thing on this file system)."""
    h = hashlib.sha1(repr(sorted(snippets.items())).encode("utf-8")).hexdigest()[:12]
    key = (str(scratch), h)
    d = _SNIPPET_DIRS.get(key)
    if d is None or not d.exists():
        d = scratch / ("snippets-" + h)
        if d.exists():
            shutil.rmtree(d)
        mm.write_snippets(d, snippets)
        _SNIPPET_DIRS[key] = d
    return d


def generate_once(model_path: pathlib.Path, target: str, snippets: Dict[str, str], scratch: pathlib.Path, fresh: bool = False, record_paths: bool = False) -> Dict[str, Any]:
    """One unwrapped main.execute run (the observation).  Output goes to scratch/out, which is *not* emptied
    between runs unless ``fresh`` (writes are observed through the audit hook, not by listing the directory)."""
    from aas_core_codegen import main as cg_main

    sdir = snippets_dir_for(scratch, snippets)
    out_dir = scratch / "out"
    if fresh and out_dir.exists():
        shutil.rmtree(out_dir)
    log: List[str] = []
    out, err = _EventStream(log, "o"), _EventStream(log, "e")
    params = cg_main.Parameters(model_path=model_path, target=cg_main.Target(target), snippets_dir=sdir, output_dir=out_dir)
    if not _AUDIT["installed"]:
        sys.addaudithook(_audit)
        _AUDIT["installed"] = True
    paths: Optional[List[str]] = [] if record_paths else None
    _AUDIT.update(active=True, root=str(out_dir) + os.sep, log=log, paths=paths)
    try:
        rc = cg_main.execute(params, stdout=out, stderr=err)
        res = {"rc": rc, "stdout": out.getvalue(), "stderr": err.getvalue(), "exc": None}
    except Exception as ex:  # an observation
        res = {"rc": None, "stdout": out.getvalue(), "stderr": err.getvalue(), "exc": exc_record(ex)}
    finally:
        _AUDIT["active"] = False
        _AUDIT["paths"] = None
    run = project_run(target, res, sum(1 for k in log if k == "w"), log)
    if paths is not None:
        run["paths"] = paths
        run["out_dir"] = str(out_dir)
    return run


def smoke_once(model_path: pathlib.Path) -> Dict[str, Any]:
    from aas_core_codegen.smoke import main as smoke_main

    log: List[str] = []
    err = _EventStream(log, "e")
    try:
        rc = smoke_main.execute(model_path=model_path, stderr=err)
        res = {"rc": rc, "stdout": "", "stderr": err.getvalue(), "exc": None}
    except Exception as ex:
        res = {"rc": None, "stdout": "", "stderr": err.getvalue(), "exc": exc_record(ex)}
    return project_run("smoke", res, 0, log)


def front_end(text: str, scratch: pathlib.Path) -> Tuple[str, Dict[str, Any], pathlib.Path]:
    """run.load_model on the text: ('accepted'|'rejected'|'exception', detail, model path)."""
    from aas_core_codegen import run

    scratch.mkdir(parents=True, exist_ok=True)
    p = scratch / "meta_model.py"
    p.write_text(text, encoding="utf-8")
    try:
        res, err = run.load_model(model_path=p, cache_model=False)
    except Exception as ex:
        return "exception", {"exc": exc_record(ex), "error": ""}, p
    if err is not None:
        return "rejected", {"exc": None, "error": err[:600]}, p
    return "accepted", {"exc": None, "error": "", "st": res[0]}, p


def run_everything(text: str, scratch: pathlib.Path, with_snippets: bool, targets: Sequence[str] = tuple(TARGETS), smoke: bool = True, root_class: str = "Something") -> Dict[str, Any]:
    """Front end, then every target (+ smoke) on one text.  Returns {"front":..., "runs":[projected runs]}.
    When ``with_snippets`` the snippets each target asks for are discovered first and a second observation
    (mode "with_snippets") is recorded in addition to the plain one (mode "defaults")."""
    front, detail, mp = front_end(text, scratch)
    out: Dict[str, Any] = {"front": front, "front_error": detail.get("error", ""), "front_exc": detail.get("exc"), "runs": []}
    if front != "accepted":
        return out
    for t in targets:
        base = mm.default_snippets(t, root_class=root_class)
        r = generate_once(mp, t, base, scratch / t)
        r["mode"] = "defaults"
        out["runs"].append(r)
        if with_snippets and r["outcome"] == "nonzero":
            sn = discover_snippets(mp, t, base, scratch / t)
            if set(sn) != set(base):
                r2 = generate_once(mp, t, sn, scratch / t)
                r2["mode"] = "with_snippets"
                r2["n_snippets"] = len(sn)
                out["runs"].append(r2)
    if smoke:
        r = smoke_once(mp)
        r["mode"] = "defaults"
        out["runs"].append(r)
    return out


def sha(text: str) -> str:
    return hashlib.sha256(text.encode("utf-8")).hexdigest()[:16]
