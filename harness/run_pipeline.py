"""R-phase runner of the `pipeline` group: python -m harness.run_pipeline <cases.json> <out.json> [procs]

cases.json: {"cases": [CASE, ...]} with
  CASE = {"id": int, "t": "main" | "smoke" | "components",
          "text": str | null,                 model text (null: the model path is not a regular file)
          "target": "jsonschema", "snippets": {relpath: content} | null (default minimal set for the target),
          "argDefect": "none" | "model_not_file" | "snippets_not_dir" | "output_not_dir",
          "outBlock": bool                    a directory sits where the target wants to write its file
          "twice": bool}                      run a second time: same model cache, same (now populated) output directory
out.json: {"traces": [...], "meta": [...], "installed": [...]}; traces[i] belongs to meta[i].
"""
from __future__ import annotations

import json
import multiprocessing
import os
import pathlib
import shutil
import sys
import tempfile
from typing import Any, Dict, List

from harness import core, mm, pipe_trace

_WORK: pathlib.Path = pathlib.Path(".")


def _init(work: str) -> None:
    global _WORK
    _WORK = pathlib.Path(work) / ("w%d" % os.getpid())
    _WORK.mkdir(parents=True, exist_ok=True)
    tmp = _WORK / "tmp"
    tmp.mkdir(exist_ok=True)
    tempfile.tempdir = str(tmp)
    os.environ["TMPDIR"] = str(tmp)
    pipe_trace.install()


def _components(model_path: pathlib.Path) -> Dict[str, str]:
    """C28: verdicts of the components the smoke tool composes, each called on its own."""
    from aas_core_codegen import run, infer_for_schema, intermediate, specific_implementations
    from aas_core_codegen.common import Stripped
    from aas_core_codegen.csharp import common as csharp_common, lib as csharp_lib

    v = {c: "notrun" for c in ("frontend", "infer", "csverify", "cstypes", "csverification")}
    try:
        res, err = run.load_model(model_path=model_path, cache_model=False)
    except Exception:
        v["frontend"] = "failed"
        return v
    if err is not None or res is None:
        v["frontend"] = "failed"
        return v
    v["frontend"] = "ok"
    st = res[0]
    try:
        _, errors = infer_for_schema.infer_constraints_by_class(symbol_table=st)
        v["infer"] = "ok" if errors is None else "failed"
    except Exception:
        v["infer"] = "failed"
    verified = None
    try:
        verified, errors = csharp_lib.verify_for_types(st)
        v["csverify"] = "ok" if errors is None else "failed"
    except Exception:
        v["csverify"] = "failed"
    if v["csverify"] != "ok" or verified is None:
        return v
    # implementation-specific snippets are stubbed exactly as a user without snippets could: one dummy per key
    spec_impls: Dict[Any, Any] = {}
    dummy = Stripped("DUMMY IMPLEMENTATION")
    for cls in st.classes:
        if cls.is_implementation_specific:
            spec_impls[specific_implementations.ImplementationKey("Types/%s/%s.cs" % (cls.name, cls.name))] = dummy
            continue
        for method in cls.methods:
            if isinstance(method, intermediate.ImplementationSpecificMethod):
                spec_impls[specific_implementations.ImplementationKey("Types/%s/%s.cs" % (cls.name, method.name))] = dummy
    for verification in st.verification_functions:
        if isinstance(verification, intermediate.ImplementationSpecificVerification):
            spec_impls[specific_implementations.ImplementationKey("Verification/%s.cs" % verification.name)] = dummy
    ns = csharp_common.NamespaceIdentifier("DummyNamespace")
    try:
        _, errors = csharp_lib.generate_types(symbol_table=verified, namespace=ns, spec_impls=spec_impls)
        v["cstypes"] = "ok" if errors is None else "failed"
    except Exception:
        v["cstypes"] = "failed"
    try:
        _, errors = csharp_lib.generate_verification(symbol_table=st, namespace=ns, spec_impls=spec_impls)
        v["csverification"] = "ok" if errors is None else "failed"
    except Exception:
        v["csverification"] = "failed"
    return v


def _damage_cache(how: str) -> None:
    """What happens to the model cache between two runs of a history (PipeConfig.CacheHistories)."""
    tmp = pathlib.Path(tempfile.gettempdir())
    for f in sorted(tmp.glob("aas-core-codegen-*/*")):
        if not f.is_file():
            continue
        if how == "truncate":
            f.write_bytes(f.read_bytes()[:50])
        elif how == "garbage":
            f.write_bytes(b"\x80\x04garbage, not a pickle" * 5)
        elif how == "empty_file":
            f.write_bytes(b"")
        elif how == "delete":
            f.unlink()


def _one(case: Dict[str, Any]) -> List[Dict[str, Any]]:
    d = _WORK / "case"
    if d.exists():
        shutil.rmtree(d, ignore_errors=True)
    d.mkdir(parents=True)
    pipe_trace.clear_model_cache()
    text = case.get("text")
    defect = case.get("argDefect", "none")
    model_path = d / "meta_model.py"
    if defect == "model_not_file" or text is None:
        model_path.mkdir()
        text = None
    else:
        model_path.write_bytes(text.encode("utf-8", errors="surrogatepass") if case.get("surrogatepass") else text.encode("utf-8"))
    results: List[Dict[str, Any]] = []
    t = case.get("t", "main")
    if t == "smoke":
        tr = pipe_trace.run_smoke(model_path, text or "")
        tr["_components"] = None
        if case.get("components"):
            pipe_trace.TR.active = False
            tr["_components"] = _components(model_path)
            tr["obs"]["indep"] = tr["_components"]
        if case.get("recorded") is not None:
            # C28: the recorded expectation, compared up to the model path (both sides as code points)
            got = tr["_stderr"].replace(str(model_path), "<meta_model.py>")
            tr["obs"]["hasRecorded"] = True
            tr["obs"]["recGot"] = [ord(c) for c in got]
            tr["obs"]["recWant"] = [ord(c) for c in case["recorded"]]
        results.append(tr)
    else:
        target = case.get("target", "jsonschema")
        sn_dir = d / "snippets"
        if defect == "snippets_not_dir":
            sn_dir.write_text("not a directory")
        else:
            sn = case.get("snippets")
            if sn is None:
                sn = mm.default_snippets(target, root_class=case.get("root", "Something"))
            mm.write_snippets(sn_dir, sn)
            for rel, hexbytes in (case.get("snippets_raw") or {}).items():
                p = sn_dir / rel
                p.parent.mkdir(parents=True, exist_ok=True)
                p.write_bytes(bytes.fromhex(hexbytes))
        out_dir = d / "out"
        if defect == "output_not_dir":
            out_dir.write_text("not a directory")
        elif case.get("outBlock"):
            for rel in ("schema.json", "schema.xsd"):
                (out_dir / rel).mkdir(parents=True, exist_ok=True)
        for k in range(2 if case.get("twice") else 1):
            # the second run goes into the same, already populated output directory (a re-generation)
            if k == 1 and case.get("betweenRuns"):
                _damage_cache(case["betweenRuns"])
            tr = pipe_trace.run_main(model_path, sn_dir, out_dir, target, text, arg_defect=defect, via_module=bool(case.get("viaModule")), cache_flag=bool(case.get("cacheFlag")))
            tr["_components"] = None
            results.append(tr)
    outs = []
    for k, tr in enumerate(results):
        outs.append(
            {
                "trace": pipe_trace.public(tr),
                "meta": {
                    "id": case["id"],
                    "run": k,
                    "exc": tr["_exc"],
                    "stderr": tr["_stderr"][:20000],
                    "msgs": tr["_msgs"] if case.get("keep_msgs") else None,
                    "components": tr.get("_components"),
                },
            }
        )
    shutil.rmtree(d, ignore_errors=True)
    return outs


def main() -> None:
    cases_path, out_path = sys.argv[1], sys.argv[2]
    procs = int(sys.argv[3]) if len(sys.argv) > 3 else 8
    core.assert_repo_bound()
    import aas_core_codegen.main  # noqa: F401  (import before forking)
    import aas_core_codegen.smoke.main  # noqa: F401

    pipe_trace.install()  # before forking: the workers inherit the wrapped modules
    cases = json.load(open(cases_path))["cases"]
    work = pathlib.Path(out_path).parent / "run_pipeline"
    work.mkdir(parents=True, exist_ok=True)
    ctx = multiprocessing.get_context("fork")
    traces: List[Any] = []
    meta: List[Any] = []
    if procs <= 1:
        _init(str(work))
        it = map(_one, cases)
        for outs in it:
            for o in outs:
                traces.append(o["trace"])
                meta.append(o["meta"])
    else:
        with ctx.Pool(procs, initializer=_init, initargs=(str(work),)) as pool:
            for outs in pool.imap(_one, cases, chunksize=8):
                for o in outs:
                    traces.append(o["trace"])
                    meta.append(o["meta"])
    json.dump({"traces": traces, "meta": meta, "installed": pipe_trace.install()}, open(out_path, "w"))
    shutil.rmtree(work, ignore_errors=True)


if __name__ == "__main__":
    main()
