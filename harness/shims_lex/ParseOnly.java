// Parse-only driver for C20: javac's real parser on every listed file (no attribution, no class path).
// usage: java ParseOnly.java <list file>     output: OK|ERR \t path \t first message
import com.sun.source.util.JavacTask;
import java.nio.charset.StandardCharsets;
import java.nio.file.Files;
import java.nio.file.Paths;
import java.util.Arrays;
import java.util.List;
import java.util.Locale;
import javax.tools.Diagnostic;
import javax.tools.DiagnosticCollector;
import javax.tools.JavaCompiler;
import javax.tools.JavaFileObject;
import javax.tools.StandardJavaFileManager;
import javax.tools.ToolProvider;

public class ParseOnly {
  public static void main(String[] args) throws Exception {
    List<String> paths = Files.readAllLines(Paths.get(args[0]), StandardCharsets.UTF_8);
    JavaCompiler compiler = ToolProvider.getSystemJavaCompiler();
    StringBuilder out = new StringBuilder();
    for (String p : paths) {
      if (p.isEmpty()) continue;
      DiagnosticCollector<JavaFileObject> diags = new DiagnosticCollector<>();
      StandardJavaFileManager fm = compiler.getStandardFileManager(diags, Locale.ROOT, StandardCharsets.UTF_8);
      JavacTask task = (JavacTask) compiler.getTask(null, fm, diags, Arrays.asList("-proc:none"), null, fm.getJavaFileObjects(p));
      String first = "";
      long errs = 0;
      try {
        task.parse();
      } catch (Throwable t) {
        errs = 1;
        first = t.toString();
      }
      for (Diagnostic<? extends JavaFileObject> d : diags.getDiagnostics()) {
        if (d.getKind() == Diagnostic.Kind.ERROR) {
          if (errs == 0) first = "line " + d.getLineNumber() + ": " + d.getMessage(Locale.ROOT).replace('\n', ' ').replace('\t', ' ');
          errs++;
        }
      }
      out.append(errs == 0 ? "OK" : "ERR").append('\t').append(p).append('\t').append(first).append('\n');
      fm.close();
    }
    System.out.print(out);
  }
}
