"""Shared helpers of the `expr` group (C07, C08): the Python side of specs/Expr.tla.

* render an expression tree (the JSON form of Expr.tla nodes) as meta-model Python source;
* render verification functions (pattern / transpilable) and regular-expression trees;
* decode Expr.tla values into real Python objects, and project Python results back into the
  spec's vocabulary (`pycode`, the mirror of Expr.tla!PyCode) for the S phase.
Nothing here is an oracle: the oracle is Expr.tla!Eval evaluated by TLC; this module only produces the
concrete inputs and the CPython observations.
"""
from __future__ import annotations

import enum
import re
from typing import Any, Dict, List, Optional, Sequence


def cps_to_str(cs: Sequence[int]) -> str:
    return "".join(chr(c) for c in cs)


def pystr(s: str) -> str:
    """A Python string literal (ASCII only, double quotes)."""
    out = ['"']
    for ch in s:
        o = ord(ch)
        if ch == "\\":
            out.append("\\\\")
        elif ch == '"':
            out.append('\\"')
        elif ch == "\n":
            out.append("\\n")
        elif ch == "\r":
            out.append("\\r")
        elif ch == "\t":
            out.append("\\t")
        elif 32 <= o < 127:
            out.append(ch)
        elif o <= 0xFFFF:
            out.append("\\u%04x" % o)
        else:
            out.append("\\U%08x" % o)
    out.append('"')
    return "".join(out)


# ---------------------------------------------------------------------------------------------
# expression trees -> Python source
# ---------------------------------------------------------------------------------------------

_ATOMIC = {"name", "mem", "str", "bool", "call", "len", "idx", "all", "any", "allr", "anyr", "fstr"}


def _p(e: Dict[str, Any]) -> str:
    """Operand position: parenthesise unless syntactically atomic."""
    s = render_expr(e)
    if e["k"] in _ATOMIC or (e["k"] == "int" and e["n"] >= 0):
        return s
    return "(" + s + ")"


def render_expr(e: Dict[str, Any]) -> str:
    k, a = e["k"], e["a"]
    if k == "name":
        return e["s"]
    if k == "int":
        return str(e["n"])
    if k == "bool":
        return "True" if e["n"] == 1 else "False"
    if k == "str":
        return pystr(cps_to_str(e["cs"]))
    if k == "mem":
        return "%s.%s" % (_p(a[0]), e["s"])
    if k == "cmp":
        return "%s %s %s" % (_p(a[0]), e["s"], _p(a[1]))
    if k == "isnone":
        return "%s is None" % _p(a[0])
    if k == "isnotnone":
        return "%s is not None" % _p(a[0])
    if k == "not":
        return "not %s" % _p(a[0])
    if k == "and":
        return " and ".join(_p(x) for x in a)
    if k == "or":
        return " or ".join(_p(x) for x in a)
    if k == "imp":
        return "not %s or %s" % (_p(a[0]), _p(a[1]))
    if k == "len":
        return "len(%s)" % render_expr(a[0])
    if k == "call":
        return "%s(%s)" % (e["s"], ", ".join(render_expr(x) for x in a))
    if k == "in":
        return "%s in %s" % (_p(a[0]), _p(a[1]))
    if k == "idx":
        return "%s[%s]" % (_p(a[0]), render_expr(a[1]))
    if k == "add":
        return "%s + %s" % (_p(a[0]), _p(a[1]))
    if k == "sub":
        return "%s - %s" % (_p(a[0]), _p(a[1]))
    if k == "fstr":
        parts = []
        for x in a:
            if x["k"] == "str":
                t = cps_to_str(x["cs"])
                if any(c in t for c in "\"'\\\n\r") or any(ord(c) < 32 or ord(c) > 126 for c in t):
                    raise ValueError("f-string literal part not renderable: %r" % t)
                parts.append(t.replace("{", "{{").replace("}", "}}"))
            else:
                src = render_expr(x)
                if '"' in src or "\\" in src:
                    raise ValueError("f-string expression part not renderable: %r" % src)
                parts.append("{" + src + "}")
        return 'f"' + "".join(parts) + '"'
    if k in ("all", "any"):
        s = "%s(%s for %s in %s" % (k, render_expr(a[0]), e["s"], _p(a[1]))
        if len(a) == 3:
            s += " if " + _p(a[2])
        return s + ")"
    if k in ("allr", "anyr"):
        return "%s(%s for %s in range(%s, %s))" % (k[:3], render_expr(a[0]), e["s"], render_expr(a[1]), render_expr(a[2]))
    raise ValueError("unknown node kind %r" % k)


def render_stmt(st: Dict[str, Any]) -> str:
    if st["k"] == "assign":
        return "%s = %s" % (st["s"], render_expr(st["a"][0]))
    if st["k"] == "return":
        return "return %s" % render_expr(st["a"][0])
    raise ValueError(st["k"])


# ---------------------------------------------------------------------------------------------
# regular expressions (Expr.tla Part 4) -> pattern text
# ---------------------------------------------------------------------------------------------

_RE_SPECIAL = set("\\^$.|?*+()[]{}")


def _re_chr(c: int, in_set: bool = False) -> str:
    ch = chr(c)
    if in_set:
        if ch in "\\]^-[":
            return "\\" + ch
    elif ch in _RE_SPECIAL:
        return "\\" + ch
    if 32 < c < 127:
        return ch
    if c <= 0xFF:
        return "\\x%02x" % c
    if c <= 0xFFFF:
        return "\\u%04x" % c
    return "\\U%08x" % c


def render_regex(r: Dict[str, Any], top: bool = True) -> str:
    k = r["k"]
    if k == "chr":
        return _re_chr(r["n"])
    if k == "dot":
        return "."
    if k == "set":
        cs = r["cs"]
        body = ""
        for i in range(0, len(cs), 2):
            lo, hi = cs[i], cs[i + 1]
            body += _re_chr(lo, True) if lo == hi else "%s-%s" % (_re_chr(lo, True), _re_chr(hi, True))
        return "[%s%s]" % ("^" if r["n"] == 1 else "", body)
    if k == "cat":
        return "".join(render_regex(x, False) if x["k"] != "alt" else "(" + render_regex(x, False) + ")" for x in r["a"])
    if k == "alt":
        s = "|".join(render_regex(x, False) for x in r["a"])
        return "(" + s + ")"
    if k == "rep":
        inner = render_regex(r["a"][0], False)
        if r["a"][0]["k"] in ("cat", "rep"):
            inner = "(" + inner + ")"
        lo = r["n"]
        if not r["cs"]:
            q = "*" if lo == 0 else "+" if lo == 1 else "{%d,}" % lo
        else:
            hi = r["cs"][0]
            q = "?" if (lo, hi) == (0, 1) else "{%d}" % lo if lo == hi else "{%d,%d}" % (lo, hi)
        return inner + q
    raise ValueError(k)


# ---------------------------------------------------------------------------------------------
# types and functions -> meta-model text
# ---------------------------------------------------------------------------------------------


def render_type(t: Dict[str, Any]) -> str:
    k = t["t"]
    if k in ("int", "str", "bool"):
        return k
    if k == "opt":
        return "Optional[%s]" % render_type(t["of"])
    if k == "list":
        return "List[%s]" % render_type(t["of"])
    if k == "set":
        return "Set[%s]" % render_type(t["of"])
    if k in ("inst", "enum", "cprim"):
        return t["c"]
    raise ValueError(k)


def render_function(name: str, fn: Dict[str, Any], sig: Dict[str, Any]) -> str:
    """fn: Expr.tla G.funcs entry; sig: [params |-> types, ret |-> type]. Pattern functions may carry
    "parts": a list of [variable name, regex tree] composed by an f-string (in that order)."""
    if fn["kind"] == "pattern":
        lines = ["@verification", "def %s(text: str) -> bool:" % name, '    """Check that the text conforms to the pattern."""']
        parts = fn.get("parts") or []
        if parts:
            for var, sub in parts:
                lines.append("    %s = %s" % (var, pystr(render_regex(sub))))
            lines.append('    pattern = f"^%s$"' % "".join("{%s}" % var for var, _ in parts))
        else:
            body = render_regex(fn["re"])
            if "{" in body or "}" in body:
                lines.append("    pattern = %s" % pystr("^" + body + "$"))
            else:
                lines.append("    pattern = f%s" % pystr("^" + body + "$"))
        lines.append("    return match(pattern, text) is not None")
        return "\n".join(lines) + "\n"
    params = ", ".join("%s: %s" % (p, render_type(t)) for p, t in zip(fn["params"], sig["params"]))
    lines = ["@verification", "def %s(%s) -> %s:" % (name, params, render_type(sig["ret"])), '    """Check the arguments."""']
    for st in fn["body"]:
        lines.append("    " + render_stmt(st))
    return "\n".join(lines) + "\n"


# ---------------------------------------------------------------------------------------------
# values <-> Python objects
# ---------------------------------------------------------------------------------------------


class Obj:
    """A plain object standing for an instance of a meta-model class (identity equality, no ordering)."""

    def __init__(self, cls: str, oid: str, fields: Dict[str, Any]) -> None:
        object.__setattr__(self, "_cls", cls)
        object.__setattr__(self, "_id", oid)
        for k, v in fields.items():
            object.__setattr__(self, k, v)


class World:
    """The run-time globals of one meta-model: enumerations, constant sets, functions (exec'ed from their
    rendered meta-model source, so that S evaluates the very text the front end reads)."""

    def __init__(self, enums: Dict[str, Sequence[str]], vals: Dict[str, Any], funcs_src: str = "") -> None:
        self.enums: Dict[str, Any] = {}
        for name, lits in enums.items():
            self.enums[name] = enum.Enum(name, {l: l.upper() for l in sorted(lits)})
        self.globals: Dict[str, Any] = {"match": re.match, "verification": lambda f: f, "len": len, "all": all, "any": any, "range": range, "__builtins__": {}}
        self.globals.update(self.enums)
        for name, v in vals.items():
            if v["t"] == "set":
                self.globals[name] = self.decode(v)
        if funcs_src:
            exec(compile(funcs_src, "<verification functions>", "exec"), self.globals)

    def decode(self, v: Dict[str, Any]) -> Any:
        t = v["t"]
        if t == "none":
            return None
        if t == "bool":
            return bool(v["b"])
        if t == "int":
            return int(v["n"])
        if t == "str":
            return cps_to_str(v["cs"])
        if t == "list":
            return [self.decode(x) for x in v["xs"]]
        if t == "inst":
            return Obj(v["c"], v["id"], {k: self.decode(x) for k, x in v["f"].items()})
        if t == "enum":
            return self.enums[v["c"]][v["l"]]
        if t == "set":
            return set(self.decode(x) for x in v["els"])
        raise ValueError("cannot decode value of kind %r" % t)

    def compile_lambda(self, src: str, params: str = "self") -> Any:
        return eval(compile("lambda %s: %s" % (params, src), "<invariant>", "eval"), self.globals)


def tla_seq(xs: Sequence[int]) -> str:
    """TLC's ToString of a sequence of integers."""
    return "<<" + ", ".join(str(x) for x in xs) + ">>"


def pycode(r: Any) -> str:
    """Mirror of Expr.tla!PyCode for a Python value."""
    if r is None:
        return "none"
    if isinstance(r, bool):
        return "bool:1" if r else "bool:0"
    if isinstance(r, int):
        return "int:%d" % r
    if isinstance(r, str):
        return "str:" + tla_seq([ord(c) for c in r])
    if isinstance(r, list):
        return "list:" + "".join(pycode(x) + ";" for x in r)
    if isinstance(r, Obj):
        return "inst:" + r._id
    if isinstance(r, enum.Enum):
        return "enum:" + r.name
    return "other:" + type(r).__name__


def pycode_exc(ex: BaseException) -> str:
    return "exc:" + type(ex).__name__


def run_lambda(fn: Any, *args: Any) -> str:
    try:
        return pycode(fn(*args))
    except Exception as ex:  # the observation of the S phase
        return pycode_exc(ex)


# ---------------------------------------------------------------------------------------------
# a schema (ExprSchema.tla!Schema, ClassDefs, G0) -> abstract meta-model items for harness.mm.render
# ---------------------------------------------------------------------------------------------


def enum_value(lit: str) -> str:
    return lit.upper()


def render_constant_set(name: str, v: Dict[str, Any]) -> str:
    els = v["els"]
    if els and els[0]["t"] == "enum":
        els = sorted(els, key=lambda x: x["l"])
        return "%s: Set[%s] = constant_set(\n    values=[%s],\n    description=%s,\n)\n" % (
            name, els[0]["c"], ", ".join("%s.%s" % (x["c"], x["l"]) for x in els), pystr("The set %s." % name))
    strs = sorted(cps_to_str(x["cs"]) for x in els)
    return "%s: Set[str] = constant_set(\n    values=[%s],\n    description=%s,\n)\n" % (name, ", ".join(pystr(x) for x in strs), pystr("The set %s." % name))


def functions_source(schema: Dict[str, Any], glob: Dict[str, Any]) -> str:
    return "\n\n".join(render_function(n, glob["funcs"][n], schema["funcs"][n]) for n in sorted(glob["funcs"]))


def schema_items(schema: Dict[str, Any], classdefs: Sequence[Dict[str, Any]], glob: Dict[str, Any], invs_by_class: Dict[str, List[Dict[str, str]]]) -> List[Dict[str, Any]]:
    items: List[Dict[str, Any]] = []
    for name in sorted(schema["enums"]):
        items.append({"kind": "enum", "name": name, "literals": [[l, enum_value(l)] for l in sorted(schema["enums"][name])]})
    for name in sorted(glob["vals"]):
        if glob["vals"][name]["t"] == "set":
            items.append({"kind": "raw", "text": render_constant_set(name, glob["vals"][name])})
    for name in sorted(glob["funcs"]):
        items.append({"kind": "raw", "text": render_function(name, glob["funcs"][name], schema["funcs"][name])})
    for cd in classdefs:
        items.append({"kind": "class", "name": cd["name"], "props": [{"name": p, "type": render_type(schema["classes"][cd["name"]][p])} for p in cd["props"]],
                      "invs": invs_by_class.get(cd["name"], [])})
    return items
