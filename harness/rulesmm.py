"""C06 helpers: abstract meta-model of specs/Rules.tla  <->  meta-model text.

render(m)  : abstract meta-model (JSON from TLC) -> Python-subset text (explicit constructors, docstrings with
             references, pattern functions, constants), through harness/mm.py `raw` items.
extract(t) : text -> abstract meta-model, by an independent reader (Python `ast` only).  Where the reader cannot
             be sure about a construct it records that in "unsure" (a set of rule names that must not be judged
             on this text), so that only unambiguous facts reach the oracle.

Vocabulary (all sequences are JSON lists):
 m    = {"types": [T], "consts": [{"name"}], "funcs": [{"name", "kind": "pattern"|"impl", "pattern": [code points]}]}
 T    = {"name", "kind": "class"|"cprim"|"enum", "bases": [names], "abstract": bool,
         "props": [{"name", "type": TY}], "methods": [names], "invs": [descriptions],
         "hasCtor": bool, "args": [{"name", "type": TY, "default": ""|"None"|"other"}],
         "refs": [{"role": "class"|"attr", "type": name or "", "attr": name or ""}], "literals": [names]}
 TY   = {"k": "name", "n": <name>, "a": []} | {"k": "opt", "n": "", "a": [TY]} | {"k": "list", "n": "", "a": [TY]}
"""
from __future__ import annotations

import ast
import re
from typing import Any, Dict, List, Optional, Set, Tuple

from harness import mm

PRIMITIVES = {"bool", "int", "float", "str", "bytearray"}
ALL_RULES = {"R_acyclic", "R_bases_exist", "R_unique_names", "R_reserved", "R_no_redeclare", "R_ctor_matches_props",
             "R_optional_default_none", "R_type_shapes", "R_unique_inv_desc", "R_doc_refs", "R_pattern_anchored"}


# ---------------------------------------------------------------------------------------------
# rendering
# ---------------------------------------------------------------------------------------------


def type_text(t: Dict[str, Any]) -> str:
    if t["k"] == "name":
        return t["n"]
    if t["k"] == "opt":
        return "Optional[%s]" % type_text(t["a"][0])
    if t["k"] == "list":
        return "List[%s]" % type_text(t["a"][0])
    raise ValueError(t)


def _types_by_name(m: Dict[str, Any]) -> Dict[str, Dict[str, Any]]:
    out: Dict[str, Dict[str, Any]] = {}
    for t in m["types"]:
        out.setdefault(t["name"], t)
    return out


def _lineage_props(m: Dict[str, Any], t: Dict[str, Any], seen: Optional[Set[str]] = None) -> List[Dict[str, Any]]:
    """Rendering aid: inherited + own properties (first occurrence), tolerant of cycles and missing bases."""
    by = _types_by_name(m)
    seen = set() if seen is None else seen
    if t["name"] in seen:
        return []
    seen.add(t["name"])
    out: List[Dict[str, Any]] = []
    for b in t["bases"]:
        bt = by.get(b)
        if bt is not None and bt["kind"] == "class":
            for p in _lineage_props(m, bt, seen):
                if all(q["name"] != p["name"] for q in out):
                    out.append(p)
    for p in t["props"]:
        if all(q["name"] != p["name"] for q in out):
            out.append(p)
    return out


def render_doc(t: Dict[str, Any]) -> Optional[str]:
    if not t.get("refs"):
        return None
    parts = []
    for r in t["refs"]:
        if r["role"] == "class":
            parts.append(":class:`%s`" % r["type"])
        else:
            parts.append(":attr:`%s`" % (r["type"] + "." + r["attr"] if r["type"] else r["attr"]))
    return "\n    Represent something.\n\n    See %s.\n    " % " and ".join(parts)


def render_class(m: Dict[str, Any], t: Dict[str, Any]) -> str:
    by = _types_by_name(m)
    s = ""
    if t["abstract"]:
        s += "@abstract\n"
    for d in t["invs"]:
        s += "@invariant(\n    lambda self: True,\n    %s\n)\n" % mm.pylit(d)
    s += "class %s(%s):\n" % (t["name"], ", ".join(list(t["bases"]) + ["DBC"]))
    body = ""
    doc = render_doc(t)
    if doc is not None:
        body += '    """%s"""\n\n' % doc
    for p in t["props"]:
        body += "    %s: %s\n" % (p["name"], type_text(p["type"]))
    if t["props"]:
        body += "\n"
    for meth in t["methods"]:
        body += "    @implementation_specific\n    def %s(self) -> int:\n        pass\n\n" % meth
    if t["hasCtor"]:
        args = ["self"]
        for a in t["args"]:
            d = {"": "", "None": " = None", "other": " = 1"}[a["default"]]
            args.append("%s: %s%s" % (a["name"], type_text(a["type"]), d))
        body += "    def __init__(%s) -> None:\n" % ", ".join(args)
        arg_names = [a["name"] for a in t["args"]]
        stmts = []
        for b in t["bases"]:
            bt = by.get(b)
            if bt is None or bt["kind"] != "class" or bt is t:
                continue
            bp = [p["name"] for p in _lineage_props(m, bt)]
            if bp and bt["hasCtor"]:
                stmts.append("        %s.__init__(self%s)" % (b, "".join(", %s=%s" % (p, p) for p in bp if p in arg_names)))
        for p in t["props"]:
            if p["name"] in arg_names:
                stmts.append("        self.%s = %s" % (p["name"], p["name"]))
        # de-duplicate textual repeats caused by duplicated property declarations
        seen: List[str] = []
        for st in stmts:
            if st not in seen:
                seen.append(st)
        body += "\n".join(seen or ["        pass"]) + "\n"
    if not body.strip():
        body = "    pass\n"
    return s + body


def render_cprim(m: Dict[str, Any], t: Dict[str, Any]) -> str:
    s = ""
    for k, d in enumerate(t["invs"]):
        s += "@invariant(\n    lambda self: len(self) > %d,\n    %s\n)\n" % (k, mm.pylit(d))
    s += "class %s(%s):\n" % (t["name"], ", ".join(list(t["bases"]) + ["DBC"]))
    doc = render_doc(t)
    if doc is not None:
        s += '    """%s"""\n\n' % doc
    s += "    pass\n"
    return s


def render_enum(t: Dict[str, Any]) -> str:
    s = "class %s(Enum):\n" % t["name"]
    doc = render_doc(t)
    if doc is not None:
        s += '    """%s"""\n\n' % doc
    for lit in t["literals"]:
        s += "    %s = %s\n" % (lit, mm.pylit(lit.lower()))
    if not t["literals"]:
        s += "    pass\n"
    return s


def render_func(f: Dict[str, Any]) -> str:
    if f["kind"] == "pattern":
        pat = "".join(chr(c) for c in f["pattern"])
        return (
            "@verification\ndef %s(text: str) -> bool:\n"
            '    """Check that :paramref:`text` matches."""\n'
            "    return match(%s, text) is not None\n" % (f["name"], mm.pylit(pat))
        )
    return "@verification\n@implementation_specific\ndef %s(text: str) -> bool:\n    pass\n" % f["name"]


def render(m: Dict[str, Any]) -> str:
    items = []
    for f in m["funcs"]:
        items.append({"kind": "raw", "text": render_func(f)})
    for t in m["types"]:
        if t["kind"] == "enum":
            text = render_enum(t)
        elif t["kind"] == "cprim":
            text = render_cprim(m, t)
        else:
            text = render_class(m, t)
        items.append({"kind": "raw", "text": text})
    for c in m["consts"]:
        items.append({"kind": "raw", "text": '%s: str = constant_str(value="some value", description="Represent something.")\n' % c["name"]})
    # (``constant_str`` is understood by the front end without an import; importing it is refused)
    return mm.render({"items": items})


# ---------------------------------------------------------------------------------------------
# independent reader
# ---------------------------------------------------------------------------------------------


def _ty(node: Optional[ast.expr], unsure: Set[str]) -> Dict[str, Any]:
    if isinstance(node, ast.Constant) and isinstance(node.value, str):
        return {"k": "name", "n": node.value, "a": []}
    if isinstance(node, ast.Name):
        return {"k": "name", "n": node.id, "a": []}
    if isinstance(node, ast.Subscript) and isinstance(node.value, ast.Name):
        inner = node.slice
        if isinstance(inner, ast.Index):  # pragma: no cover (py < 3.9)
            inner = inner.value  # type: ignore
        if node.value.id == "Optional" and not isinstance(inner, ast.Tuple):
            return {"k": "opt", "n": "", "a": [_ty(inner, unsure)]}
        if node.value.id == "List" and not isinstance(inner, ast.Tuple):
            return {"k": "list", "n": "", "a": [_ty(inner, unsure)]}
    unsure.update({"R_type_shapes", "R_ctor_matches_props", "R_optional_default_none"})
    return {"k": "name", "n": "?", "a": []}


REF_RE = re.compile(r":(class|attr):`([^`]*)`")


IDENT_RE = re.compile(r"^[A-Za-z_][A-Za-z0-9_]*$")


def _refs(doc: Optional[str], unsure: Set[str]) -> List[Dict[str, str]]:
    if not doc:
        return []
    out = []
    for role, target in REF_RE.findall(doc):
        target = target.strip()
        if target.startswith("~"):
            target = target[1:]
        parts = target.split(".")
        if not all(IDENT_RE.match(p) for p in parts) or len(parts) > 2 or (role == "class" and len(parts) != 1):
            unsure.add("R_doc_refs")
            continue
        if role == "class":
            out.append({"role": "class", "type": parts[0], "attr": ""})
        elif len(parts) == 1:
            out.append({"role": "attr", "type": "", "attr": parts[0]})
        else:
            out.append({"role": "attr", "type": parts[0], "attr": parts[1]})
    return out


def _dec_name(d: ast.expr) -> str:
    if isinstance(d, ast.Call):
        d = d.func
    return d.id if isinstance(d, ast.Name) else (d.attr if isinstance(d, ast.Attribute) else "")


def extract(text: str) -> Tuple[Dict[str, Any], List[str]]:
    """(m, unsure): the abstract meta-model written in ``text`` and the rules that must not be judged on it."""
    tree = ast.parse(text)
    unsure: Set[str] = set()
    m: Dict[str, Any] = {"types": [], "consts": [], "funcs": []}
    for node in tree.body:
        if isinstance(node, ast.ClassDef):
            bases = []
            for b in node.bases:
                if isinstance(b, ast.Name):
                    bases.append(b.id)
                else:
                    unsure.update({"R_bases_exist", "R_acyclic"})
            t: Dict[str, Any] = {"name": node.name, "kind": "class", "bases": [b for b in bases if b not in ("DBC", "Enum")], "abstract": False,
                                 "props": [], "methods": [], "invs": [], "hasCtor": False, "args": [], "refs": [], "literals": []}
            if "Enum" in bases:
                t["kind"] = "enum"
            decs = [_dec_name(d) for d in node.decorator_list]
            t["abstract"] = "abstract" in decs
            for d in node.decorator_list:
                if isinstance(d, ast.Call) and _dec_name(d) == "invariant":
                    desc = None
                    if len(d.args) >= 2 and isinstance(d.args[1], ast.Constant) and isinstance(d.args[1].value, str):
                        desc = d.args[1].value
                    for kw in d.keywords:
                        if kw.arg == "description" and isinstance(kw.value, ast.Constant):
                            desc = kw.value.value
                    if desc is None:
                        unsure.add("R_unique_inv_desc")
                    else:
                        t["invs"].append(desc)
            docs = [ast.get_docstring(node, clean=False)]
            body = list(node.body)
            for i, st in enumerate(body):
                nxt = body[i + 1] if i + 1 < len(body) else None
                if isinstance(st, ast.AnnAssign) and isinstance(st.target, ast.Name):
                    if t["kind"] == "enum":
                        continue
                    t["props"].append({"name": st.target.id, "type": _ty(st.annotation, unsure)})
                    if isinstance(nxt, ast.Expr) and isinstance(nxt.value, ast.Constant) and isinstance(nxt.value.value, str):
                        docs.append(nxt.value.value)
                elif isinstance(st, ast.Assign) and t["kind"] == "enum" and len(st.targets) == 1 and isinstance(st.targets[0], ast.Name):
                    t["literals"].append(st.targets[0].id)
                    if isinstance(nxt, ast.Expr) and isinstance(nxt.value, ast.Constant) and isinstance(nxt.value.value, str):
                        docs.append(nxt.value.value)
                elif isinstance(st, ast.FunctionDef):
                    docs.append(ast.get_docstring(st, clean=False))
                    if st.name != "__init__":
                        t["methods"].append(st.name)
                        continue
                    t["hasCtor"] = True
                    a = st.args
                    if a.vararg or a.kwarg or a.kwonlyargs or getattr(a, "posonlyargs", []):
                        unsure.update({"R_ctor_matches_props", "R_optional_default_none"})
                    pos = a.args[1:] if a.args else []
                    ndef = len(a.defaults)
                    for j, arg in enumerate(pos):
                        dnode = a.defaults[j - (len(pos) - ndef)] if j >= len(pos) - ndef else None
                        default = ""
                        if dnode is not None:
                            default = "None" if isinstance(dnode, ast.Constant) and dnode.value is None else "other"
                        t["args"].append({"name": arg.arg, "type": _ty(arg.annotation, unsure), "default": default})
            for d in docs:
                t["refs"].extend(_refs(d, unsure))
            m["types"].append(t)
        elif isinstance(node, ast.AnnAssign) and isinstance(node.target, ast.Name) and isinstance(node.value, ast.Call):
            m["consts"].append({"name": node.target.id})
            for kw in node.value.keywords:
                if kw.arg == "description" and isinstance(kw.value, ast.Constant) and isinstance(kw.value.value, str):
                    pass  # references in constant descriptions are not attributed to a type; left unjudged
        elif isinstance(node, ast.FunctionDef):
            decs = [_dec_name(d) for d in node.decorator_list]
            kind = "impl"
            pattern: List[int] = []
            if "implementation_specific" not in decs:
                # a pattern function in the plainest form: a single `return match(<literal>, text) is not None`
                body = [st for st in node.body if not (isinstance(st, ast.Expr) and isinstance(st.value, ast.Constant))]
                lit = None
                if len(body) == 1 and isinstance(body[0], ast.Return) and isinstance(body[0].value, ast.Compare):
                    left = body[0].value.left
                    if isinstance(left, ast.Call) and isinstance(left.func, ast.Name) and left.func.id == "match" and left.args and isinstance(left.args[0], ast.Constant) and isinstance(left.args[0].value, str):
                        lit = left.args[0].value
                if lit is None:
                    kind = "other"
                else:
                    kind = "pattern"
                    pattern = [ord(c) for c in lit]
            m["funcs"].append({"name": node.name, "kind": kind, "pattern": pattern})
    # a constrained primitive inherits from a primitive or from a constrained primitive
    kinds = {t["name"]: t for t in m["types"]}
    changed = True
    while changed:
        changed = False
        for t in m["types"]:
            if t["kind"] == "class" and any(b in PRIMITIVES or (b in kinds and kinds[b]["kind"] == "cprim") for b in t["bases"]):
                t["kind"] = "cprim"
                changed = True
    # documentation references outside of class bodies (module docstring, constants, functions) are not modelled
    return m, sorted(unsure)
