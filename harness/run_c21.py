"""R phase of C21: put two distinct identifiers into one scope, generate with every target, observe
  * the names the target's own naming functions give to the two entities (what the generators call),
  * the outcome of main.execute (ok / reported / exception),
  * the names declared in the relevant scope of the output where a parser exists (Python ast, JSON Schema, XSD),
  * output files written more than once in a single run.

usage: python -m harness.run_c21 <cases.json> <obs.json> <scratch dir> [nproc]
"""
import ast
import importlib
import json
import multiprocessing
import os
import pathlib
import sys
import tempfile
import time
import traceback
import xml.etree.ElementTree as ET

from harness import core, genlib, mm

INT = {"k": "prim", "n": "int"}
STR = {"k": "prim", "n": "str"}


def _cls(name, props=(), bases=(), abstract=False, methods=(), wmt="none"):
    return {
        "name": name,
        "bases": list(bases),
        "abstract": abstract,
        "impl": False,
        "wmt": wmt,
        "props": [{"name": n, "type": t, "doc": ""} for n, t in props],
        "invs": [],
        "methods": [{"name": m, "kind": "impl", "doc": ""} for m in methods],
        "doc": "",
    }


def _enum(name, lits):
    return {"name": name, "doc": "", "lits": [{"name": n, "value": v, "doc": ""} for n, v in lits]}


def build(kind: str, a: str, b: str):
    """Abstract model (genlib.render shape) with the two entities in one scope, and their roles.
    A role is (role, identifier, owner) where owner is the enclosing class / enumeration / function, if any."""
    m = {"doc": "", "classes": [], "enums": [], "cprims": [], "fns": [], "consts": []}
    some = _cls("Something", [("x_value", INT)])

    def opt(n):
        return {"k": "opt", "of": {"k": "ref", "n": n}}

    # every entity is *used* by Something (the schema generators only emit what is referenced)
    if kind == "class_class":
        m["classes"] = [_cls(a, [("v", INT)]), _cls(b, [("v", INT)]), _cls("Something", [("x_value", INT), ("first_used", opt(a)), ("second_used", opt(b))])]
        roles = [("class", a, None), ("class", b, None)]
    elif kind == "class_abstract":
        m["classes"] = [
            _cls(a, [("v", INT)], abstract=True, wmt="true"),
            _cls("Concrete_child", [], bases=[a]),
            _cls(b, [("w", INT)]),
            _cls("Something", [("x_value", INT), ("first_used", opt(a)), ("second_used", opt(b))]),
        ]
        roles = [("abstract", a, None), ("class", b, None)]
    elif kind == "class_enum":
        m["classes"] = [_cls(a, [("v", INT)]), _cls("Something", [("x_value", INT), ("first_used", opt(a)), ("second_used", opt(b))])]
        m["enums"] = [_enum(b, [("First_literal", "first")])]
        roles = [("class", a, None), ("enum", b, None)]
    elif kind == "enum_enum":
        m["classes"] = [_cls("Something", [("x_value", INT), ("first_used", opt(a)), ("second_used", opt(b))])]
        m["enums"] = [_enum(a, [("First_literal", "first")]), _enum(b, [("Second_literal", "second")])]
        roles = [("enum", a, None), ("enum", b, None)]
    elif kind == "class_cprim":
        m["classes"] = [_cls(b, [("v", {"k": "ref", "n": a})]), _cls("Something", [("x_value", INT), ("second_used", opt(b))])]
        m["cprims"] = [{"name": a, "base": "str", "invs": [], "doc": ""}]
        roles = [("cprim", a, None), ("class", b, None)]
    elif kind == "prop_prop":
        m["classes"] = [_cls("Something", [(a, INT), (b, INT)])]
        roles = [("prop", a, "Something"), ("prop", b, "Something")]
    elif kind == "prop_inherited":
        m["classes"] = [_cls("Parent", [(a, INT)], abstract=True), _cls("Something", [(b, INT)], bases=["Parent"])]
        roles = [("prop", a, "Something"), ("prop", b, "Something")]
    elif kind == "prop_two_parents":
        m["classes"] = [_cls("Left_parent", [(a, INT)], abstract=True), _cls("Right_parent", [(b, INT)], abstract=True), _cls("Something", [("x_value", INT)], bases=["Left_parent", "Right_parent"])]
        roles = [("prop", a, "Something"), ("prop", b, "Something")]
    elif kind == "prop_method_two_parents":
        m["classes"] = [_cls("Left_parent", [(a, INT)], abstract=True), _cls("Right_parent", [("y_value", INT)], abstract=True, methods=[b]), _cls("Something", [("x_value", INT)], bases=["Left_parent", "Right_parent"])]
        roles = [("prop", a, "Something"), ("method", b, "Something")]
    elif kind == "prop_two_grandparents":
        m["classes"] = [
            _cls("Left_grandparent", [(a, INT)], abstract=True),
            _cls("Right_grandparent", [(b, INT)], abstract=True),
            _cls("Left_parent", [], bases=["Left_grandparent"], abstract=True),
            _cls("Right_parent", [], bases=["Right_grandparent"], abstract=True),
            _cls("Something", [("x_value", INT)], bases=["Left_parent", "Right_parent"]),
        ]
        roles = [("prop", a, "Something"), ("prop", b, "Something")]
    elif kind == "prop_method":
        m["classes"] = [_cls("Something", [(a, INT)], methods=[b])]
        roles = [("prop", a, "Something"), ("method", b, "Something")]
    elif kind == "method_method":
        m["classes"] = [_cls("Something", [("x_value", INT)], methods=[a, b])]
        roles = [("method", a, "Something"), ("method", b, "Something")]
    elif kind == "lit_lit":
        m["classes"] = [_cls("Something", [("choice", {"k": "ref", "n": "Choice"})])]
        m["enums"] = [_enum("Choice", [(a, "first"), (b, "second")])]
        roles = [("lit", a, "Choice"), ("lit", b, "Choice")]
    elif kind == "lit_other_enum":
        m["classes"] = [_cls("Something", [("first_choice", {"k": "ref", "n": "First_choice"}), ("second_choice", {"k": "ref", "n": "Second_choice"})])]
        m["enums"] = [_enum("First_choice", [(a, "first")]), _enum("Second_choice", [(b, "second")])]
        roles = [("lit", a, "First_choice"), ("lit", b, "Second_choice")]
    elif kind == "const_const":
        m["classes"] = [some]
        m["consts"] = [
            {"name": a, "kind": "str", "value": "first", "values": [], "enum": "", "superset_of": [], "doc": ""},
            {"name": b, "kind": "str", "value": "second", "values": [], "enum": "", "superset_of": [], "doc": ""},
        ]
        roles = [("const", a, None), ("const", b, None)]
    elif kind == "fn_fn":
        m["classes"] = [some]
        m["fns"] = [
            {"name": a, "kind": "pattern", "regex": "^a$", "args": [{"name": "text", "type": STR}], "body": "", "doc": "Check."},
            {"name": b, "kind": "pattern", "regex": "^b$", "args": [{"name": "text", "type": STR}], "body": "", "doc": "Check."},
        ]
        roles = [("fn", a, None), ("fn", b, None)]
    else:
        raise ValueError(kind)
    return m, roles


ANCESTORS = ("Parent", "Left_parent", "Right_parent", "Left_grandparent", "Right_grandparent")
TYPE_LIKE_KINDS = {"class_class", "class_abstract", "class_enum", "enum_enum", "class_cprim", "lit_lit", "const_const", "lit_other_enum"}

# which naming functions of <target>/naming.py give the names an entity of a role declares in the scope it shares
# with its sibling (types of the package / members of the class / literals of the enumeration / constants / functions)
SDK_TABLE = {
    "cpp": {"class": ["class_name", "interface_name"], "abstract": ["interface_name"], "enum": ["enum_name"], "prop": ["getter_name"], "method": ["method_name"], "lit": ["enum_literal_name"], "const": ["constant_name"], "fn": ["function_name"], "arg": ["argument_name"]},
    "csharp": {"class": ["class_name", "interface_name"], "abstract": ["interface_name"], "enum": ["enum_name"], "prop": ["property_name"], "method": ["method_name"], "lit": ["enum_literal_name"], "const": ["property_name"], "fn": ["method_name"], "arg": ["argument_name"]},
    "golang": {"class": ["struct_name", "interface_name"], "abstract": ["interface_name"], "enum": ["enum_name"], "prop": ["getter_name"], "method": ["method_name"], "lit": ["enum_literal_name"], "const": ["constant_name"], "fn": ["function_name"], "arg": ["argument_name"]},
    "java": {"class": ["class_name", "interface_name"], "abstract": ["interface_name"], "enum": ["enum_name"], "prop": ["getter_name"], "method": ["method_name"], "lit": ["enum_literal_name"], "const": ["property_name"], "fn": ["method_name"], "arg": ["argument_name"]},
    "python": {"class": ["class_name"], "abstract": ["class_name"], "enum": ["enum_name"], "prop": ["property_name"], "method": [], "lit": ["enum_literal_name"], "const": ["constant_name"], "fn": ["function_name"], "arg": ["argument_name"]},
    "typescript": {"class": ["class_name", "interface_name"], "abstract": ["interface_name"], "enum": ["enum_name"], "prop": ["property_name"], "method": ["method_name"], "lit": ["enum_literal_name"], "const": ["constant_name"], "fn": ["function_name"], "arg": ["argument_name"]},
}


def gen_names(target: str, role: str, ident: str, owner):
    """The generated names of an entity in its shared scope, obtained from the target's own naming functions."""
    from aas_core_codegen import naming
    from aas_core_codegen.common import Identifier

    out = []
    try:
        if target in SDK_TABLE:
            nm = importlib.import_module("aas_core_codegen.%s.naming" % target)
            for fn in SDK_TABLE[target].get(role, []):
                f = getattr(nm, fn, None)
                if f is None:
                    continue
                if fn == "enum_literal_name" and target == "golang":
                    out.append(str(f(Identifier(owner), Identifier(ident))))
                else:
                    out.append(str(f(Identifier(ident))))
        elif target == "jsonschema":
            if role in ("class", "abstract", "enum"):
                out.append(str(naming.json_model_type(Identifier(ident))))
            elif role == "prop":
                out.append(str(naming.json_property(Identifier(ident))))
        elif target == "xsd":
            xn = importlib.import_module("aas_core_codegen.xsd.naming")
            if role in ("class", "abstract", "enum"):
                out.append(str(xn.type_name(Identifier(ident))))
            elif role == "prop":
                out.append(str(naming.xml_property(Identifier(ident))))
    except Exception as ex:  # a naming function refusing the identifier: no name
        return [], "%s: %s" % (type(ex).__name__, str(ex)[:120])
    return out, ""


# -- declared names from the output, where a parser exists ------------------------------------------------------


def _py_declared(out_dir: pathlib.Path, kind: str, roles) -> list:
    pkg = out_dir / "vsdk"
    scope_kind = roles[0][0]
    if scope_kind in ("class", "abstract", "enum", "cprim"):
        tree = ast.parse((pkg / "types.py").read_text(encoding="utf-8"))
        return [n.name for n in tree.body if isinstance(n, ast.ClassDef)]
    if scope_kind in ("prop", "method"):
        from aas_core_codegen.python import naming as pn
        from aas_core_codegen.common import Identifier

        cnames = {str(pn.class_name(Identifier(o))) for o in (roles[0][2],) + ANCESTORS}
        tree = ast.parse((pkg / "types.py").read_text(encoding="utf-8"))
        names = []
        for n in tree.body:
            if isinstance(n, ast.ClassDef) and n.name in cnames:
                for b in n.body:
                    if isinstance(b, ast.AnnAssign) and isinstance(b.target, ast.Name):
                        names.append(b.target.id)
                    elif isinstance(b, ast.FunctionDef) and not b.name.startswith("__"):
                        names.append(b.name)
        return names
    if scope_kind == "lit":
        if roles[0][2] != roles[1][2]:
            return []
        from aas_core_codegen.python import naming as pn
        from aas_core_codegen.common import Identifier

        ename = str(pn.enum_name(Identifier(roles[0][2])))
        tree = ast.parse((pkg / "types.py").read_text(encoding="utf-8"))
        names = []
        for n in tree.body:
            if isinstance(n, ast.ClassDef) and n.name == ename:
                for b in n.body:
                    if isinstance(b, ast.Assign):
                        names.extend(t.id for t in b.targets if isinstance(t, ast.Name))
        return names
    if scope_kind == "const":
        tree = ast.parse((pkg / "constants.py").read_text(encoding="utf-8"))
        names = []
        for n in tree.body:
            if isinstance(n, ast.Assign):
                names.extend(t.id for t in n.targets if isinstance(t, ast.Name))
            elif isinstance(n, ast.AnnAssign) and isinstance(n.target, ast.Name):
                names.append(n.target.id)
        return names
    if scope_kind == "fn":
        tree = ast.parse((pkg / "verification.py").read_text(encoding="utf-8"))
        return [n.name for n in tree.body if isinstance(n, ast.FunctionDef)]
    if scope_kind == "arg":
        from aas_core_codegen.python import naming as pn
        from aas_core_codegen.common import Identifier

        fname = str(pn.function_name(Identifier(roles[0][2])))
        tree = ast.parse((pkg / "verification.py").read_text(encoding="utf-8"))
        for n in tree.body:
            if isinstance(n, ast.FunctionDef) and n.name == fname:
                return [x.arg for x in n.args.args]
        return []
    return []


def _find_properties(node):
    if isinstance(node, dict):
        if "properties" in node and isinstance(node["properties"], list):
            return node["properties"]
        for k, v in node.items() if not isinstance(node, list) else []:
            r = _find_properties(v)
            if r is not None:
                return r
    return None


def _json_declared(out_dir: pathlib.Path, kind: str, roles) -> list:
    # keep duplicate keys: every object is loaded as a list of pairs
    data = json.loads((out_dir / "schema.json").read_text(encoding="utf-8"), object_pairs_hook=lambda pairs: pairs)
    top = dict((k, v) for k, v in data)
    defs = top.get("definitions", [])
    scope_kind = roles[0][0]
    if scope_kind in ("class", "abstract", "enum", "cprim"):
        return [k for k, _ in defs]
    if scope_kind == "prop":
        from aas_core_codegen import naming
        from aas_core_codegen.common import Identifier

        names = []

        def walk(node):
            if isinstance(node, list) and all(isinstance(x, tuple) and len(x) == 2 for x in node) and node:
                for k, v in node:
                    if k == "properties" and isinstance(v, list):
                        names.extend(kk for kk, _ in v if kk != "modelType")
                    else:
                        walk(v)
            elif isinstance(node, list):
                for x in node:
                    walk(x)

        wanted = {str(naming.json_model_type(Identifier(o))) for o in ("Something",) + ANCESTORS}
        wanted |= {w + "_abstract" for w in list(wanted)}
        for k, v in defs:
            if k in wanted:
                walk(v)
        return names
    return []


XS = "{http://www.w3.org/2001/XMLSchema}"


def _xsd_declared(out_dir: pathlib.Path, kind: str, roles) -> list:
    root = ET.parse(str(out_dir / "schema.xsd")).getroot()
    scope_kind = roles[0][0]
    if scope_kind in ("class", "abstract", "enum", "cprim"):
        return [e.get("name") for e in root if e.tag in (XS + "complexType", XS + "simpleType") and e.get("name")]
    if scope_kind == "prop":
        xn = importlib.import_module("aas_core_codegen.xsd.naming")
        from aas_core_codegen.common import Identifier

        groups = {str(xn.group_name(Identifier(o))) for o in ("Something",) + ANCESTORS}
        names = []
        for e in root:
            if e.tag == XS + "group" and e.get("name") in groups:
                names.extend(x.get("name") for x in e.iter(XS + "element") if x.get("name"))
        return names
    return []


def _py_module_duplicates(out_dir: pathlib.Path) -> list:
    """Names bound more than once at the top level of a generated Python module (``module:name``), whatever they are
    derived from (classes, functions, private look-up tables such as ``_<ENUM>_FROM_STR``)."""
    dups = []
    for f in sorted((out_dir / "vsdk").glob("*.py")):
        try:
            tree = ast.parse(f.read_text(encoding="utf-8"))
        except SyntaxError:
            continue
        seen = set()
        for n in tree.body:
            names = []
            if isinstance(n, (ast.ClassDef, ast.FunctionDef)):
                if any(isinstance(d, ast.Name) and d.id == "overload" for d in getattr(n, "decorator_list", [])):
                    continue
                names = [n.name]
            elif isinstance(n, ast.Assign):
                names = [t.id for t in n.targets if isinstance(t, ast.Name)]
            elif isinstance(n, ast.AnnAssign) and isinstance(n.target, ast.Name) and n.value is not None:
                names = [n.target.id]
            for nm in names:
                if nm in seen and "%s:%s" % (f.stem, nm) not in dups:
                    dups.append("%s:%s" % (f.stem, nm))
                seen.add(nm)
    return dups


DECLARED = {"python": _py_declared, "jsonschema": _json_declared, "xsd": _xsd_declared}


def _init(scratch: str) -> None:
    d = pathlib.Path(scratch) / ("tmp-%d" % os.getpid())
    d.mkdir(parents=True, exist_ok=True)
    os.environ["TMPDIR"] = str(d)
    tempfile.tempdir = None


def _one(args):
    idx, case, scratch = args
    kind = case["kind"]
    # a common, distinctive first part makes the generated names recognisable in the output (the bare identifiers of
    # the universe are as short as "a"); it takes part in every conversion in the same way for both identifiers
    prefix = "Zq_" if kind in TYPE_LIKE_KINDS else "zq_"
    a, b = prefix + core.from_cps(case["ta"]), prefix + core.from_cps(case["tb"])
    recs = []
    try:
        model, roles = build(kind, a, b)
        text = genlib.render(model)
        sc = pathlib.Path(scratch) / ("w-%d" % os.getpid())
        front, detail, mp = genlib.front_end(text, sc)
        needs_snippets = any(r[0] == "method" for r in roles)
        for t in genlib.TARGETS:
            na, ea = gen_names(t, roles[0][0], roles[0][1], roles[0][2])
            nb, eb = gen_names(t, roles[1][0], roles[1][1], roles[1][2])
            rec = {
                "case": idx,
                "kind": kind,
                "a": a,
                "b": b,
                "target": t,
                "same_scope": bool(case["same_scope"]),
                "names_a": na,
                "names_b": nb,
                "naming_error": ea or eb,
                "front": front,
                "outcome": "not_run",
                "has_declared": False,
                "declared": [],
                "dup_paths": [],
                "detail": "",
                "exc_site": "",
                "names_found": True,
                "module_dups": [],
            }
            if front == "accepted":
                base = mm.default_snippets(t)
                sn = genlib.discover_snippets(mp, t, base, sc / t) if needs_snippets else base
                r = genlib.generate_once(mp, t, sn, sc / t, fresh=(t in DECLARED), record_paths=True)
                last = r["events"][-1]
                n_e = sum(e["n"] for e in r["events"] if e["k"] == "e")
                if last["k"] == "raise":
                    rec["outcome"] = "exception"
                    rec["exc_site"] = r["exc_site"]
                    rec["detail"] = "%s: %s" % (r["exc_type"], r["exc_msg"][:160])
                elif last["n"] == 0:
                    rec["outcome"] = "ok"
                else:
                    rec["outcome"] = "reported" if n_e > 0 else "silent_nonzero"
                    rec["detail"] = r["stderr_head"][:240]
                seen, dups = set(), []
                for p in r.get("paths", []):
                    if p in seen and p not in dups:
                        dups.append(p)
                    seen.add(p)
                rec["dup_paths"] = dups
                if rec["outcome"] == "ok" and t in DECLARED and not needs_snippets and case["same_scope"] and (na or nb):
                    try:
                        rec["declared"] = [str(x) for x in DECLARED[t](pathlib.Path(r["out_dir"]), kind, roles)]
                        rec["has_declared"] = True
                    except (SyntaxError, ET.ParseError, ValueError) as ex:
                        rec["detail"] = "output not parsable: %s" % (str(ex)[:120],)
                if rec["outcome"] == "ok" and t == "python" and not needs_snippets:
                    rec["module_dups"] = _py_module_duplicates(pathlib.Path(r["out_dir"]))
                # do the names occur in the output as words at all?
                if rec["outcome"] == "ok" and (na or nb):
                    blob = []
                    for pth in sorted(set(r.get("paths", []))):
                        try:
                            blob.append((pathlib.Path(r["out_dir"]) / pth).read_text(encoding="utf-8"))
                        except Exception:
                            pass
                    whole = "\n".join(blob)
                    import re as _re

                    rec["names_found"] = all(_re.search(r"(?<![A-Za-z0-9_])%s(?![A-Za-z0-9_])" % _re.escape(n), whole) is not None for n in na + nb)
            recs.append(rec)
    except Exception:
        return idx, [{"case": idx, "kind": "harness_error", "detail": traceback.format_exc()[-1500:]}], ""
    return idx, recs, text


def main() -> None:
    cases_path, out_path, scratch = sys.argv[1], sys.argv[2], sys.argv[3]
    nproc = int(sys.argv[4]) if len(sys.argv) > 4 else 8
    core.assert_repo_bound()
    cases = json.load(open(cases_path))
    pathlib.Path(scratch).mkdir(parents=True, exist_ok=True)
    jobs = [(i, c, scratch) for i, c in enumerate(cases)]
    obs, texts = [], {}
    if nproc <= 1:
        _init(scratch)
        results = map(_one, jobs)
    else:
        pool = multiprocessing.Pool(nproc, initializer=_init, initargs=(scratch,))
        results = pool.imap_unordered(_one, jobs, chunksize=2)
    for idx, recs, text in results:
        obs.extend(recs)
        texts[idx] = text
    if nproc > 1:
        pool.close()
        pool.join()
    obs.sort(key=lambda r: (r["case"], r.get("target", "")))
    json.dump({"obs": obs, "texts": [texts.get(i, "") for i in range(len(cases))]}, open(out_path, "w"))


if __name__ == "__main__":
    main()
