"""S phase helpers of the `lex` group (C19, C20): what the *real* tool chains make of a source text.

Used to validate the TLA+ lexer machines of specs/Lexers.tla (a disagreement is a machinery failure),
and, for C20, as the real parsers of generated files. Nothing here touches the repository under test.

real_values(kind, texts, workdir) -> {text: ("yes", [units]) | ("no", None) | ("na", None)}
"""
from __future__ import annotations

import json
import pathlib
import re
import shutil
import subprocess
import warnings
from typing import Dict, List, Optional, Sequence, Tuple

Verdict = Tuple[str, Optional[List[int]]]


# ---------------------------------------------------------------------------------------------
# Python (in process: the interpreter running the harness is the reference implementation)
# ---------------------------------------------------------------------------------------------


def real_python(texts: Sequence[str]) -> Dict[str, Verdict]:
    out: Dict[str, Verdict] = {}
    with warnings.catch_warnings():
        warnings.simplefilter("ignore")
        for t in texts:
            try:
                # parentheses: adjacent literals on several lines concatenate, as at the call sites
                v = eval(compile("(" + t + "\n)", "<lit>", "eval"), {"__builtins__": {}}, {})
            except (SyntaxError, ValueError):
                out[t] = ("no", None)
                continue
            except Exception:
                out[t] = ("na", None)
                continue
            if isinstance(v, str):
                out[t] = ("yes", [ord(c) for c in v])
            elif isinstance(v, bytes):
                out[t] = ("yes", list(v))
            else:
                out[t] = ("na", None)
    return out


# ---------------------------------------------------------------------------------------------
# generic "one literal per line" batch compile: returns per index ok/value
# ---------------------------------------------------------------------------------------------


def _error_lines(stderr: str, fname: str) -> List[int]:
    return sorted({int(m.group(1)) for m in re.finditer(r"%s:(\d+)(?::\d+)?: (?:fatal )?error" % re.escape(fname), stderr)})


CPP_HEAD = r"""#include <cstdio>
#include <cstddef>
template <size_t N> static void p(int id, const wchar_t (&a)[N]) { std::printf("%d", id); for (size_t i = 0; i + 1 < N; i++) std::printf(" %x", (unsigned)a[i]); std::printf("\n"); }
template <size_t N> static void p(int id, const char (&a)[N]) { std::printf("%d", id); for (size_t i = 0; i + 1 < N; i++) std::printf(" %x", (unsigned)(unsigned char)a[i]); std::printf("\n"); }
static void p(int id, wchar_t c) { std::printf("%d %x\n", id, (unsigned)c); }
"""


def real_cpp(texts: Sequence[str], workdir: pathlib.Path, per_file: int = 4000) -> Dict[str, Verdict]:
    """Compile the literals for real with g++ (wchar_t is 32 bits here; narrow execution charset UTF-8)."""
    out: Dict[str, Verdict] = {}
    texts = list(texts)
    for t in texts:
        if "\n" in t:
            out[t] = ("na", None)
    todo = [t for t in texts if t not in out]
    workdir.mkdir(parents=True, exist_ok=True)
    chunks = [todo[i : i + per_file] for i in range(0, len(todo), per_file)]
    procs = []
    for ci, chunk in enumerate(chunks):
        procs.append(_cpp_chunk_start(chunk, workdir, ci))
    for ci, chunk in enumerate(chunks):
        out.update(_cpp_chunk_finish(chunk, workdir, ci, procs[ci]))
    return out


def _cpp_write(chunk: Sequence[str], skip: set, path: pathlib.Path) -> int:
    head_lines = CPP_HEAD.count("\n") + 1
    with open(path, "w", encoding="utf-8", newline="\n") as f:
        f.write(CPP_HEAD)
        f.write("int main() {\n")
        for i, t in enumerate(chunk):
            if i in skip:
                f.write("\n")
            else:
                f.write("p(%d, %s);\n" % (i, t))
        f.write("return 0; }\n")
    return head_lines


def _cpp_cmd(src: pathlib.Path, exe: pathlib.Path) -> List[str]:
    return ["g++", "-std=c++17", "-pedantic-errors", "-O0", "-fmax-errors=0", "-o", str(exe), str(src)]


def _cpp_chunk_start(chunk: Sequence[str], workdir: pathlib.Path, ci: int):
    src = workdir / ("lit%d.cpp" % ci)
    _cpp_write(chunk, set(), src)
    return subprocess.Popen(_cpp_cmd(src, workdir / ("lit%d" % ci)), stdout=subprocess.PIPE, stderr=subprocess.PIPE, text=True, errors="replace")


def _cpp_chunk_finish(chunk: Sequence[str], workdir: pathlib.Path, ci: int, proc) -> Dict[str, Verdict]:
    src = workdir / ("lit%d.cpp" % ci)
    exe = workdir / ("lit%d" % ci)
    head = CPP_HEAD.count("\n") + 1  # line of "int main() {"
    _, err = proc.communicate(timeout=600)
    skip: set = set()
    rounds = 0
    while proc.returncode != 0:
        bad = {ln - head - 1 for ln in _error_lines(err, src.name)}
        bad = {b for b in bad if 0 <= b < len(chunk)} - skip
        if not bad or rounds > 3:
            raise RuntimeError("g++ failed in a way the harness cannot attribute to literals:\n" + err[-2000:])
        skip |= bad
        rounds += 1
        _cpp_write(chunk, skip, src)
        proc = subprocess.run(_cpp_cmd(src, exe), stdout=subprocess.PIPE, stderr=subprocess.PIPE, text=True, errors="replace", timeout=600)
        err = proc.stderr
    run = subprocess.run([str(exe)], stdout=subprocess.PIPE, text=True, timeout=120)
    vals = {}
    for line in run.stdout.splitlines():
        parts = line.split()
        vals[int(parts[0])] = [int(x, 16) for x in parts[1:]]
    out: Dict[str, Verdict] = {}
    for i, t in enumerate(chunk):
        if i in skip:
            out[t] = ("no", None)
        else:
            out[t] = ("yes", vals[i])
    return out


JAVA_CLASS = """public class %s {
  static StringBuilder sb = new StringBuilder();
  static void p(int id, String s) { sb.append(id); for (int i = 0; i < s.length(); i++) { sb.append(' ').append(Integer.toHexString(s.charAt(i))); } sb.append('\\n'); }
"""


def real_java(texts: Sequence[str], workdir: pathlib.Path, per_class: int = 3000, per_method: int = 250) -> Dict[str, Verdict]:
    out: Dict[str, Verdict] = {}
    texts = list(texts)
    for t in texts:
        if "\n" in t or "\r" in t:
            out[t] = ("na", None)
    todo = [t for t in texts if t not in out]
    if not todo:
        return out
    if workdir.exists():
        shutil.rmtree(workdir)
    workdir.mkdir(parents=True)
    chunks = [todo[i : i + per_class] for i in range(0, len(todo), per_class)]
    skip: set = set()  # (ci, i)
    line_of: Dict[Tuple[int, int], int] = {}

    def write_all() -> None:
        for ci, chunk in enumerate(chunks):
            name = "L%d" % ci
            lines = (JAVA_CLASS % name).splitlines()
            nm = 0
            for mi in range(0, len(chunk), per_method):
                lines.append("  static void m%d() {" % nm)
                for i in range(mi, min(mi + per_method, len(chunk))):
                    line_of[(ci, i)] = len(lines) + 1
                    lines.append("" if (ci, i) in skip else "p(%d, %s);" % (i, chunk[i]))
                lines.append("  }")
                nm += 1
            lines.append("  public static void main(String[] a) { %s System.out.print(sb); }" % " ".join("m%d();" % k for k in range(nm)))
            lines.append("}")
            (workdir / (name + ".java")).write_text("\n".join(lines) + "\n", encoding="utf-8", newline="\n")

    rounds = 0
    while True:
        write_all()
        cmd = ["javac", "-encoding", "UTF-8", "-proc:none", "-nowarn", "-Xmaxerrs", "1000000", "-d", str(workdir / "cls")] + [str(workdir / ("L%d.java" % ci)) for ci in range(len(chunks))]
        p = subprocess.run(cmd, stdout=subprocess.PIPE, stderr=subprocess.PIPE, text=True, errors="replace", timeout=900)
        if p.returncode == 0:
            break
        bad = set()
        for ci, chunk in enumerate(chunks):
            rev = {line_of[(ci, i)]: i for i in range(len(chunk))}
            for ln in _error_lines(p.stderr, "L%d.java" % ci):
                if ln in rev:
                    bad.add((ci, rev[ln]))
        bad -= skip
        if not bad or rounds > 3:
            raise RuntimeError("javac failed in a way the harness cannot attribute to literals:\n" + p.stderr[-2000:])
        skip |= bad
        rounds += 1
    for ci, chunk in enumerate(chunks):
        run = subprocess.run(["java", "-Xss16m", "-cp", str(workdir / "cls"), "L%d" % ci], stdout=subprocess.PIPE, text=True, timeout=300)
        vals = {}
        for line in run.stdout.splitlines():
            parts = line.split()
            vals[int(parts[0])] = [int(x, 16) for x in parts[1:]]
        for i, t in enumerate(chunk):
            out[t] = ("no", None) if (ci, i) in skip else ("yes", vals[i])
    return out


NODE_SCRIPT = r"""
'use strict';
const fs = require('fs');
const texts = JSON.parse(fs.readFileSync(process.argv[2], 'utf8'));
const out = [];
for (const t of texts) {
  try {
    const v = (0, eval)('"use strict"; (' + t + '\n)');
    if (typeof v !== 'string') { out.push(null); continue; }
    const units = [];
    for (let i = 0; i < v.length; i++) units.push(v.charCodeAt(i));
    out.push(units);
  } catch (e) { out.push(false); }
}
fs.writeFileSync(process.argv[3], JSON.stringify(out));
"""


def real_node(texts: Sequence[str], workdir: pathlib.Path) -> Dict[str, Verdict]:
    """ECMAScript semantics of the literal (strict mode, as in an ES module / TypeScript output)."""
    workdir.mkdir(parents=True, exist_ok=True)
    texts = list(texts)
    (workdir / "lits.js").write_text(NODE_SCRIPT)
    (workdir / "lits.json").write_text(json.dumps(texts))
    p = subprocess.run(["node", str(workdir / "lits.js"), str(workdir / "lits.json"), str(workdir / "lits.out.json")], stdout=subprocess.PIPE, stderr=subprocess.PIPE, text=True, timeout=600)
    if p.returncode != 0:
        raise RuntimeError("node failed: " + p.stderr[-2000:])
    vals = json.loads((workdir / "lits.out.json").read_text())
    out: Dict[str, Verdict] = {}
    for t, v in zip(texts, vals):
        if v is False:
            out[t] = ("no", None)
        elif v is None:
            out[t] = ("na", None)
        else:
            out[t] = ("yes", v)
    return out


def real_values(kind: str, texts: Sequence[str], workdir: pathlib.Path) -> Dict[str, Verdict]:
    if kind.startswith("py_"):
        return real_python(texts)
    if kind in ("cpp_wstr", "cpp_str", "cpp_wchar"):
        return real_cpp(texts, workdir / "cpp")
    if kind == "java_str":
        return real_java(texts, workdir / "java")
    if kind in ("ts_str", "ts_tmpl"):
        return real_node(texts, workdir / "node")
    return {t: ("na", None) for t in texts}
