"""M phase of C13 / C14: design-level model checking of specs/XsdDesign.tla (no repo code involved)."""
from harness import core


def model_check(ck: core.Check) -> None:
    pass
