"""M phase of C13 / C14: design-level model checking (no repo code involved).

C13  MC_XsdTranslate(.cfg | _thorough.cfg): the pattern translation design at the level of the pattern text - the intended
     rendering (parse first, write characters verbatim with XSD escaping) is well-formed XSD and, parsed back by the spec's
     XSD pattern parser, accepts exactly the strings the tree accepts, for every tree of the family.
     MC_XsdTranslate_textual.cfg (thorough): negative control - un-escaping \\xHH in the text before parsing is NOT faithful;
     TLC must exhibit a counterexample.
C14  MC_XsdDesign(.cfg | _thorough.cfg): the content-model automaton of the generated schema design, explored for every
     scenario x value x single mutation of the bounded family, satisfies the design-level forms of the clauses
     (valid accepted, MustReject rejected, every mutation rejected, deterministic progress).  Thorough C13 runs it too.
     MC_XsdDesign_exclusion.cfg (thorough): negative control - "a descendant's tightening is enforced" must be VIOLATED,
     i.e. the exclusion in C14's sentence is real in this design."""
from harness import core


def _negative_control(ck: core.Check, module: str, cfg: str, invariant: str, what: str) -> None:
    res = ck.tlc(module, cfg, what="M: negative control (%s)" % what, workers=4, timeout=900)
    if not any(v["invariant"] == invariant for v in res.violations):
        raise core.MachineryFailure("negative control %s/%s did not fire" % (module, cfg))


def model_check(ck: core.Check, pid: str) -> None:
    suffix = "" if ck.quick else "_thorough"
    if pid == "C13":
        ck.model_check("MC_XsdTranslate", "MC_XsdTranslate%s.cfg" % suffix, "intended pattern translation is well-formed XSD and language-preserving on the tree family", workers=8, timeout=1500)
        if not ck.quick:
            _negative_control(ck, "MC_XsdTranslate", "MC_XsdTranslate_textual.cfg", "TextualIsFaithful", "textual \\xHH un-escaping before parsing changes the language")
    if pid == "C14" or not ck.quick:
        ck.model_check("MC_XsdDesign", "MC_XsdDesign%s.cfg" % suffix, "schema design (sequence content model + facets of the own class) satisfies the clauses", workers=8, timeout=1500)
    if pid == "C14" and not ck.quick:
        _negative_control(ck, "MC_XsdDesign", "MC_XsdDesign_exclusion.cfg", "Design_ExclusionIsReal", "descendant tightening is not enforced by the design")
