"""M phase of C13 / C14: design-level model checking of specs/XsdDesign.tla (no repo code involved).

MC_XsdDesign(.cfg | _thorough.cfg): the content-model automaton of the generated schema design, explored for every
scenario x value x single mutation of the bounded family, satisfies the design-level forms of the clauses.
MC_XsdDesign_exclusion.cfg (thorough tier): negative control - the invariant "a descendant's tightening is enforced" must be
VIOLATED, i.e. the exclusion in C14's sentence is real in this design (and TLC is able to see a wrong verdict)."""
from harness import core


def model_check(ck: core.Check) -> None:
    suffix = "" if ck.quick else "_thorough"
    ck.model_check("MC_XsdDesign", "MC_XsdDesign%s.cfg" % suffix, "schema design (sequence content model + facets of the own class) satisfies the clauses", workers=8, timeout=1500)
    if not ck.quick:
        res = ck.tlc("MC_XsdDesign", "MC_XsdDesign_exclusion.cfg", what="M: negative control (descendant tightening is not enforced by the design)", workers=4, timeout=600)
        if not any(v["invariant"] == "Design_ExclusionIsReal" for v in res.violations):
            raise core.MachineryFailure("negative control of XsdDesign did not fire")
