"""Shared helpers of the regex group (C16, C17, C18): projection of retree objects into the vocabulary of
specs/Regex.tla, string enumeration, exception observation, parallel map over cases.

Everything here runs inside the R-phase runners (fresh interpreter bound to the repo working tree)."""
from __future__ import annotations

import itertools
import json
import multiprocessing
import os
import sys
import traceback
import warnings
from typing import Any, Callable, Dict, Iterable, List, Optional, Sequence, Tuple

UNBOUNDED = -1
NOQ = {"has": False, "min": 1, "max": 1, "ng": False}
EMPTY_TREE = {"k": "alt", "cats": []}


def cps(s: str) -> List[int]:
    return [ord(c) for c in s]


def from_cps(xs: Iterable[int]) -> str:
    return "".join(chr(x) for x in xs)


# ---------------------------------------------------------------------------------------------
# projection retree -> spec vocabulary (total on what retree.parse / fix_for_utf16 produce)
# ---------------------------------------------------------------------------------------------


class Unprojectable(Exception):
    """The object is not in the vocabulary (e.g. a FormattedValue); the harness never feeds such inputs."""


def _char(ch: Any) -> Dict[str, Any]:
    return {"k": "char", "c": ord(ch.character), "enc": bool(ch.explicitly_encoded)}


def project_value(value: Any) -> Dict[str, Any]:
    from aas_core_codegen.parse import retree

    if isinstance(value, retree.Char):
        return _char(value)
    if isinstance(value, retree.Symbol):
        return {"k": {retree.SymbolKind.START: "start", retree.SymbolKind.END: "end", retree.SymbolKind.DOT: "dot"}[value.kind]}
    if isinstance(value, retree.CharSet):
        ranges = []
        for r in value.ranges:
            if r.end is None:
                ranges.append({"lo": _char(r.start), "hi": _char(r.start), "single": True})
            else:
                ranges.append({"lo": _char(r.start), "hi": _char(r.end), "single": False})
        return {"k": "set", "neg": bool(value.complementing), "ranges": ranges}
    if isinstance(value, retree.Group):
        return {"k": "group", "alt": project_union(value.union)}
    raise Unprojectable(type(value).__name__)


def project_union(union: Any) -> Dict[str, Any]:
    cats = []
    for cat in union.uniates:
        terms = []
        for term in cat.concatenants:
            q = term.quantifier
            if q is None:
                pq = dict(NOQ)
            else:
                pq = {"has": True, "min": int(q.minimum), "max": UNBOUNDED if q.maximum is None else int(q.maximum), "ng": bool(q.non_greedy)}
            terms.append({"k": "term", "v": project_value(term.value), "q": pq})
        cats.append({"k": "cat", "terms": terms})
    return {"k": "alt", "cats": cats}


def project(regex: Any) -> Dict[str, Any]:
    return project_union(regex.union)


# ---------------------------------------------------------------------------------------------
# observation of exceptions: type + innermost frame inside the repository
# ---------------------------------------------------------------------------------------------


def observe_exception(ex: BaseException) -> Dict[str, str]:
    repo = os.path.realpath(os.environ.get("VERIF_REPO", "/repo"))
    where = ""
    for fs in traceback.extract_tb(ex.__traceback__):
        fn = os.path.realpath(fs.filename)
        if fn.startswith(repo + os.sep):
            where = "%s:%s" % (os.path.basename(fn), fs.name)
    return {"type": type(ex).__name__, "where": where, "msg": str(ex)[:160].replace("\n", " ")}


NO_EXC = {"type": "", "where": "", "msg": ""}

# ---------------------------------------------------------------------------------------------
# strings
# ---------------------------------------------------------------------------------------------


def strings_up_to(alpha: Sequence[int], maxlen: int) -> List[Tuple[int, ...]]:
    out: List[Tuple[int, ...]] = []
    for n in range(0, maxlen + 1):
        out.extend(itertools.product(alpha, repeat=n))
    return out


def re_compile(text: str):
    """Python's reading of a pattern text: compiled pattern or None."""
    import re

    with warnings.catch_warnings():
        warnings.simplefilter("ignore")
        try:
            return re.compile(text)
        except (re.error, OverflowError, RecursionError):
            return None


def re_language(compiled: Any, strings: Sequence[Tuple[int, ...]], search_maxlen: int) -> Tuple[List[int], List[int]]:
    """(indices of the fully matched strings, indices of the strings of length <= search_maxlen in which the
    pattern is found); an index is the position in strings_up_to(alpha, maxlen)."""
    full, found = [], []
    for n, t in enumerate(strings):
        s = "".join(map(chr, t))
        if compiled.fullmatch(s) is not None:
            full.append(n)
        if len(t) <= search_maxlen and compiled.search(s) is not None:
            found.append(n)
    return full, found


# ---------------------------------------------------------------------------------------------
# parallel map (the parser is slow under icontract: ~3 ms per pattern)
# ---------------------------------------------------------------------------------------------


def pmap(fn: Callable[[Any], Any], items: Sequence[Any], procs: Optional[int] = None, force: bool = False) -> List[Any]:
    procs = procs or int(os.environ.get("VERIF_PROCS", "8"))
    if (len(items) < 200 and not force) or procs <= 1:
        return [fn(x) for x in items]
    ctx = multiprocessing.get_context("fork")
    with ctx.Pool(procs) as pool:
        return pool.map(fn, items, chunksize=max(1, len(items) // (procs * 8)))


def load(path: str) -> Any:
    with open(path) as f:
        return json.load(f)


def dump(path: str, obj: Any) -> None:
    with open(path, "w") as f:
        json.dump(obj, f)
