"""R phase of C13 / C14: run every scenario of the input file through the real generators and the XSD validator."""
import json
import pathlib
import sys

from harness import core


def main() -> None:
    in_path, out_path = sys.argv[1], sys.argv[2]
    core.assert_repo_bound()
    from harness import xsdlib

    job = json.load(open(in_path))
    workdir = pathlib.Path(out_path).parent / "r"
    obs = xsdlib.run_all(job["scenarios"], workdir, job["opts"], procs=int(job.get("procs", 8)))
    json.dump(obs, open(out_path, "w"))


if __name__ == "__main__":
    main()
