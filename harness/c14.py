"""C14 - XSD enforces the constraints a class declares itself.  M: XsdDesign; G: XsdGen; R: run_c14; V: XsdTrace14."""
from harness import xsd_check


def main() -> int:
    return xsd_check.run_check("C14", "model_checking", model_check=xsd_check_design)


def xsd_check_design(ck) -> None:
    from harness import xsd_design

    xsd_design.model_check(ck, "C14")
