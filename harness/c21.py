"""C21 — distinct meta-model names never collide in generated code.

M: NamingFacts.tla — TLC decides, over all identifiers of <= MaxParts parts, where the case conversions of naming.py
   (and the python / Go variants) are non-injective and how the induced equivalences are ordered.
S: the TLA+ conversions are cross-checked against the real functions of aas_core_codegen.naming on the universe
   (a disagreement is recorded in the evidence: the generator may then aim at fewer colliding pairs; the verdicts
   themselves only use the names the code under test produces).
G: NamingGen.tla — pairs of distinct identifiers stratified by collision signature x scenario kinds (two classes,
   class + enumeration, two properties, property + method, two literals, two constants, two functions, ...).
R: harness.run_c21 — names from the targets' own naming functions, outcome of main.execute, declarations parsed from
   the output (Python ast, JSON Schema, XSD), files written twice.
V: NamingTrace.tla — collision => reported; declared names distinct; no file written twice.
"""
import json
import os
import pathlib
import re

from harness import core


def conversions_self_check(ck: core.Check) -> int:
    """S: TLA+ Conv(f, id) = the real naming function, for every identifier of the universe (quick: <= 2 parts)."""
    out_p = ck.work / "conv.json"
    ck.tlc("NamingConv", "NamingConv.cfg", what="S: images of the universe under the TLA+ conversions", env={"VERIF_OUT": str(out_p)}, count=False, timeout=600)
    table = core.read_json(out_p)
    res_p = ck.work / "conv_check.json"
    ck.impl("harness.run_c21_conv", [str(out_p), str(res_p)], timeout=600)
    res = core.read_json(res_p)
    if res["mismatches"]:
        # The verdicts of V use the names the code itself produces, so they stay sound when the conversions of the
        # tree under test differ from the model; only the *aim* of the generator may be off (fewer colliding pairs).
        # That is recorded, and a run that ends up with no colliding pair at all is vacuous (exit 2) anyway.
        ck.notes.append("S: %d of %d images differ between Naming.tla and the naming functions of the tree under test, e.g. %s" % (len(res["mismatches"]), res["checked"], res["mismatches"][:3]))
    return res["checked"]


def main() -> int:
    ck = core.Check("C21", "exploration")
    replay = os.environ.get("VERIF_REPLAY")
    suffix = "" if ck.quick else "_thorough"
    nproc = int(os.environ.get("VERIF_NPROC", "8"))

    # M
    m = ck.model_check("NamingFacts", "NamingFacts%s.cfg" % suffix, "where the case conversions are non-injective", workers=1, timeout=1200)
    facts = [l for l in m.printed]
    # S
    n_conv = conversions_self_check(ck)

    # G
    cases_p = ck.work / "cases.json"
    if replay:
        rp = json.loads(pathlib.Path(replay).read_text())
        cases = [rp["case"]]
    else:
        ck.tlc("NamingGen", "NamingGen%s.cfg" % suffix, what="G: identifier pairs by collision signature x scenario kinds", env={"VERIF_OUT": str(cases_p)}, count=False, timeout=1200)
        cases = core.read_json(cases_p)
    core.write_json(cases_p, cases)

    # R
    obs_p = ck.work / "obs.json"
    ck.impl("harness.run_c21", [str(cases_p), str(obs_p), str(ck.work / "scratch"), str(nproc)], timeout=3000)
    out = core.read_json(obs_p)
    obs, texts = out["obs"], out["texts"]
    bad = [o for o in obs if o.get("kind") == "harness_error"]
    if bad:
        raise core.MachineryFailure("runner failed on case %d: %s" % (bad[0]["case"], bad[0]["detail"]))
    if replay and rp.get("key", {}).get("target"):
        obs = [o for o in obs if o["target"] == rp["key"]["target"]]

    # V
    fields = ("target", "kind", "same_scope", "names_a", "names_b", "front", "outcome", "has_declared", "declared", "dup_paths", "names_found", "module_dups")
    pp = ck.work / "obs_v.json"
    core.write_json(pp, [{k: o[k] for k in fields} for o in obs])
    res = ck.tlc("NamingTrace", what="V: collisions are reported, declared names are distinct", env={"VERIF_OBS": str(pp)}, cont=True, workers=1, timeout=900)
    n_coll = n_decl = 0
    for line in res.printed:
        mm_ = re.search(r"obs\", (\d+), (\d+), (\d+)", line)
        if mm_:
            n_coll, n_decl = int(mm_.group(2)), int(mm_.group(3))
    for v in res.violations:
        mi = re.search(r"\bi = (\d+)", v["state"])
        if not mi:
            raise core.MachineryFailure("cannot read the observation index from TLC's output: %r" % v["state"][:200])
        o = obs[int(mi.group(1)) - 1]
        if v["invariant"] == "Chk_BothDeclared":
            raise core.MachineryFailure(
                "binding self-check failed: %s/%s generated fine for %r / %r, names %s %s, but the parser found only %s"
                % (o["target"], o["kind"], o["a"], o["b"], o["names_a"], o["names_b"], o["declared"][:20])
            )
        key = {"target": o["target"], "kind": o["kind"], "clause": v["invariant"]}
        if v["invariant"] == "Inv_CollisionReported":
            key["outcome"] = o["outcome"]
        case = cases[o["case"]]
        detail = "%s: %s with %r / %r -> names %s / %s, outcome %s %s" % (o["target"], o["kind"], o["a"], o["b"], o["names_a"], o["names_b"], o["outcome"], (o["detail"] or "")[:120])
        if v["invariant"] == "Inv_DeclaredDistinct":
            detail += "; declared %s" % (o["declared"][:12],)
        if v["invariant"] == "Inv_NoDuplicateModuleNames":
            detail += "; bound twice: %s" % (o["module_dups"][:8],)
        ck.violation(key, v["invariant"], case, {k: o[k] for k in ("target", "kind", "a", "b", "names_a", "names_b", "outcome", "declared", "dup_paths", "detail", "exc_site")}, detail)

    accepted = [o for o in obs if o["front"] == "accepted"]
    if not accepted or n_coll == 0:
        raise core.MachineryFailure("vacuous run: %d accepted observations, %d with colliding names" % (len(accepted), n_coll))
    ck.cov["evaluations"] = len(obs)
    ck.cov["traces_validated_against_impl"] = len(obs)
    ck.cov["distinct_nontrivial"] = n_coll
    ck.cov["rule"] = (
        "one evaluation = one (identifier pair in one scope, target) observation; non-trivial = the model was accepted, the two entities share a scope "
        "and the target's own naming functions give them a common name (that the generator emits, when it generated); "
        "%d cases x 8 targets, %d accepted observations, %d with parsed declarations; S: %d (conversion, identifier) images cross-checked with naming.py"
        % (len(cases), len(accepted), n_decl, n_conv)
    )
    ck.cov["exhaustive"] = False
    ck.cov["facts"] = facts[:12]
    ck.cov["samples"] = [{k: o[k] for k in ("target", "kind", "a", "b", "names_a", "names_b", "outcome")} for o in (obs[0], obs[len(obs) // 2], obs[-1])]
    ck.assumptions += [
        "TLC, SANY, CommunityModules Json; Python ast, json, xml.etree as parsers of the generated output",
        "which naming function names which entity in which shared scope is a table in harness/run_c21.py (SDK_TABLE); it is self-checked: "
        "on pairs that do not collide both names must be found among the parsed declarations (python, jsonschema, xsd), "
        "and a colliding name only counts when it occurs as a word in the files the run wrote",
    ]
    return ck.finish()
