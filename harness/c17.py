"""C17 — UTF-16 rewriting preserves the language.

G: Utf16Gen (anchored trees around the edges of the UTF-16 encoding, with per-case string alphabets) + the C16 tree
   families that mention astral characters + the repository's pattern corpus.
R: harness.run_c17 (retree.fix_for_utf16_regex_in_place, jsonschema.main.fix_pattern_for_utf16, Python re for S).
V: Utf16Trace: FullMatch(T, s) <=> FullMatch(T16, Utf16(s)) decided by TLC with T16 imported as data.
"""
import os
import pathlib

from harness import core
from harness import regex_orch as ro
from harness import c16


def corpus_alphabet(text: str):
    pts = []
    for ch in text:
        c = ord(ch)
        if (ch.isalnum() or c >= 0x10000) and not (0xD800 <= c <= 0xDFFF) and c not in pts and c != 122:
            pts.append(c)
        if len(pts) == 3:
            break
    return sorted(set(pts + [122, 0x1F608, 0x10000]))


def main() -> int:
    ck = core.Check("C17", "model_checking")
    suffix = "" if ck.quick else "_thorough"
    replay = os.environ.get("VERIF_REPLAY")
    if replay:
        cases = [core.read_json(pathlib.Path(replay))["case"]]
        n_gen = n_corpus = 0
    else:
        gen = ro.generate(ck, "Utf16Gen", "Utf16Gen%s.cfg" % suffix, "G: anchored trees at the edges of the UTF-16 encoding, with string alphabets", "u16")
        cases = [{"src": "tree:" + c["fam"], "text": c["text"], "alpha": c["alpha"], "maxlen": c["maxlen"]} for c in gen]
        n_gen = len(cases)
        for t in c16.corpus_texts():
            cases.append({"src": "corpus", "text": core.cps(t), "alpha": corpus_alphabet(t), "maxlen": 2})
        n_corpus = len(cases) - n_gen
    # distinct inputs only: one case per pattern text (the first one wins: generated trees before tokens / corpus)
    seen_texts = set()
    distinct = []
    for c in cases:
        t = tuple(c["text"])
        if t not in seen_texts:
            seen_texts.add(t)
            distinct.append(c)
    n_dropped = len(cases) - len(distinct)
    cases = distinct
    cases_p = ck.work / "cases.json"
    core.write_json(cases_p, cases)
    obs_p = ck.work / "obs.json"
    ck.impl("harness.run_c17", [str(cases_p), str(obs_p)], timeout=1500)
    obs = core.read_json(obs_p)
    if len(obs) != len(cases):
        raise core.MachineryFailure("runner returned %d observations for %d cases" % (len(obs), len(cases)))
    violations, counters = ro.validate(ck, "Utf16Trace", None, obs, "V: rewritten tree matches Utf16(s) iff the original matches s")
    oracle = [v for v in violations if v["invariant"].startswith("S_")]
    if oracle:
        o = obs[oracle[0]["n"]]
        raise core.MachineryFailure("oracle self-check %s failed (Regex.tla vs Python re) on %r: %d case(s)" % (oracle[0]["invariant"], core.from_cps(o["text"]), len(oracle)))
    by_key = {}
    for v in violations:
        o = obs[v["n"]]
        text = core.from_cps(o["text"])
        key = {"clause": v["invariant"], "culprit": v["culprit"]}
        observation = {"fix": o["fix"], "fix_exc": o["fix_exc"], "js": o["js"], "js_exc": o["js_exc"], "rewritten_text": core.from_cps(o["js_text"]), "rewritten_tree": o["fixed"]}
        ck.violation(key, v["invariant"], cases[v["n"]], observation, detail="pattern=%r rewritten=%r fix=%s %s" % (text, observation["rewritten_text"], o["fix"], o["fix_exc"]["msg"][:100]))
        k = "%s / %s" % (v["invariant"], v["culprit"])
        by_key.setdefault(k, [0, text])
        by_key[k][0] += 1
    ck.notes += ["violating cases by key: %s: %d (e.g. %r)" % (k, n, ex) for k, (n, ex) in sorted(by_key.items())]
    n_acc = sum(c[1] for c in counters)
    n_rew = sum(c[2] for c in counters)
    n_raised = sum(c[3] for c in counters)
    n_nontrivial = sum(c[4] for c in counters)
    ck.cov["evaluations"] = len(obs)
    ck.cov["traces_validated_against_impl"] = len(obs)
    ck.cov["distinct_nontrivial"] = n_nontrivial
    ck.cov["rule"] = (
        "G: %d anchored trees of Utf16Gen.tla (families U1..U4) + %d corpus patterns; %d accepted by retree.parse, %d changed by the rewriting, %d raised; "
        "non-trivial = accepted pattern whose tree the rewriting changed, judged on strings that include astral characters "
        "(all strings of scalar values of length <= maxlen over the case alphabet)" % (n_gen, n_corpus, n_acc, n_rew, n_raised)
    )
    ck.cov["rule"] += "; %d generated cases whose pattern text was already present were dropped before running (distinct texts only)" % n_dropped
    ck.cov["exhaustive"] = True
    pick = [o for o in obs if o["fix"] == "ok" and o["fixed"] != o["parsed"]]
    pick = [pick[k] for k in (0, len(pick) // 2, len(pick) - 1)] if len(pick) >= 3 else obs[:3]
    ck.cov["samples"] = [{"src": o["src"], "pattern": core.from_cps(o["text"]), "rewritten": core.from_cps(o["js_text"]), "alphabet": ["U+%04X" % c for c in o["alpha"]], "maxlen": o["maxlen"]} for o in pick]
    ck.assumptions += [
        "TLC, SANY, CommunityModules Json",
        "UTF-16 engines match per code unit ('.', complemented sets and ranges see one surrogate at a time), without line-break subtleties (strings contain no line breaks)",
        "Regex.tla validated against Python re on the original texts (scalar strings) and on the rewritten texts (code-unit strings) in the same run (S_*)",
        "domain: strings of scalar values; patterns that name surrogate code points themselves are outside the property",
    ]
    if n_nontrivial == 0 and not replay:
        raise core.MachineryFailure("vacuous run: the rewriting changed no accepted pattern")
    return ck.finish()
