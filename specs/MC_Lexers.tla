----------------------------- MODULE MC_Lexers ------------------------------
(* M for C19 / C20: the six lexer machines explored as a transition system over a small   *)
(* alphabet of units (every unit that some machine treats specially, plus representatives  *)
(* of the inert ones). Values are not accumulated (keep = FALSE), hashes are hidden by the  *)
(* VIEW, nesting of template / interpolation holes is bounded by the constraint.           *)
EXTENDS Lexers, TLC
CONSTANTS MCUnits, MaxLevel, MaxPfx
\* every unit some machine treats specially, plus representatives of the inert ones
UnitsWide == {0, 10, 13, 32, 34, 39, 92, 96, 36, 123, 125, 47, 42, 35, 40, 41, 64, 91, 93,
              48, 56, 102, 120, 117, 85, 82, 76, 98, 78, 8232, 55357}
\* the units of literals and escapes only (explored without a depth bound)
UnitsDeep == {10, 34, 39, 92, 96, 36, 123, 125, 48, 56, 102, 120, 117, 85}
VARIABLES lang, st
vars == <<lang, st>>
Init == lang \in Langs /\ st = S0(FALSE)
Next == \E c \in MCUnits : st' = Step(lang, st, c) /\ UNCHANGED lang
Spec == Init /\ [][Next]_vars
\* the hashes never influence a transition; of tk only "is it a comment token" does, of sig only the
\* regular-expression rule: the view keeps exactly what can influence the future
View == <<lang, [st EXCEPT !.h1 = 0, !.h2 = 0, !.tk = IF @ = TokComment THEN 1 ELSE 0,
                           !.sig = IF JsRegexMayFollow(@) THEN 1 ELSE 0]>>
Bound == Len(st.stk) <= 1 /\ st.bd <= 1 /\ Len(st.dl) <= 2 /\ Len(st.pfx) <= MaxPfx /\ TLCGet("level") <= MaxLevel

TypeOK ==
  /\ st.m \in ModesOf(lang)
  /\ st.n \in 0..8 /\ st.v \in 0..268435455 /\ st.tq \in 0..16 /\ st.bd >= 0
  /\ st.tl \in 0..2 /\ st.ntok \in 0..1 /\ Len(st.pfx) <= 4
  /\ st.acc = <<>> /\ st.pre = <<>>                    \* nothing accumulates while streaming
  /\ st.un \in 0..3 /\ st.uv \in 0..65535
  /\ st.h1 \in 0..(M1 - 1) /\ st.h2 \in 0..(M2 - 1)
\* an escape is only ever pending inside a literal; outside literals no literal attributes linger
EscapeInsideLiteral == st.m \in {"esc", "escn", "escz"} => st.q # 0
CodeIsClean == st.m \in CodeModes => st.q = 0 /\ st.sk = ""
HolesOnlyWhereTheyExist == st.stk # <<>> => lang \in {"ts", "cs"}
JavaStageOneOnlyJava == st.u1 # "" => lang = "java"
\* end of input is always decided: lexically complete or an error
FinishTotal == Finish(lang, st).m \in {"code", "err"}
\* the error mode is absorbing
ErrSticky == [][st.m = "err" => st' = st]_vars
\* what is inside a comment or literal never reaches the lexical skeleton
\* (modes with one unit of look-ahead may close the literal and re-enter the same mode in one step)
LookAhead == {"qo", "q1", "q2", "vq", "escz", "rawe", "tdl"}
SkeletonIgnoresEnvelopeContent ==
  [][InEnvelope(st) /\ st.m \notin LookAhead /\ st'.m = st.m /\ st'.stk = st.stk => st'.h1 = st.h1 /\ st'.h2 = st.h2]_vars
\* code units always reach it (white space excepted): a step from code to code over a non-white unit changes it
SkeletonSeesCode == [][st.m = "code" /\ st'.m = "code" /\ st'.sig # st.sig => (st'.h1 # st.h1 \/ st'.h2 # st.h2)]_vars
=============================================================================
