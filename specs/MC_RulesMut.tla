---- MODULE MC_RulesMut ----
(* M for C06: the mutation machine.  From a well-formed template, each step applies one enabled     *)
(* mutation Break_<rule> (first step: every target; later steps: one representative target per      *)
(* variant of the other rules); the design-level claims are that templates are well-formed and that        *)
(* breaking rule k makes k a member of Violated (whatever was broken before).                        *)
EXTENDS RulesMut
CONSTANTS MaxDepth
VARIABLES mm, last, depth
vars == <<mm, last, depth>>
Init == mm \in Templates /\ last = "" /\ depth = 0
Break(b) == mm' = Apply(b, mm) /\ last' = b.rule /\ depth' = depth + 1
Next == depth < MaxDepth /\ \E b \in BreaksAfter(last, mm) : Break(b)
Spec == Init /\ [][Next]_vars
TemplatesWellFormed == depth = 0 => WellFormed(mm)
BreakViolatesItsRule == depth > 0 => last \in Violated(mm)
\* every rule has at least one mutation on some template (a constant-level fact, checked once)
ASSUME EveryRuleCanBeBroken == \A r \in RuleNames : \E tm \in Templates : \E b \in Breaks(tm) : b.rule = r
====
