--------------------------- MODULE ModelCacheSim ---------------------------
(* G phase for C24/C23: behaviours of ModelCache written out as schedules for the conformance  *)
(* harness.  A history variable records (action class, run, arguments); when a behaviour is    *)
(* quiescent its schedule is printed as JSON (one line per behaviour under `tlc -simulate`).    *)
EXTENDS ModelCache, Json, TLCExt

CONSTANT CrashOdds   \* a crash is taken with probability 1/CrashOdds when enabled (simulation bias only)
VARIABLE hist
simvars == <<vars, hist>>

SimInit == Init /\ hist = <<>> /\ text = [r \in Runs |-> CHOOSE t \in Texts : TRUE]

SimNext ==
    \E r \in Runs :
        \/ Step(r) /\ hist' = Append(hist, [a |-> "step", run |-> ToString(r), text |-> "", flag |-> FALSE])
        \/ Crash(r) /\ RandomElement(1..CrashOdds) = 1 /\ hist' = Append(hist, [a |-> "crash", run |-> ToString(r), text |-> "", flag |-> FALSE])
        \/ \E t \in Texts, f \in BOOLEAN :
              StartRun(r, t, f) /\ (f \/ RandomElement(1..4) = 1) /\ hist' = Append(hist, [a |-> "start", run |-> ToString(r), text |-> ToString(t), flag |-> f])

Quiescent == starts = MaxStarts /\ \A r \in Runs : pc[r] \in {"idle", "done", "crashed"}

\* evaluated as a state constraint: prints the schedule of every finished behaviour, never prunes
Emit == Quiescent => PrintT(<<"@@SCHED@@", ToJson(hist)>>)
=============================================================================
