INIT Init
NEXT Next
INVARIANT Inv_SpecMatchesPython
INVARIANT Inv_Defined
INVARIANT Inv_RaisesOnlyIfInvariantRaises
INVARIANT Inv_ErrorsExactlyFalseInvariants
