---------------------------- MODULE ParseObsTrace ----------------------------
(* V phase of C20, clause "every generated source file parses in its language, every        *)
(* generated JSON / XML file is well-formed": the verdicts of the real parsers that exist    *)
(* in the sandbox (CPython ast, json, expat, javac's parser, g++ -fsyntax-only), one          *)
(* observation per generated file: Parses[i] = [parser, ok].                                 *)
EXTENDS Integers, Sequences, FiniteSets, Json, IOUtils, TLC
Parses == JsonDeserialize(IOEnv.VERIF_PARSES)
VARIABLE i
Init == i \in 1..Len(Parses)
Next == UNCHANGED i
Inv_RealParserAccepts == Parses[i].ok = TRUE
ASSUME PrintT(<<"@@PRINT@@ parses", Len(Parses), Cardinality({n \in 1..Len(Parses) : Parses[n].ok = TRUE})>>)
=============================================================================
