---- MODULE CacheHistGen ----
(* G phase for C23: all histories of at most MaxLen operations over                                    *)
(*   run(text, flag)   one generator run on one of the model texts with or without --cache_model        *)
(*   evict(text)       the OS temp cleaner removes the published entry of that text                    *)
(* (an edit of the model between runs is the switch from one text to the other).                       *)
EXTENDS Naturals, Sequences, FiniteSets, SequencesExt, Json, IOUtils, TLC
CONSTANTS MaxLen, NTexts
\* t1: the model; t2: an edited model; t3..: near-identical variants of t1 (leading blank line, trailing blank
\* lines, a trailing space) which a careless cache-key derivation could conflate with t1
TextIds == {"t" \o ToString(k) : k \in 1..NTexts}
EvictIds == {"t1", "t3"} \cap TextIds
Ops == {[a |-> "run", text |-> t, flag |-> f] : t \in TextIds, f \in BOOLEAN}
       \cup {[a |-> "evict", text |-> t, flag |-> FALSE] : t \in EvictIds}
Hists == UNION {[1..k -> Ops] : k \in 1..MaxLen}
\* an eviction is only interesting after some cache-enabled run; drop histories that start with one or end with one
Useful(h) == h[1].a = "run" /\ h[Len(h)].a = "run"
Cases == {h \in Hists : Useful(h)}
ASSUME JsonSerialize(IOEnv.VERIF_OUT, SetToSeq(Cases))
ASSUME PrintT(<<"@@PRINT@@ histories", Cardinality(Cases)>>)
VARIABLE dummy
Init == dummy = 0
Next == UNCHANGED dummy
====
