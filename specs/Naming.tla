---- MODULE Naming ----
(***************************************************************************************************)
(* C21 -- identifiers of the meta-model and the case conversions that turn them into generated     *)
(* names.                                                                                          *)
(*                                                                                                 *)
(* A meta-model identifier is a non-empty sequence of parts joined by "_"; a part is a sequence of *)
(* code points.  The part universe covers the case classes a, A, ab, Ab, AB, a1, URL, Url (+ b, B). *)
(* The conversions are the ones of aas_core_codegen/naming.py (lower_snake_case, upper_snake_case, *)
(* lower_camel_case, capitalized_camel_case) and the three variants the targets add on top          *)
(* (python/typescript class names keep all-upper parts, Go keeps parts that start with a capital). *)
(*                                                                                                 *)
(* M (NamingFacts.tla): over all identifiers of <= MaxParts parts TLC decides where each            *)
(*   conversion is non-injective and how the induced equivalences are ordered -- this is what the  *)
(*   case generator aims at.                                                                        *)
(* G (NamingGen.tla): pairs of distinct identifiers, stratified by their collision signature        *)
(*   (the set of conversions under which they collide), placed in one scope as two entities.        *)
(* V (NamingTrace.tla): SameScope /\ a # b /\ GenName_T(a) = GenName_T(b) => outcome_T = reported;  *)
(*   when generation succeeded the declared names of the scope are pairwise distinct and contain    *)
(*   both entities; no output file is written twice.                                                *)
(***************************************************************************************************)
EXTENDS Naturals, Sequences, FiniteSets

(* parts ----------------------------------------------------------------------------------------- *)
P_a == <<97>>  P_A == <<65>>  P_ab == <<97, 98>>  P_Ab == <<65, 98>>  P_AB == <<65, 66>>
P_a1 == <<97, 49>>  P_URL == <<85, 82, 76>>  P_Url == <<85, 114, 108>>
\* b and B make it possible to lose a part boundary (A_B versus AB, a_b versus ab)
P_b == <<98>>  P_B == <<66>>
Parts == {P_a, P_A, P_ab, P_Ab, P_AB, P_a1, P_URL, P_Url, P_b, P_B}

Ids(n) == UNION {[1..k -> Parts] : k \in 1..n}

(* characters ------------------------------------------------------------------------------------ *)
IsUp(c) == c \in 65..90
IsLo(c) == c \in 97..122
Up(c) == IF IsLo(c) THEN c - 32 ELSE c
Lo(c) == IF IsUp(c) THEN c + 32 ELSE c

UpperP(p) == [i \in DOMAIN p |-> Up(p[i])]
LowerP(p) == [i \in DOMAIN p |-> Lo(p[i])]
\* Python's str.capitalize: first character upper, the rest lower
CapP(p) == [i \in DOMAIN p |-> IF i = 1 THEN Up(p[i]) ELSE Lo(p[i])]
AllUpperP(p) == p = UpperP(p)
StartsUpperP(p) == IsUp(p[1])

RECURSIVE Concat(_)
Concat(ps) == IF Len(ps) = 0 THEN <<>> ELSE ps[1] \o Concat(Tail(ps))
RECURSIVE JoinU(_)
JoinU(ps) == IF Len(ps) = 1 THEN ps[1] ELSE ps[1] \o <<95>> \o JoinU(Tail(ps))

\* the text of the identifier in the meta-model
Text(id) == JoinU(id)

(* conversions ----------------------------------------------------------------------------------- *)
LowerSnake(id) == JoinU([i \in DOMAIN id |-> LowerP(id[i])])
UpperSnake(id) == JoinU([i \in DOMAIN id |-> UpperP(id[i])])
LowerCamel(id) == Concat([i \in DOMAIN id |-> IF i = 1 THEN LowerP(id[i]) ELSE CapP(id[i])])
CapCamel(id) == Concat([i \in DOMAIN id |-> CapP(id[i])])
\* python.naming.class_name / enum_name (an all-upper part is an abbreviation and is kept)
KeepUpperCamel(id) == Concat([i \in DOMAIN id |-> IF AllUpperP(id[i]) THEN id[i] ELSE CapP(id[i])])
\* golang.naming.capital_camel_case (a part that starts with a capital is kept as it is)
GoCapCamel(id) == Concat([i \in DOMAIN id |-> IF StartsUpperP(id[i]) THEN id[i] ELSE CapP(id[i])])
GoLowerCamel(id) == Concat([i \in DOMAIN id |-> IF i = 1 THEN LowerP(id[i]) ELSE IF StartsUpperP(id[i]) THEN id[i] ELSE CapP(id[i])])

Fns == {"lower_snake", "upper_snake", "lower_camel", "cap_camel", "keep_upper_camel", "go_cap_camel", "go_lower_camel"}
Conv(f, id) == CASE f = "lower_snake" -> LowerSnake(id)
                 [] f = "upper_snake" -> UpperSnake(id)
                 [] f = "lower_camel" -> LowerCamel(id)
                 [] f = "cap_camel" -> CapCamel(id)
                 [] f = "keep_upper_camel" -> KeepUpperCamel(id)
                 [] f = "go_cap_camel" -> GoCapCamel(id)
                 [] f = "go_lower_camel" -> GoLowerCamel(id)

Collide(f, a, b) == a # b /\ Conv(f, a) = Conv(f, b)
\* the collision signature of a pair: under which conversions do the two identifiers meet?
Signature(a, b) == {f \in Fns : Conv(f, a) = Conv(f, b)}

\* equal up to the case of the letters, part by part
FoldEq(a, b) == Len(a) = Len(b) /\ \A i \in DOMAIN a : LowerP(a[i]) = LowerP(b[i])
\* equal up to case once the part boundaries are forgotten
FlatFoldEq(a, b) == LowerP(Concat(a)) = LowerP(Concat(b))

(* which entity kinds must start with a capital letter (the naming functions of the targets require it for types;
   literals and constants are written capitalised by convention in the real meta-models) *)
TypeLike(id) == IsUp(id[1][1])

(* scopes ---------------------------------------------------------------------------------------- *)
\* the scenario kinds: which two entities are put into which scope
Kinds == {"class_class", "class_abstract", "class_enum", "enum_enum", "class_cprim", "prop_prop", "prop_inherited",
          "prop_method", "method_method", "lit_lit", "const_const", "fn_fn", "lit_other_enum",
          \* members that meet only in a common descendant: inherited from two unrelated parents / grandparents
          "prop_two_parents", "prop_method_two_parents", "prop_two_grandparents"}
\* (arguments of functions are not among the entities the sentence lists, so no scenario is built for them)
NeedsTypeLike(k) == k \in {"class_class", "class_abstract", "class_enum", "enum_enum", "class_cprim", "lit_lit", "const_const", "lit_other_enum"}
\* two entities of the scenario share a scope of the generated code; "lit_other_enum" is the control scenario in which
\* the two names live in *different* scopes of the meta-model (literals of two different enumerations)
SameScope(k) == k # "lit_other_enum"
====
