INIT Init
NEXT Next
CONSTANTS
  MaxSets = 3
  NPerK = 60
