-------------------------- MODULE ModelCacheTrace --------------------------
(* V phase for C23 / C24: traces recorded from the real run.load_model / CLI are validated     *)
(* against ModelCache.  Each trace line names the step the code performed (from the audit hook *)
(* at the operation) and carries what was observed: the run, for Exists whether it hit, the     *)
(* path class the operation touched, the projected listing of the cache directory after the    *)
(* step and, at Return, the run's result class.  A line is accepted only if the spec action of  *)
(* that name is enabled for that run and its effect agrees with every logged field.            *)
(*                                                                                             *)
(* Batching: Traces is a sequence of traces; the initial state picks one (tid).  A trace is     *)
(* accepted iff position l runs past its end; a state in which no action can consume the next   *)
(* line is a rejection (invariant Inv_Accepted) -- the traces are fully logged, so the trace    *)
(* spec is deterministic and "stuck" means "not a behaviour of the spec".  In CLI mode         *)
(* (silent = TRUE) the chunk writes are not observable and are taken as silent steps.          *)
EXTENDS ModelCache, Json, IOUtils, TLCExt

Traces == JsonDeserialize(IOEnv.VERIF_OBS)

VARIABLES tid, l
tvars == <<vars, tid, l>>

T == Traces[tid]
Ev == T.events[l]
More == l <= Len(T.events)

\* projected listing of the cache directory: what the harness can observe of the file system
FsView == {[cls |-> p[1], key |-> ToString(p[2]), complete |-> Complete(path[p])] : p \in {q \in Paths : path[q] # 0}}
FsOfLine(e) == {[cls |-> e.fs[k].cls, key |-> e.fs[k].key, complete |-> e.fs[k].complete] : k \in 1..Len(e.fs)}

TraceInit ==
    /\ tid \in 1..Len(Traces)
    /\ l = 1
    /\ Init
    /\ text = [r \in Runs |-> CHOOSE t \in Texts : TRUE]

Consume == l' = l + 1 /\ tid' = tid
\* after the step the real directory listing must equal the spec's (when the line carries one)
FsAgrees == Ev.hasfs => FsView' = FsOfLine(Ev)

IsEvent(name, r) == More /\ Ev.ev = name /\ Ev.run = ToString(r)
TextOf(s) == CHOOSE t \in Texts : ToString(t) = s

TStart(r) == /\ IsEvent("StartRun", r) /\ Ev.text \in {ToString(t) : t \in Texts} /\ StartRun(r, TextOf(Ev.text), Ev.flag) /\ Consume /\ FsAgrees
TExists(r) == /\ IsEvent("Exists", r) /\ Exists(r) /\ Consume /\ FsAgrees
              /\ Ev.cls = "final" /\ Ev.key = ToString(text[r])                     \* probes only its own entry
              /\ Ev.hit = (path[Final(text[r])] # 0)
TOpenRead(r) == /\ IsEvent("OpenRead", r) /\ OpenRead(r) /\ Consume /\ FsAgrees
                /\ Ev.cls = "final" /\ Ev.key = ToString(text[r])
TLoad(r) == IsEvent("Load", r) /\ Load(r) /\ Consume /\ FsAgrees
TMkdir(r) == IsEvent("Mkdir", r) /\ Mkdir(r) /\ Consume /\ FsAgrees
TOpenTmp(r) == /\ IsEvent("OpenTmp", r) /\ OpenTmp(r) /\ Consume /\ FsAgrees
               /\ Ev.cls = Target(r)[1] /\ Ev.key = ToString(Target(r)[2])    \* a name of its own
TWriteChunk(r) == IsEvent("WriteChunk", r) /\ WriteChunk(r) /\ Consume /\ FsAgrees
TRename(r) == /\ IsEvent("Rename", r) /\ Rename(r) /\ Consume /\ FsAgrees
              /\ Ev.cls = "final" /\ Ev.key = ToString(text[r])                     \* publishes under its own key
TUnlink(r) == IsEvent("Unlink", r) /\ Unlink(r) /\ Consume /\ FsAgrees
TReturn(r) == /\ IsEvent("Return", r) /\ Return(r) /\ Consume /\ FsAgrees
              /\ Ev.res = result'[r]
              /\ (~flag[r] => Ev.stray = 0)          \* without the flag: no write outside the output directory
TCrash(r) == IsEvent("Crash", r) /\ Crash(r) /\ Consume /\ FsAgrees

\* the OS temp cleaner (or the harness) removes entries between runs; only while nobody is active
TEvict == /\ More /\ Ev.ev = "Evict"
          /\ \A r \in Runs : pc[r] \in {"idle", "done", "crashed"}
          /\ path' = [p \in Paths |-> IF p[1] = Ev.cls /\ ToString(p[2]) = Ev.key THEN 0 ELSE path[p]]
          /\ UNCHANGED <<inode, dir, pc, text, flag, fd, result, touched, starts, sid>>
          /\ Consume /\ FsAgrees

\* CLI mode: chunk writes are invisible
TSilentWrite(r) == T.silent /\ WriteChunk(r) /\ UNCHANGED <<tid, l>>

TraceNext ==
    \/ \E r \in Runs : \/ TStart(r) \/ TExists(r) \/ TOpenRead(r) \/ TLoad(r) \/ TMkdir(r) \/ TOpenTmp(r)
                       \/ TWriteChunk(r) \/ TRename(r) \/ TUnlink(r) \/ TReturn(r) \/ TCrash(r)
                       \/ TSilentWrite(r)
    \/ TEvict

TraceSpec == TraceInit /\ [][TraceNext]_tvars

\* a state that cannot consume its next line is a rejected trace
Inv_Accepted == More => ENABLED TraceNext
=============================================================================
