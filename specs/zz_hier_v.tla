---- MODULE zz_hier_v ----
(* V phase for C05: every observation of the real front end (source hierarchy h read from the text,  *)
(* projection o of the intermediate symbol table) must satisfy the clauses of Hierarchy.tla.          *)
(* One initial state per accepted observation (k = "start"), one successor per clause; one named      *)
(* invariant per clause, so that TLC reports every violated clause of every observation (-continue)   *)
(* and the worker threads share the evaluation.                                                       *)
EXTENDS Hierarchy, Json, IOUtils
Obs == JsonDeserialize(IOEnv.VERIF_OBS)
VARIABLES i, k
Init == i \in 1..Len(Obs) /\ k = "start" /\ Obs[i].outcome = "accepted"
Next == k = "start" /\ k' \in ClauseNames /\ i' = i
H == Obs[i].h
O == Obs[i].o
Inv_AncestorsAreClosure == k = "AncestorsAreClosure" => AncestorsAreClosure(H, O)
Inv_AncestorsNoDup == k = "AncestorsNoDup" => AncestorsNoDup(H, O)
Inv_DescendantsAreInverse == k = "DescendantsAreInverse" => DescendantsAreInverse(H, O)
Inv_DescendantsNoDup == k = "DescendantsNoDup" => DescendantsNoDup(H, O)
Inv_ConcreteDescendantsRight == k = "ConcreteDescendantsRight" => ConcreteDescendantsRight(H, O)
Inv_ConcreteDescendantsNoDup == k = "ConcreteDescendantsNoDup" => ConcreteDescendantsNoDup(H, O)
Inv_PropertiesAreHeritage == k = "PropertiesAreHeritage" => PropertiesAreHeritage(H, O)
Inv_PropertiesOrdered == k = "PropertiesOrdered" => PropertiesOrdered(H, O)
Inv_InvariantsAreHeritage == k = "InvariantsAreHeritage" => InvariantsAreHeritage(H, O)
Inv_InvariantsOrdered == k = "InvariantsOrdered" => InvariantsOrdered(H, O)
Inv_MethodsAreHeritage == k = "MethodsAreHeritage" => MethodsAreHeritage(H, O)
Inv_MethodsOrdered == k = "MethodsOrdered" => MethodsOrdered(H, O)
Inv_CtorAssignsEvery == k = "CtorAssignsEvery" => CtorAssignsEvery(H, O)
Inv_CtorAssignsAtMostOnce == k = "CtorAssignsAtMostOnce" => CtorAssignsAtMostOnce(H, O)
Inv_CtorNoSuperCalls == k = "CtorNoSuperCalls" => CtorNoSuperCalls(H, O)
Inv_InterfacesExact == k = "InterfacesExact" => InterfacesExact(H, O)
Inv_Topological == k = "Topological" => Topological(H, O)
Inv_ModelTypeDown == k = "ModelTypeDown" => ModelTypeDown(H, O)

\* non-vacuity counters (evaluated once, printed): accepted observations, those with a diamond, those where
\* some class has both inherited and own members; and what the source-level reading expects to be refused
Accepted == {n \in 1..Len(Obs) : Obs[n].outcome = "accepted"}
NonTrivial(n) == \E c \in Ids(Obs[n].h) : Ancestors(Obs[n].h, c) # {}
ExpectRefused(n) == ~Acyclic(Obs[n].h) \/ ~ModelTypeConsistentSource(Obs[n].h) \/ MethodClash(Obs[n].h)
====
