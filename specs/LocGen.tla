---- MODULE LocGen ----
(* G phase of C04: the layouts in which an offending construct is planted into an otherwise valid *)
(* meta-model (rendered by harness/run_c04.py). Every combination is a case.                      *)
EXTENDS Integers, Sequences, FiniteSets, Json, IOUtils, SequencesExt, TLC
Plants == {"stray_assign", "stray_expr", "bad_import", "early_class", "bad_annotation", "inv_no_desc", "unknown_base",
           "bad_lambda", "bad_lambda_nonascii", "fstring_lambda", "unknown_type", "bad_func_body", "enum_bad_literal"}
\* plants that may stand on line 1 of the file (nothing before them, not even the imports)
Line1Plants == {"stray_assign", "stray_expr", "bad_import", "early_class"}
\* plants with an indented body that can be indented by a tab instead of four blanks
BodyPlants == Plants \ {"stray_assign", "stray_expr", "bad_import"}
Places == {"line1", "after_header", "middle", "last"}
\* text before everything else. The last five exist because of what a line is NOT: form feed, vertical tab,
\* FS/GS/RS, NEL, U+2028 and U+2029 are line boundaries for str.splitlines() but not for Python's tokenizer, ast,
\* or any editor; and a first line that is blank-with-spaces or an indented comment lies before the first token.
PrefixKinds == {"none", "blank2", "comment", "comment_nonascii_tab", "docstring_multiline",
                "formfeed_line", "unicode_seps_docstring", "ctrl_seps_comment", "ws_first_line", "indented_comment_first"}
\* what follows the classes: both mandatory assignments, only the XML namespace, or none (their absence is
\* reported by errors WITHOUT a construct, rendered after the located ones in the same report)
Tails == {"full", "no_version", "none"}
Gaps == {0, 1, 3}
Eols == {"lf", "crlf"}
Cases ==
    {[plant |-> p, where |-> w, prefix |-> x, gap |-> g, eol |-> e, tab |-> t, tail |-> tl] :
        p \in Plants, w \in Places, x \in PrefixKinds, g \in Gaps, e \in Eols, t \in BOOLEAN, tl \in Tails}
Valid(c) == /\ (c.where = "line1" => c.plant \in Line1Plants /\ c.prefix = "none" /\ c.gap = 0)
            /\ (c.plant = "early_class" => c.where = "line1")
            /\ (c.tab => c.plant \in BodyPlants)
ValidCases == {c \in Cases : Valid(c)}
ASSUME JsonSerialize(IOEnv.VERIF_OUT, SetToSeq(ValidCases))
ASSUME PrintT(<<"@@PRINT@@ cases", Cardinality(ValidCases)>>)
VARIABLE dummy
Init == dummy = 0
Next == UNCHANGED dummy
====
