---- MODULE LocGen ----
(* G phase of C04: the layouts in which an offending construct is planted into an otherwise valid *)
(* meta-model (rendered by harness/run_c04.py). Every combination is a case.                      *)
EXTENDS Integers, Sequences, FiniteSets, Json, IOUtils, SequencesExt, TLC
Plants == {"stray_assign", "stray_expr", "bad_import", "early_class", "bad_annotation", "inv_no_desc", "unknown_base",
           "bad_lambda", "bad_lambda_nonascii", "unknown_type", "bad_func_body", "enum_bad_literal"}
\* plants that may stand on line 1 of the file (nothing before them, not even the imports)
Line1Plants == {"stray_assign", "stray_expr", "bad_import", "early_class"}
\* plants with an indented body that can be indented by a tab instead of four blanks
BodyPlants == Plants \ {"stray_assign", "stray_expr", "bad_import"}
Places == {"line1", "after_header", "middle", "last"}
PrefixKinds == {"none", "blank2", "comment", "comment_nonascii_tab", "docstring_multiline"}
Gaps == {0, 1, 3}
Eols == {"lf", "crlf"}
Cases ==
    {[plant |-> p, where |-> w, prefix |-> x, gap |-> g, eol |-> e, tab |-> t] :
        p \in Plants, w \in Places, x \in PrefixKinds, g \in Gaps, e \in Eols, t \in BOOLEAN}
Valid(c) == /\ (c.where = "line1" => c.plant \in Line1Plants /\ c.prefix = "none" /\ c.gap = 0)
            /\ (c.plant = "early_class" => c.where = "line1")
            /\ (c.tab => c.plant \in BodyPlants)
ValidCases == {c \in Cases : Valid(c)}
ASSUME JsonSerialize(IOEnv.VERIF_OUT, SetToSeq(ValidCases))
ASSUME PrintT(<<"@@PRINT@@ cases", Cardinality(ValidCases)>>)
VARIABLE dummy
Init == dummy = 0
Next == UNCHANGED dummy
====
