----------------------------- MODULE ReportLexer -----------------------------
(* C03, design level: the lexer of an error report as a step-wise sub-machine.                    *)
(* It reads the classes of the stderr lines one per step; model-checked (MC_ReportLexer.cfg):     *)
(* for every sequence of line classes up to MaxLines the machine ends in an accepting state       *)
(* exactly when the sequence has the declarative shape `IsReport`, and the fold `LexRun` used by  *)
(* the conformance specs computes the same state as the step-wise run.                            *)
EXTENDS PipelineBase

CONSTANT MaxLines

VARIABLES input, pos, st
vars == <<input, pos, st>>

Inputs == UNION {[1..n -> LineClasses] : n \in 0..MaxLines}

Init == input \in Inputs /\ pos = 1 /\ st = LexInit

Read ==
    /\ pos <= Len(input)
    /\ st' = LexStep(st, input[pos])
    /\ pos' = pos + 1
    /\ UNCHANGED input

Next == Read
Spec == Init /\ [][Next]_vars

AtEnd == pos > Len(input)

TypeOK == st \in LexStates /\ pos \in 1..(MaxLines + 1)
AcceptsExactlyReports == AtEnd => ((st \in LexAccepting) <=> IsReport(input))
FoldAgrees == AtEnd => st = LexRun(input) /\ st = LexFold(input)
PrefixFoldAgrees == st = LexRun(SubSeq(input, 1, pos - 1)) /\ st = LexFold(SubSeq(input, 1, pos - 1))
\* "bad" is a trap: once a prefix is rejected no continuation is accepted
BadIsTrap == st = "bad" => ~IsReport(input)
\* a report never contains a second headline nor an unindented non-bullet line
NoSecondHeadline == (AtEnd /\ st \in LexAccepting) => \A i \in 2..Len(input) : input[i] \notin {"headline", "other"}
=============================================================================
