SPECIFICATION Spec
INVARIANT Inv_LexicallyComplete
INVARIANT Inv_SkeletonIndependentOfPayload
