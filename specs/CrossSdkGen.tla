------------------------------ MODULE CrossSdkGen ------------------------------
(* G phase of C09: TLC evaluates the families of CrossSdkModels (full products of the value alphabets, the       *)
(* mutants of the documents of the base instances, the probe texts of every enumeration) and writes them as     *)
(* JSON.  The output depends only on the spec and the tier.                                                      *)
EXTENDS CrossSdkModels, SequencesExt, Json, IOUtils

Tier == IOEnv.VERIF_TIER

Case(x) == [x |-> x, feats |-> SetToSeq(Feats(x))]

DocCases(m, bases, depth) ==
  ConcatAll([b \in 1..Len(bases) |->
     LET j == ToJsonable(m, bases[b])  ms == Mutants(j, depth) IN
     <<[mut |-> "none", at |-> "obj", loc |-> <<>>, doc |-> j, base |-> b]>>
     \o [q \in 1..Len(ms) |-> [mut |-> ms[q].mut, at |-> ms[q].at, loc |-> ms[q].loc, doc |-> ms[q].doc, base |-> b]]])

Out ==
  LET fams == Families(Tier) IN
  [models |-> [q \in 1..Len(ModelNames) |->
                 LET m == ModelByName(ModelNames[q]) IN
                 [model |-> m, targets |-> Targets(Tier, ModelNames[q]),
                  probes |-> [e \in 1..Len(m.enums) |-> [name |-> m.enums[e].name, texts |-> SetToSeq(EnumProbes(m, m.enums[e].name))]]]],
   families |-> [f \in 1..Len(fams) |->
     [name |-> fams[f].name, model |-> fams[f].model, root |-> fams[f].root,
      instances |-> LET s == SetToSeq(fams[f].instances) IN [i \in 1..Len(s) |-> Case(s[i])],
      docs |-> DocCases(ModelByName(fams[f].model), fams[f].docBases, fams[f].docDepth)]]]

ASSUME \A q \in 1..Len(ModelNames) : SupersetsDeclaredWell(ModelByName(ModelNames[q]))
ASSUME JsonSerialize(IOEnv.VERIF_OUT, Out)
ASSUME \A f \in 1..Len(Out.families) :
          PrintT(<<"@@PRINT@@ family", Out.families[f].name, Len(Out.families[f].instances), Len(Out.families[f].docs)>>)
VARIABLE dummy
Init == dummy = 0
Next == UNCHANGED dummy
=============================================================================
