-------------------------------- MODULE Verif --------------------------------
(* C08 — what `verification.verify(instance)` of a generated Python SDK must report.            *)
(*                                                                                             *)
(* A model M: [classes |-> <<[name, base ("" = none), abstract, props |-> <<[name, ty]>>,         *)
(*                            invs |-> <<[e, d |-> description, ds |-> shape name, id]>>]>>,      *)
(*             cprims  |-> <<[name, base (a primitive or another constrained primitive), invs]>>,*)
(*             vals, funcs (Expr!Eval's G), sigs, enums, root].                                  *)
(* Types are those of Expr.tla plus [t |-> "cprim", c |-> name].                                 *)
(*                                                                                             *)
(* Declaratively:                                                                               *)
(*   Owners(M, v, ty, path): every value reachable from the instance that owns invariants —     *)
(*       instances of classes (by their run-time class) and constrained-primitive values held    *)
(*       in properties or list items — with the path leading to it;                              *)
(*   an owner's invariants: its own and all inherited ones (classes and constrained primitives);*)
(*   Expected(M, inst) = {(path, description) : Eval(invariant, self = owner) is false};         *)
(*   MustRaise(M, inst) = some invariant of some owner evaluates to an error token.             *)
EXTENDS Expr

TCPrim(n) == [t |-> "cprim", c |-> n]
Prims == {"int", "str", "bool"}

RangeOf(f) == {f[x] : x \in DOMAIN f}
ClassByName(M, n) == M.classes[CHOOSE k \in 1..Len(M.classes) : M.classes[k].name = n]
CPrimByName(M, n) == M.cprims[CHOOSE k \in 1..Len(M.cprims) : M.cprims[k].name = n]

\* inheritance chains, root first
RECURSIVE ClassChain(_, _)
ClassChain(M, n) == LET c == ClassByName(M, n) IN IF c.base = "" THEN <<c>> ELSE ClassChain(M, c.base) \o <<c>>
RECURSIVE CPrimChain(_, _)
CPrimChain(M, n) == LET c == CPrimByName(M, n) IN IF c.base \in Prims THEN <<c>> ELSE CPrimChain(M, c.base) \o <<c>>

RECURSIVE Flatten(_, _)
Flatten(seqs, k) == IF k > Len(seqs) THEN <<>> ELSE seqs[k] \o Flatten(seqs, k + 1)

AllPropsOf(M, n) == LET ch == ClassChain(M, n) IN Flatten([k \in 1..Len(ch) |-> ch[k].props], 1)
\* invariants with their provenance: own or inherited
TagInvs(invs, inherited) == [k \in 1..Len(invs) |-> [e |-> invs[k].e, d |-> invs[k].d, ds |-> invs[k].ds, id |-> invs[k].id, inherited |-> inherited]]
AllInvsOfClass(M, n) == LET ch == ClassChain(M, n) IN Flatten([k \in 1..Len(ch) |-> TagInvs(ch[k].invs, k < Len(ch))], 1)
AllInvsOfCPrim(M, n) == LET ch == CPrimChain(M, n) IN Flatten([k \in 1..Len(ch) |-> TagInvs(ch[k].invs, k < Len(ch))], 1)

\* JSON has no sets: constant sets and enumeration classes arrive as sequences
NormVal(v) ==
    IF v.t = "set" THEN SetV(RangeOf(v.els))
    ELSE IF v.t = "enumtype" THEN EnumTypeV(v.c, RangeOf(v.lits))
    ELSE v
GOf(M) == [vals |-> [n \in DOMAIN M.vals |-> NormVal(M.vals[n])], funcs |-> M.funcs]
\* for models defined in TLA+ (constant sets are sets already)
GNative(M) == [vals |-> M.vals, funcs |-> M.funcs]

\* the owners, as a sequence of [path, kind, name, val]
RECURSIVE Owners(_, _, _, _)
Owners(M, v, ty, path) ==
    CASE ty.t = "opt" -> IF v.t = "none" THEN <<>> ELSE Owners(M, v, ty.of, path)
      [] ty.t = "inst" ->
            LET ps == AllPropsOf(M, v.c)
            IN  <<[path |-> path, kind |-> "class", name |-> v.c, val |-> v]>>
                \o Flatten([k \in 1..Len(ps) |-> Owners(M, v.f[ps[k].name], ps[k].ty, path \o "." \o ps[k].name)], 1)
      [] ty.t = "cprim" -> <<[path |-> path, kind |-> "cprim", name |-> ty.c, val |-> v]>>
      [] ty.t = "list" -> Flatten([k \in 1..Len(v.xs) |-> Owners(M, v.xs[k], ty.of, path \o "[" \o ToString(k - 1) \o "]")], 1)
      [] OTHER -> <<>>

InvsOfOwner(M, o) == IF o.kind = "class" THEN AllInvsOfClass(M, o.name) ELSE AllInvsOfCPrim(M, o.name)

\* every (owner, invariant) evaluation of an instance
EvaluationsG(M, inst, G) ==
    LET os == Owners(M, inst, [t |-> "inst", c |-> inst.c], "")
    IN  Flatten([k \in 1..Len(os) |->
                    LET invs == InvsOfOwner(M, os[k])
                    IN  [j \in 1..Len(invs) |-> [path |-> os[k].path, d |-> invs[j].d, ds |-> invs[j].ds, id |-> invs[j].id, e |-> invs[j].e, owner |-> os[k].kind,
                                                 inherited |-> invs[j].inherited, r |-> Eval(invs[j].e, [self |-> os[k].val], G)]]], 1)

Evaluations(M, inst) == EvaluationsG(M, inst, GOf(M))

\* an invariant "is false": its value is falsy (for the booleans the property speaks of: FALSE)
IsFalse(r) == ~IsErr(r) /\ ~Truthy(r)

\* the declarative expectation
ExpectedG(M, inst, G) == LET evs == EvaluationsG(M, inst, G) IN {<<evs[k].path, evs[k].d>> : k \in {j \in 1..Len(evs) : IsFalse(evs[j].r)}}
MustRaiseG(M, inst, G) == LET evs == EvaluationsG(M, inst, G) IN \E k \in 1..Len(evs) : IsErr(evs[k].r)

\* a structural fingerprint of an invariant, for the keys of findings
RECURSIVE HasFilter(_)
HasFilter(e) == (e.k \in {"all", "any"} /\ Len(e.a) = 3) \/ \E k \in 1..Len(e.a) : HasFilter(e.a[k])
Feature(e) == IF HasFilter(e) THEN "comprehension_if" ELSE e.k
=============================================================================
