SPECIFICATION Spec
CONSTANTS
  Dedupe = TRUE
  N = 3
  Full = TRUE
  NSort = 3
  SortAllNames = FALSE
INVARIANT DoneAllClauses
INVARIANT CycleIffCyclic
INVARIANT SortedIsTopological
INVARIANT MarksDisjoint
INVARIANT StackIsPath
INVARIANT RejectedIffReason
