------------------------------ MODULE LexTrace ------------------------------
(* V phase of C19. One observation per (emitter, original string):                        *)
(*   kind     which literal form the emitter promises (see Lexers!Kinds) or "generator"   *)
(*   orig     the original value (code points / bytes)                                    *)
(*   outcome  "ok" (text emitted), "exception" (the emitter raised), and for generator-   *)
(*            level cases "generated" / "reported" / "exception"                          *)
(*   text     the emitted source text (code points)                                       *)
(*   real     "yes" / "no" / "na": what the language's real compiler or interpreter made  *)
(*            of the same text (S phase), realval the value it computed                   *)
(* One initial state per observation; one invariant per clause of the property.           *)
EXTENDS Lexers, Json, IOUtils, TLC
Obs == JsonDeserialize(IOEnv.VERIF_OBS)
VARIABLE i
Init == i \in 1..Len(Obs)
Next == UNCHANGED i

IsLiteral(o) == o.kind \in Kinds
\* "the literal, when read by that language's compiler, denotes exactly the original value"
Inv_Denotes == IsLiteral(Obs[i]) /\ Obs[i].outcome = "ok" => Denotes(Obs[i].kind, Obs[i].text, Obs[i].orig)
\* inside its documented domain an emitter does not raise
Inv_EmitterTotal == IsLiteral(Obs[i]) => Obs[i].outcome # "exception"
\* "where a language cannot represent a value, the generator reports an error" (it neither crashes nor lies)
Inv_UnrepresentableIsReported == Obs[i].kind = "generator" => Obs[i].outcome \in {"generated", "reported"}

(* S: the spec's decoders against the real tool chains. A violation of this one is a defect *)
(* of the specification (the harness turns it into a machinery failure), never of the repo.  *)
Inv_SpecAgreesWithCompiler ==
  IsLiteral(Obs[i]) /\ Obs[i].outcome = "ok" /\ Obs[i].real # "na" =>
     LET d == Decode(Obs[i].kind, Obs[i].text) IN
     IF Obs[i].real = "yes" THEN d.ok /\ d.val = Obs[i].realval ELSE ~d.ok

NonTrivial(o) == IsLiteral(o) /\ o.outcome = "ok" /\ \E j \in 1..Len(o.orig) : ~Plain(o.orig[j])
ASSUME PrintT(<<"@@PRINT@@ counts", Len(Obs),
                Cardinality({n \in 1..Len(Obs) : NonTrivial(Obs[n])}),
                Cardinality({n \in 1..Len(Obs) : Obs[n].real # "na"})>>)
=============================================================================
