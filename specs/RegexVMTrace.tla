---- MODULE RegexVMTrace ----
(***************************************************************************************************)
(* V phase of C18.  One observation per pattern text: whether the front end accepted it as an         *)
(* anchored pattern, the tree retree.parse made of it, the program intermediate.revm.translate        *)
(* returned (imported here as data) or the exception it raised, the same for the UTF-16 variant of    *)
(* the tree, and the verdicts of the compiled generated C++ matcher on the case's strings.            *)
(* The spec's VM (big-step form of the documented instruction semantics, RegexVMCore.tla, model-      *)
(* checked against the small-step machine RegexVM.tla) is executed by TLC on the real program for      *)
(* every string without line breaks of length <= maxlen over the case alphabet.                      *)
(* Variables as in RegexTrace: blk / i / culprit.                                                    *)
(***************************************************************************************************)
EXTENDS RegexVMCore, Json, IOUtils, TLC
CONSTANT BlockSize
Obs == JsonDeserialize(IOEnv.VERIF_OBS)
N == Len(Obs)
VARIABLES blk, i, culprit, failing

\* a quantified group that can match the empty string: the translation loops over non-consuming instructions
RECURSIVE NullableAlt(_)
NullableTerm(t) ==
  \/ (t.q.has /\ t.q.min = 0)
  \/ t.v.k \in {"start", "end"}
  \/ (t.v.k = "group" /\ NullableAlt(t.v.alt))
NullableAlt(a) == Len(a.cats) = 0 \/ \E c \in 1..Len(a.cats) : \A t \in 1..Len(a.cats[c].terms) : NullableTerm(a.cats[c].terms[t])
IsEmptyLoop(t) == t.q.has /\ (t.q.max = Unbounded \/ t.q.max > 1) /\ t.v.k = "group" /\ NullableAlt(t.v.alt)
TranslateCulprit(x, e) ==
  IF e.type = "" THEN <<"none">>
  ELSE IF AnyTermAlt(x.tree, IsNonGreedy) THEN <<"non_greedy_quantifier">>
  ELSE IF HasInnerStart(x.tree) THEN <<"inner_start_anchor">>
  ELSE <<e.type, e.where>>
CulpritOf(x) ==
  [Inv_EmittedWithoutError |-> TranslateCulprit(x, IF x.outcome = "exception" THEN x.exc ELSE IF x.outcome16 = "exception" THEN x.exc16 ELSE x.emitted_exc),
   Inv_Utf16VariantEmitted |-> <<"none">>,
   Inv_ProgramWellFormed |-> <<"none">>,
   Inv_VMMatchesLikePattern |-> <<"none">>,
   Inv_VMMatchesLikePattern16 |-> <<"none">>,
   Inv_CppMatcherAgrees |->
      IF x.cpp = "hang" THEN (IF AnyTermAlt(x.tree, IsEmptyLoop) THEN <<"hang", "empty_loop">> ELSE <<"hang">>)
      ELSE IF x.cpp = "error" THEN <<"error">> ELSE <<"none">>]


\* strings without line breaks over the case alphabet, named by their position in the enumeration
NoLineBreak(c) == c \notin {10, 11, 12, 13, 133, 8232, 8233}
Strings(x) == StringsUpTo({c \in SeqToSet(x.alpha) : NoLineBreak(c)}, x.maxlen)
PosIn(c, A) == CHOOSE p \in 1..Len(A) : A[p] = c
RECURSIVE Digits0(_, _, _)
Digits0(s, n, A) == IF n = 0 THEN 0 ELSE Digits0(s, n - 1, A) * Len(A) + (PosIn(s[n], A) - 1)
Idx(s, A) == (IF Len(s) = 0 THEN 0 ELSE CountUpTo(Len(A), Len(s) - 1)) + Digits0(s, Len(s), A)
Strings16(x) == StringsUpTo({c \in SeqToSet(x.alpha16) : NoLineBreak(c)}, IF x.maxlen > 3 THEN 3 ELSE x.maxlen)


\* "the generated virtual-machine program for C++ is emitted without error" (both programs of pattern.cpp)
C_Inv_EmittedWithoutError(o) ==
  o.accepted => o.outcome = "ok" /\ o.outcome16 # "exception" /\ (o.fix16 = "ok" => o.emitted # "exception")
\* the emitted C++ carries a second program for 16-bit wchar_t (UTF-16 wide strings) whenever the rewriting for UTF-16
\* changes the pattern, i.e. whenever a character of the pattern does not fit one code unit
C_Inv_Utf16VariantEmitted(o) ==
  o.accepted /\ o.emitted = "ok" /\ o.fix16 = "ok" /\ o.tree16 # o.tree => o.emitted_has16
\* the control flow is closed: targets exist, no thread runs off the end, range lists as the C++ constructors demand
C_Inv_ProgramWellFormed(o) ==
  o.accepted =>
     /\ (o.outcome = "ok" => WellFormedProgram(o.prog) /\ RangesWellFormed(o.prog))
     /\ (o.outcome16 = "ok" => WellFormedProgram(o.prog16) /\ RangesWellFormed(o.prog16))
\* "run by ... any implementation of the documented instruction semantics, it accepts a string exactly when the pattern
\* fully matches it, on strings without line breaks"
C_Inv_VMMatchesLikePattern(o) ==
  o.accepted /\ o.outcome = "ok" /\ WellFormedProgram(o.prog) =>
     \A s \in Strings(o) : VMAccepts(o.prog, s) <=> FullMatch(o.tree, s)
\* the second program of pattern.cpp (for 16-bit wchar_t), translated from the rewritten tree, against that tree, on
\* code-unit strings (whether the rewritten tree means the same as the original is C17)
C_Inv_VMMatchesLikePattern16(o) ==
  o.accepted /\ o.outcome16 = "ok" /\ WellFormedProgram(o.prog16) =>
     \A s \in Strings16(o) : VMAccepts(o.prog16, s) <=> FullMatch(o.tree16, s)
\* "run by the generated C++ matcher ..."
C_Inv_CppMatcherAgrees(o) ==
  o.accepted /\ o.cpp # "none" =>
     /\ o.cpp = "ran"
     /\ SeqToSet(o.cpp_accepted) = {Idx(s, o.alpha) : s \in {u \in Strings(o) : FullMatch(o.tree, u)}}

\* every clause is evaluated once per observation, when the observation is taken up (Next): `failing` is the set of
\* clauses the observation violates.  The invariants only look the names up, so that TLC -- which reports the first
\* violated invariant of a state only -- still hands over *all* violated clauses of the case with the state it prints
\* (a clause under a known finding cannot mask another clause on the same case).
ClauseNames == {"Inv_EmittedWithoutError", "Inv_Utf16VariantEmitted", "Inv_ProgramWellFormed", "Inv_VMMatchesLikePattern", "Inv_VMMatchesLikePattern16", "Inv_CppMatcherAgrees"}
Holds(n, x) ==
  CASE n = "Inv_EmittedWithoutError" -> C_Inv_EmittedWithoutError(x)
    [] n = "Inv_Utf16VariantEmitted" -> C_Inv_Utf16VariantEmitted(x)
    [] n = "Inv_ProgramWellFormed" -> C_Inv_ProgramWellFormed(x)
    [] n = "Inv_VMMatchesLikePattern" -> C_Inv_VMMatchesLikePattern(x)
    [] n = "Inv_VMMatchesLikePattern16" -> C_Inv_VMMatchesLikePattern16(x)
    [] n = "Inv_CppMatcherAgrees" -> C_Inv_CppMatcherAgrees(x)
FailingOf(x) == {n \in ClauseNames : ~Holds(n, x)}

Blocks == 0..((N - 1) \div BlockSize)
Init == blk \in Blocks /\ i = 0 /\ culprit = <<>> /\ failing = {}
Next == /\ i = 0
        /\ \E j \in (blk * BlockSize + 1)..(IF (blk + 1) * BlockSize < N THEN (blk + 1) * BlockSize ELSE N) :
              i' = j /\ culprit' = CulpritOf(Obs[j]) /\ failing' = FailingOf(Obs[j])
        /\ UNCHANGED blk

Inv_EmittedWithoutError == "Inv_EmittedWithoutError" \notin failing
Inv_Utf16VariantEmitted == "Inv_Utf16VariantEmitted" \notin failing
Inv_ProgramWellFormed == "Inv_ProgramWellFormed" \notin failing
Inv_VMMatchesLikePattern == "Inv_VMMatchesLikePattern" \notin failing
Inv_VMMatchesLikePattern16 == "Inv_VMMatchesLikePattern16" \notin failing
Inv_CppMatcherAgrees == "Inv_CppMatcherAgrees" \notin failing

IsAccepted(x) == x.accepted
Emitted(x) == x.accepted /\ x.outcome = "ok"
CppRan(x) == x.cpp = "ran"
Has16(x) == x.outcome16 = "ok"
ASSUME LET obs == Obs
           Count(P(_)) == Cardinality({n \in 1..Len(obs) : P(obs[n])})
           Branching(x) == Emitted(x) /\ \E n \in 1..Len(x.prog) : x.prog[n].op \in {"split", "jump"}
       IN PrintT(<<"@@PRINT@@ counts", Len(obs), Count(IsAccepted), Count(Emitted), Count(CppRan), Count(Branching), Count(Has16)>>)
====
