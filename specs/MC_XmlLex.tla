------------------------------ MODULE MC_XmlLex ------------------------------
(* M: the XML machine explored over the units of markup, and the escaping rule that C#    *)
(* documentation needs: text with & < > replaced by entity references, put inside an      *)
(* element, is well-formed whatever the text was (as long as its characters are XML        *)
(* characters) - and leaving any one of & < unescaped is not.                             *)
EXTENDS XmlLex, TLC
CONSTANTS MaxLen, AllUnits
\* < > & / ! - ? ; # " ' = [ ] a l t space x 1   (quick: the first twelve without ? ' [ ] l t x 1)
Units == IF AllUnits THEN {60, 62, 38, 47, 33, 45, 63, 59, 35, 34, 39, 61, 91, 93, 97, 108, 116, 32, 120, 49}
         ELSE {60, 62, 38, 47, 33, 45, 59, 35, 34, 61, 97, 32}
Texts == UNION {[1..k -> Units] : k \in 0..MaxLen}
VARIABLES t
Init == t \in Texts
Next == UNCHANGED t
RECURSIVE Escape(_)
Escape(s) == IF s = <<>> THEN <<>>
             ELSE (CASE Head(s) = 38 -> <<38, 97, 109, 112, 59>>     \* &amp;
                     [] Head(s) = 60 -> <<38, 108, 116, 59>>           \* &lt;
                     [] Head(s) = 62 -> <<38, 103, 116, 59>>           \* &gt;
                     [] OTHER -> <<Head(s)>>) \o Escape(Tail(s))
Wrap(body) == <<60, 97, 62>> \o body \o <<60, 47, 97, 62>>             \* <a> body </a>
EscapedTextIsWellFormed == WellFormed(Wrap(Escape(t)))
\* the machine is total and ends in a declared mode on every input
Total == XFinish(XRunFrom(X0, t, 1, Len(t))).m \in {"text", "err"} /\ XRunFrom(X0, Wrap(t), 1, Len(t) + 7).m \in XModes
\* raw text is accepted only if it needed no escaping or happens to be markup itself
RawNeedsEscaping == (\A j \in 1..Len(t) : t[j] \notin {38, 60}) => (WellFormed(Wrap(t)) \/ \E j \in 1..(Len(t) - 2) : t[j] = 93 /\ t[j + 1] = 93 /\ t[j + 2] = 62)
LoneMarkupIsRejected == (Len(t) = 1 /\ t[1] \in {38, 60}) => ~WellFormed(Wrap(t))
=============================================================================
