---------------------------- MODULE PipelineBase ----------------------------
(* C01 / C03 / C28 -- vocabulary and declarative clauses of the run pipeline (variable-free).    *)
(*                                                                                               *)
(* A run of `main.execute` (or of the smoke tool) is observed through                            *)
(*   - its exit status `rc`,                                                                     *)
(*   - what it wrote to stderr, abstracted line by line into a *line class*,                     *)
(*   - whether stdout ends with the line "Code generated to: <output dir>",                      *)
(*   - the identifiers of the errors its components found and of those visible in stderr.        *)
(* This module defines the classification of a stderr line, the ReportLexer (a DFA over line     *)
(* classes, given by its transition function; ReportLexer.tla runs it step-wise and model-checks *)
(* it against the declarative shape), and one operator per clause of the properties.  The state  *)
(* machine Pipeline.tla and the conformance spec PipelineTrace.tla both build on it.             *)
EXTENDS Naturals, Sequences, FiniteSets

-----------------------------------------------------------------------------
(* stderr lines *)

LineClasses == {"headline", "bullet", "cont", "blank", "other"}

(* A line is handed over as a feature record (computed by a total, dumb projection):             *)
(*   len    number of characters                                                                 *)
(*   c1,c2  code points of the first two characters (0 when absent)                              *)
(*   last   code point of the last character (0 for the empty line)                              *)
(*   indent number of leading spaces                                                             *)
(*   blank  the line consists of white space only                                                *)
STAR == 42
SPACE == 32
COLON == 58

LineClass(f) ==
    IF f.blank THEN "blank"
    ELSE IF f.c1 = STAR /\ f.c2 = SPACE THEN "bullet"                 \* "* ..."
    ELSE IF f.indent >= 2 THEN "cont"                                 \* indented continuation
    ELSE IF f.indent = 0 /\ f.last = COLON THEN "headline"            \* "....:"
    ELSE "other"

Classes(features) == [i \in 1..Len(features) |-> LineClass(features[i])]

-----------------------------------------------------------------------------
(* ReportLexer: DFA over line classes.                                                            *)
(*   start --headline--> head --bullet--> entry --bullet|cont|blank--> entry                      *)
(* everything else leads to the trap state "bad"; only "entry" accepts.                           *)
LexStates == {"start", "head", "entry", "bad"}
LexInit == "start"
LexAccepting == {"entry"}

LexStep(s, c) ==
    CASE s = "start" -> (IF c = "headline" THEN "head" ELSE "bad")
      [] s = "head"  -> (IF c = "bullet" THEN "entry" ELSE "bad")
      [] s = "entry" -> (IF c \in {"bullet", "cont", "blank"} THEN "entry" ELSE "bad")
      [] OTHER       -> "bad"

\* the run of the DFA as a fold (recursion depth = number of lines: used on short inputs, in M)
RECURSIVE LexFrom(_, _, _)
LexFrom(s, cs, i) == IF i > Len(cs) THEN s ELSE LexFrom(LexStep(s, cs[i]), cs, i + 1)
LexFold(cs) == LexFrom(LexInit, cs, 1)

\* ... and in closed form (no recursion: stderr of a real run can have thousands of lines).
\* ReportLexer.tla model-checks that the step-wise machine, the fold and the closed form agree.
LexRun(cs) ==
    IF Len(cs) = 0 THEN "start"
    ELSE IF cs[1] # "headline" THEN "bad"
    ELSE IF Len(cs) = 1 THEN "head"
    ELSE IF cs[2] # "bullet" THEN "bad"
    ELSE IF \A i \in 3..Len(cs) : cs[i] \in {"bullet", "cont", "blank"} THEN "entry"
    ELSE "bad"

\* the declarative shape the DFA is meant to recognise:
\* one headline, then at least one bullet, then only bullets / continuation lines / blank lines
IsReport(cs) ==
    /\ Len(cs) >= 2
    /\ cs[1] = "headline"
    /\ cs[2] = "bullet"
    /\ \A i \in 3..Len(cs) : cs[i] \in {"bullet", "cont", "blank"}

\* a deliberate one-line message ("invalid syntax at line 3", "The namespace snippet is missing: ...")
IsOneLiner(cs) == Len(cs) = 1 /\ cs[1] # "blank"

NBullets(cs) == Cardinality({i \in 1..Len(cs) : cs[i] = "bullet"})

-----------------------------------------------------------------------------
(* Clauses over a terminated run.                                                                 *)
(*   rc          exit status                                                                      *)
(*   cs          classes of the stderr lines                                                      *)
(*   tailOk      stdout's last line is "Code generated to: <output dir>"                          *)
(*   found       ids of the errors returned by components during the run                          *)
(*   reported    ids of the errors whose message occurs in stderr                                 *)

ExitIffSilentOf(rc, cs) == (rc = 0) <=> (Len(cs) = 0)

StdoutTailOf(rc, tailOk) == (rc = 0) => tailOk

\* most permissive reading (DESIGN section 5): a failing run prints either a one-line message or a
\* well-formed report -- never a headless bullet list, a headline without entries, an unindented
\* continuation line, two reports, ...
ReportShapeOf(rc, cs) == (rc # 0) => (LexRun(cs) \in LexAccepting \/ IsOneLiner(cs))

\* the strict sentence: headline + bulleted entries
StrictReportShapeOf(rc, cs) == (rc # 0) => LexRun(cs) \in LexAccepting

FoundSubsetReportedOf(found, reported) == found \subseteq reported

-----------------------------------------------------------------------------
(* The two compositions of stages (tools).  The order is the program order of main.execute +      *)
(* run.load_model, and of smoke.main.execute.                                                     *)

Tools == {"main", "smoke"}

MainStages == <<"CheckArgs", "ReadSnippets", "LoadModel", "ParsePy", "CheckImports", "ToSymbolTable",
                "Translate", "CacheWrite", "TargetVerify", "TargetGenerate", "WriteFiles", "Exit", "Done">>

SmokeStages == <<"ParsePy", "CheckImports", "ToSymbolTable", "Translate",
                 "Infer", "CsVerify", "CsTypes", "CsVerification", "CsReport", "Exit", "Done">>

StagesOf(t) == IF t = "main" THEN MainStages ELSE SmokeStages

RankIn(seq, s) == CHOOSE i \in 1..Len(seq) : seq[i] = s
HasStage(t, s) == \E i \in 1..Len(StagesOf(t)) : StagesOf(t)[i] = s
Rank(t, s) == RankIn(StagesOf(t), s)
NextStage(t, s) == StagesOf(t)[Rank(t, s) + 1]

(* phases of intermediate.translate, in program order; a checkpoint follows the phases listed in  *)
(* Checkpoints: if any error has been found so far, translate returns there.                      *)
Phases == <<"Ontology", "Constructors", "ConstrainedPrimitives", "FirstPass", "Constants",
            "ResolveA", "ResolveB", "Stack", "AttrRefs", "Verify">>
NPhases == Len(Phases)
PhaseIdx(p) == RankIn(Phases, p)
\* ResolveA = atomic type annotations, description references, default values;
\* ResolveB = inheritances, specified-for, ancestors/descendants, constant subsets;
\* Stack = serializations, invariants, properties, methods, constructors;
\* AttrRefs + Verify share the final checkpoint.
Checkpoints == {1, 2, 3, 4, 5, 6, 7, 8, 10}

(* components whose verdicts the smoke tool must agree with *)
SmokeComponents == {"frontend", "infer", "csverify", "cstypes", "csverification"}

SmokeAgreesOf(rc, verdict, cs) ==
    /\ (rc = 0) => \A c \in SmokeComponents : verdict[c] = "ok"
    /\ (\E c \in SmokeComponents : verdict[c] = "failed") => (rc = 1 /\ Len(cs) > 0)
=============================================================================
