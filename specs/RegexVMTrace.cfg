INIT Init
NEXT Next
CONSTANTS
  BlockSize = 20
INVARIANT Inv_EmittedWithoutError
INVARIANT Inv_Utf16VariantEmitted
INVARIANT Inv_ProgramWellFormed
INVARIANT Inv_VMMatchesLikePattern
INVARIANT Inv_VMMatchesLikePattern16
INVARIANT Inv_CppMatcherAgrees
