SPECIFICATION TraceSpec
CONSTANTS
  Runs = {r1, r2, r3}
  Texts = {t1, t2, t3, t4, t5, t6}
  Chunks = 2
  UniqueTmp = TRUE
  DirectWrite = FALSE
  MaxStarts = 12
INVARIANT Inv_Accepted
INVARIANT NoPartialRead
INVARIANT NoForeignRead
INVARIANT Transparent
INVARIANT FinalAlwaysComplete
INVARIANT OnlyTmpGarbage
INVARIANT OptIn
INVARIANT ReuseOnlySameText
