------------------------------- MODULE SdkMut -------------------------------
(* C10 -- document mutation actions for the JSON and XML wire formats of Sdk.tla (used by G and M). *)
EXTENDS SdkModels

-----------------------------------------------------------------------------
(* 7. document mutations  [C10]                                                                    *)
(* A mutation yields [kind, at, doc]: kind = the name of the mutation action, at = what it hit     *)
(* (for the structural fingerprint of a finding), doc = the mutated document.  The mutations       *)
(* are applied at every position of the document (recursively), so that nested objects, list items *)
(* and dispatching slots are all hit.  They are total: on a document that does not look like the   *)
(* serialization of a value of the slot's type (e.g. after an earlier mutation) they simply find    *)
(* fewer positions.                                                                                *)

Mut(kind, at, doc) == [kind |-> kind, at |-> at, doc |-> doc]
\* lift the mutants of a sub-document into the enclosing document
Lift(sub, Put(_)) == T([q \in 1..Len(sub) |-> Mut(sub[q].kind, sub[q].at, Put(sub[q].doc))])

BADB64 == << <<65>>, <<65, 65, 65>>, <<65, 42, 65, 61>>, <<65, 65, 61, 61, 65, 65, 65, 65>>, <<65, 233, 65, 65>>, <<61, 61, 61, 61>>, <<65, 82, 61, 61>>, <<65, 65, 32, 65, 65>> >>
\*            "A"     "AAA"          "A*A="              "AA==AAAA"                         "AéAA"                "===="              "AR==" (bits)       "AA AA"
JWRONG == << JBool(TRUE), JNum(TRUE, "1"), JNum(FALSE, "1.5"), JStr(<<120>>), JArr(<<>>), JObj(<<>>) >>
FitsJson(t, d) ==
    CASE t.t = "bool" -> d.j = "bool"
      [] t.t = "int" -> d = JNum(TRUE, "1")
      [] t.t = "float" -> d.j = "num"
      [] t.t = "str" -> d.j = "str"
      [] t.t = "list" -> d = JArr(<<>>)
      [] OTHER -> FALSE
WrongJson1(t, ds) == T([i \in 1..Len(ds) |-> Mut("Wrong_json_type", t.t \o "_from_" \o ds[i].j, ds[i])])
WrongJson(t) == WrongJson1(t, SelectSeq(JWRONG, LAMBDA d : ~FitsJson(t, d)))

RECURSIVE JMutants(_, _, _)
JObjMutants(m, doc, t, c, ps, mem, where, others) ==
    LET isProp(i) == \E q \in 1..Len(ps) : ps[q].key = mem[i].key
        isMt(i) == mem[i].key = MODELTYPE
        propOf(i) == ps[CHOOSE q \in 1..Len(ps) : ps[q].key = mem[i].key]
        put(i, v) == JObj(ReplaceAt(mem, i, [key |-> mem[i].key, val |-> v]))
    IN  \* drop a member
        Flat(T([i \in 1..Len(mem) |->
                IF isMt(i) THEN << Mut("Missing_modelType", where, JObj(RemoveAt(mem, i))) >>
                ELSE IF ~isProp(i) THEN <<>>
                ELSE IF propOf(i).opt THEN << Mut("Drop_optional", propOf(i).type.t, JObj(RemoveAt(mem, i))) >>
                ELSE << Mut("Drop_required", propOf(i).type.t, JObj(RemoveAt(mem, i))) >>]))
        \* null for a member
        \o Flat(T([i \in 1..Len(mem) |->
                IF isMt(i) THEN << Mut("Wrong_modelType", where \o "_null", put(i, JNull)) >>
                ELSE IF ~isProp(i) \/ mem[i].val.j = "null" THEN <<>>
                ELSE IF propOf(i).opt THEN << Mut("Null_for_optional", propOf(i).type.t, put(i, JNull)) >>
                ELSE << Mut("Null_for_required", propOf(i).type.t, put(i, JNull)) >>]))
        \* wrong modelType
        \o Flat(T([i \in 1..Len(mem) |->
                IF ~isMt(i) THEN <<>>
                ELSE T([q \in 1..Len(others) |-> Mut("Wrong_modelType", where \o "_other_class", put(i, JName(others[q])))])
                     \o << Mut("Wrong_modelType", where \o "_unknown", put(i, JName("Bogus"))),
                           Mut("Wrong_modelType", where \o "_not_a_string", put(i, JNum(TRUE, "1"))),
                           Mut("Wrong_modelType", where \o "_lower_case", put(i, JName(m.info[c].tag))) >>]))
        \* extra members
        \o (IF HasKey(doc, "bogusProperty") THEN <<>>
            ELSE << Mut("Extra_property", "unknown_key", JObj(Append(mem, [key |-> "bogusProperty", val |-> JNum(TRUE, "1")]))),
                    Mut("Extra_property", "unknown_key_first", JObj(<< [key |-> "bogusProperty", val |-> JNull] >> \o mem)) >>)
        \o (IF HasKey(doc, MODELTYPE) THEN <<>> ELSE << Mut("Extra_property", "modelType_on_class_without", JObj(Append(mem, [key |-> MODELTYPE, val |-> JName("Bogus")]))) >>)
        \* truncate the object after its first member / reverse the members (order is irrelevant in JSON)
        \o (IF Len(mem) > 1 THEN << Mut("Truncate", "object", JObj(SubSeq(mem, 1, 1))), Mut("Reorder", "object", JObj(Reverse(mem))) >> ELSE <<>>)
        \* recursion into the members
        \o Flat(T([i \in 1..Len(mem) |->
                IF ~isProp(i) \/ isMt(i) THEN <<>>
                ELSE Lift(JMutants(m, mem[i].val, propOf(i).type), LAMBDA d : put(i, d))]))
\* the concrete class of the serialized instance: named by modelType, else the slot's own class, else any that fits
JObjMutants2(m, doc, t, c) ==
    JObjMutants(m, doc, t, c, AllProps(m, c), doc.members, IF NeedsDispatch(m, t.name) THEN "dispatch" ELSE "no_dispatch",
                SetToSeq({m.info[d].mt : d \in ClassNames(m) \ {c}}))
JObjMutants1(m, doc, t, cs) ==
    JObjMutants2(m, doc, t, IF cs # {} THEN AnyOf(cs) ELSE IF ~m.info[t.name].abstract THEN t.name ELSE AnyOf(ConcreteOf(m, t.name)))
\* doc stands in a slot of type t
JMutants(m, doc, t) ==
    WrongJson(t) \o
    (CASE t.t = "bytes" -> T([i \in 1..Len(BADB64) |-> Mut("Bad_base64", "bytes", JStr(BADB64[i]))])
      [] t.t = "float" -> << Mut("Int_for_float", "float", JNum(TRUE, "2")) >>
      [] t.t = "enum" /\ doc.j = "str" ->
            << Mut("Bad_enum_text", "enum", JStr(doc.cps \o <<32>>)), Mut("Bad_enum_text", "enum", JStr(<<32>> \o doc.cps)), Mut("Bad_enum_text", "enum", JStr(<<0>>)) >>
      [] t.t = "list" /\ doc.j = "arr" ->
            Flat(T([i \in 1..Len(doc.items) |-> Lift(JMutants(m, doc.items[i], t.item), LAMBDA d : JArr(ReplaceAt(doc.items, i, d)))]))
            \o (IF Len(doc.items) > 0 THEN << Mut("Truncate", "list", JArr(SubSeq(doc.items, 1, Len(doc.items) - 1))),
                                             Mut("Null_item", "list", JArr(ReplaceAt(doc.items, 1, JNull))) >> ELSE <<>>)
            \o (IF Len(doc.items) > 1 THEN << Mut("Swap_items", "list", JArr(SwapAt(doc.items, 1, 2))) >> ELSE <<>>)
      [] t.t = "cls" /\ doc.j = "obj" ->
            JObjMutants1(m, doc, t, {c \in ConcreteOf(m, t.name) : MemberOrAbsent(doc, MODELTYPE) = JName(m.info[c].mt)})
      [] OTHER -> <<>>)

\* mutations of the root document of an instance of the root class
JRootMutants(m, doc, n) ==
    JMutants(m, doc, TCls(n))
    \o << Mut("Wrong_root_kind", "array_around", JArr(<<doc>>)), Mut("Wrong_root_kind", "null", JNull) >>

(* XML *)
BOGUS == XNode("bogusElement", XCps(<<120>>), <<>>)
XWrongText(t) ==
    CASE t.t = "bool" -> << XCps(<<121, 101, 115>>), XTok("int", "2"), XNoText, XCps(<<84, 114, 117, 101>>) >>          \* "yes", 2, nothing, "True"
      [] t.t = "int" -> << XCps(<<120>>), XTok("float", "1.5"), XNoText, XTok("bool", "true") >>
      [] t.t = "float" -> << XCps(<<120>>), XNoText, XTok("bool", "true"), XCps(<<49, 44, 53>>) >>                      \* "x", nothing, true, "1,5"
      [] t.t = "bytes" -> T([i \in 1..Len(BADB64) |-> XCps(BADB64[i])])
      [] t.t = "enum" -> << XCps(<<126, 110, 111, 126>>), XTok("int", "1") >>
      [] OTHER -> <<>>
XWrongTexts(e, t, texts) == T([q \in 1..Len(texts) |-> Mut(IF t.t = "bytes" THEN "Bad_base64" ELSE "Wrong_text", t.t, [e EXCEPT !.text = texts[q]])])

RECURSIVE XSeqMutants(_, _, _)
RECURSIVE XValueMutants(_, _, _)
XDispatchMutants(m, e, inner, c, others) ==
    Lift(XSeqMutants(m, inner, c), LAMBDA d : [e EXCEPT !.kids = <<d>>])
    \o << Mut("Missing_discriminator", "dispatch", [e EXCEPT !.kids = inner.kids]),
          Mut("Wrong_discriminator", "unknown", [e EXCEPT !.kids = <<[inner EXCEPT !.tag = "bogus"]>>]),
          Mut("Wrong_discriminator", "model_type_case", [e EXCEPT !.kids = <<[inner EXCEPT !.tag = m.info[c].mt]>>]),
          Mut("Two_discriminators", "dispatch", [e EXCEPT !.kids = <<inner, inner>>]),
          Mut("Wrong_namespace", "discriminator", [e EXCEPT !.kids = <<[inner EXCEPT !.ns = "other"]>>]) >>
    \o T([q \in 1..Len(others) |-> Mut("Wrong_discriminator", "other_class", [e EXCEPT !.kids = <<[inner EXCEPT !.tag = others[q]]>>])])
\* e is the property (or item) element of a value of type t; result: mutated elements
XValueMutants(m, e, t) ==
    CASE t.t = "cls" ->
            IF ~NeedsDispatch(m, t.name) THEN XSeqMutants(m, e, t.name)
            ELSE IF Len(e.kids) # 1 \/ ~NamesConcrete(m, e.kids[1].tag, t.name) THEN <<>>
            ELSE XDispatchMutants(m, e, e.kids[1], ConcreteNamed(m, e.kids[1].tag, t.name),
                                  SetToSeq({m.info[d].tag : d \in ClassNames(m) \ {ConcreteNamed(m, e.kids[1].tag, t.name)}}))
      [] t.t = "list" ->
            Flat(T([j \in 1..Len(e.kids) |->
                Lift(IF t.item.t = "cls"
                     THEN (IF NamesConcrete(m, e.kids[j].tag, t.item.name) THEN XSeqMutants(m, e.kids[j], ConcreteNamed(m, e.kids[j].tag, t.item.name)) ELSE <<>>)
                     ELSE XValueMutants(m, e.kids[j], t.item),
                     LAMBDA d : [e EXCEPT !.kids = ReplaceAt(e.kids, j, d)])]))
            \o << Mut("Text_in_element_only", "list", [e EXCEPT !.text = XCps(<<120>>)]),
                  Mut("Whitespace_text", "list", [e EXCEPT !.text = XCps(<<10, 32>>)]),
                  Mut("Unknown_item", t.item.t, [e EXCEPT !.kids = Append(e.kids, BOGUS)]) >>
            \o (IF Len(e.kids) > 0 THEN << Mut("Truncate", "list", [e EXCEPT !.kids = SubSeq(e.kids, 1, Len(e.kids) - 1)]),
                                           Mut("Wrong_namespace", "list_item", [e EXCEPT !.kids = ReplaceAt(e.kids, 1, [e.kids[1] EXCEPT !.ns = "none"])]) >> ELSE <<>>)
            \o (IF Len(e.kids) > 1 THEN << Mut("Swap_items", "list", [e EXCEPT !.kids = SwapAt(e.kids, 1, 2)]) >> ELSE <<>>)
            \o (IF Len(e.kids) > 0 /\ t.item.t # "cls" THEN << Mut("Wrong_item_tag", t.item.t, [e EXCEPT !.kids = ReplaceAt(e.kids, 1, [e.kids[1] EXCEPT !.tag = "item"])]) >> ELSE <<>>)
      [] OTHER ->
            XWrongTexts(e, t, XWrongText(t))
            \o << Mut("Element_in_text", t.t, [e EXCEPT !.kids = <<BOGUS>>]) >>
            \o (IF t.t = "enum" /\ e.text.x = "cps" THEN << Mut("Bad_enum_text", "enum", [e EXCEPT !.text = XCps(e.text.cps \o <<33>>)]) >> ELSE <<>>)

XSeqMutants1(m, node, c, ps, kids) ==
    LET isProp(k) == \E q \in 1..Len(ps) : ps[q].key = kids[k].tag
        propOf(k) == ps[CHOOSE q \in 1..Len(ps) : ps[q].key = kids[k].tag]
    IN  Flat(T([k \in 1..Len(kids) |->
            IF ~isProp(k) THEN <<>>
            ELSE IF propOf(k).opt THEN << Mut("Drop_optional", propOf(k).type.t, [node EXCEPT !.kids = RemoveAt(kids, k)]) >>
            ELSE << Mut("Drop_required", propOf(k).type.t, [node EXCEPT !.kids = RemoveAt(kids, k)]) >>]))
        \o (IF \E k \in 1..Len(kids) : kids[k].tag = BOGUS.tag THEN <<>>
            ELSE << Mut("Unknown_element", "property", [node EXCEPT !.kids = Append(kids, BOGUS)]),
                    Mut("Unknown_element", "property_first", [node EXCEPT !.kids = <<BOGUS>> \o kids]) >>)
        \o << Mut("Text_in_element_only", "sequence", [node EXCEPT !.text = XCps(<<120>>)]),
              Mut("Whitespace_text", "sequence", [node EXCEPT !.text = XCps(<<10, 32, 32>>)]) >>
        \o (IF Len(kids) > 1 THEN << Mut("Misplaced_element", "swapped", [node EXCEPT !.kids = SwapAt(kids, 1, 2)]),
                                     Mut("Misplaced_element", "duplicated", [node EXCEPT !.kids = Append(kids, kids[1])]) >> ELSE <<>>)
        \o (IF Len(kids) > 0 THEN << Mut("Wrong_namespace", "property", [node EXCEPT !.kids = ReplaceAt(kids, 1, [kids[1] EXCEPT !.ns = "other"])]),
                                     Mut("Wrong_namespace", "property_none", [node EXCEPT !.kids = ReplaceAt(kids, Len(kids), [kids[Len(kids)] EXCEPT !.ns = "none"])]) >> ELSE <<>>)
        \o Flat(T([k \in 1..Len(kids) |->
                IF ~isProp(k) THEN <<>>
                ELSE Lift(XValueMutants(m, kids[k], propOf(k).type), LAMBDA d : [node EXCEPT !.kids = ReplaceAt(kids, k, d)])]))
\* node holds the property elements of an instance of concrete class c
XSeqMutants(m, node, c) == XSeqMutants1(m, node, c, AllProps(m, c), node.kids)

XRootMutants(m, node, c) ==
    XSeqMutants(m, node, c)
    \o << Mut("Wrong_namespace", "root", [node EXCEPT !.ns = "other"]),
          Mut("Wrong_namespace", "root_none", [node EXCEPT !.ns = "none"]),
          Mut("Wrong_root_kind", "unknown_tag", [node EXCEPT !.tag = "bogus"]),
          Mut("Wrong_root_kind", "model_type_case", [node EXCEPT !.tag = m.info[c].mt]) >>

\* expectations per mutation kind (model-checked in MC_Sdk: the reference agrees with what the names promise)
AlwaysRejectedKinds == {"Drop_required", "Null_for_required", "Wrong_json_type", "Bad_enum_text", "Wrong_root_kind",
                        "Text_in_element_only", "Missing_discriminator", "Wrong_discriminator",
                        "Element_in_text", "Null_item", "Two_discriminators", "Wrong_text"}
\* tolerated by a lenient reader: rejected by the strict reference, accepted by the lenient one
ToleratedKinds == {"Extra_property", "Null_for_optional", "Unknown_element", "Int_for_float", "Wrong_item_tag"}
AcceptedKinds == {"Drop_optional", "Reorder", "Whitespace_text", "Swap_items"}

=============================================================================
