INIT Init
NEXT Next
INVARIANT Inv_SdkGenerated
INVARIANT Inv_OnlySdkError
INVARIANT Inv_RejectsMalformed
INVARIANT Inv_AcceptsWellFormed
