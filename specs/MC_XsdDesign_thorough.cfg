SPECIFICATION Spec
CONSTANTS
  MaxC = 2
  MaxLen = 3
  ModelKinds = {"str", "int", "cprim_str", "list_str", "list_cprim"}
  FormOps = {"<=", "==", ">=", "!="}
  Sides = {"L"}
INVARIANT TypeOK
INVARIANT Design_ValidAccepted
INVARIANT Design_ViolationRejected
INVARIANT Design_MutationRejected
INVARIANT Design_Progress
