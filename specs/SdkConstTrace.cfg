INIT Init
NEXT Next
INVARIANT Inv_ConstantValue
INVARIANT Inv_ConstantSetClosure
INVARIANT Inv_EnumLiterals
INVARIANT Inv_EnumRoundTrip
INVARIANT Inv_EnumFromText
