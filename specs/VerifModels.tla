----------------------------- MODULE VerifModels -----------------------------
(* The case space of C08: meta-models with invariants on classes, inherited invariants, constrained     *)
(* primitives (with inheritance) held in properties and list items, nested and listed instances, *)
(* descriptions of several shapes, pattern functions (plain and composed by an f-string) and      *)
(* transpilable functions; and for each model the instances to verify.                           *)
(*                                                                                             *)
(*   Pos(int) <- Small_pos;  Name(str) <- Short_name                                             *)
(*   Item:    v: int, ov: Optional[int], nm: Optional[Short_name]                                 *)
(*   Parent:  i, oi, s, os, b                         (abstract in every second model)          *)
(*   Subject(Parent): xs, oxs, it, oit, its, e, oe, p: Pos, ops: Optional[Small_pos],             *)
(*                    ps: List[Small_pos], nm: Name                                              *)
(* The class invariants are the WellTyped trees of the C07 grammar (ExprSchema), BatchSize per   *)
(* model; those that mention only Parent's properties are declared on Parent in the odd models   *)
(* (inherited invariants). WellTyped only selects candidates: the R phase drops what the real    *)
(* code rejects and reports the model as run.                                                    *)
EXTENDS Verif, ExprSchema, SequencesExt, Json
CONSTANTS Wide, BatchSize, NInst, StrLen

MinOf(x, y) == IF x < y THEN x ELSE y
Prop(n, ty) == [name |-> n, ty |-> ty]

ItemProps == <<Prop("v", TInt), Prop("ov", TOpt(TInt)), Prop("nm", TOpt(TCPrim("Short_name")))>>
ParentProps == <<Prop("i", TInt), Prop("oi", TOpt(TInt)), Prop("s", TStr), Prop("os", TOpt(TStr)), Prop("b", TBool)>>
SubjectProps == <<Prop("xs", TList(TInt)), Prop("oxs", TOpt(TList(TInt))), Prop("it", TInst("Item")), Prop("oit", TOpt(TInst("Item"))),
                  Prop("its", TList(TInst("Item"))), Prop("e", TEnum("Color")), Prop("oe", TOpt(TEnum("Color"))),
                  Prop("p", TCPrim("Pos")), Prop("ops", TOpt(TCPrim("Small_pos"))), Prop("ps", TList(TCPrim("Small_pos"))), Prop("nm", TCPrim("Name"))>>
ParentNames == {"i", "oi", "s", "os", "b"}

\* ---- descriptions ---------------------------------------------------------------------------
\* The description shapes live in a data file (ASCII JSON with \u escapes) because a TLA+ source cannot carry
\* the characters of interest: quotes, backslashes, braces, long texts for the wrapper, article runs, a tab, and
\* typographic / zero-width spaces (not printable for Python, above 0xFF) and line-boundary characters
\* (U+2028, U+2029, U+0085, U+001C). Run TLC with -Dfile.encoding=UTF-8.
DescShapes == JsonDeserialize("VerifStrings.json").descriptions
ShapeOf(k) == DescShapes[((k - 1) % Len(DescShapes)) + 1]
Desc(owner, k) == (owner \o " invariant " \o ToString(k)) \o ShapeOf(k).text
\* id: the identity of the invariant, the leading words of its description
InvId(owner, k) == owner \o " invariant " \o ToString(k)
WithDescs(owner, trees, off) == [k \in 1..Len(trees) |-> [e |-> trees[k], d |-> Desc(owner, off + k), ds |-> ShapeOf(off + k).name, id |-> InvId(owner, off + k)]]

\* ---- pools ----------------------------------------------------------------------------------
\* trees that index a list raise IndexError on many instances (which ends verify()): they get models of their own
WellTypedTrees == {t \in Trees(Wide) : SubjectWellTyped(t)}
Pool == SetToSeq({t \in WellTypedTrees : "idx" \notin Kinds(t)}) \o SetToSeq({t \in WellTypedTrees : "idx" \in Kinds(t)})
NB == (Len(Pool) + BatchSize - 1) \div BatchSize
Batch(k) == SubSeq(Pool, (k - 1) * BatchSize + 1, MinOf(k * BatchSize, Len(Pool)))
ParentOnly(t) == Mentions(t) # {} /\ Mentions(t) \subseteq ParentNames

ItemInvPool == <<Cmp(">=", P("v"), IntC(0)),
                 Or(<<IsNone(P("ov")), Cmp(">", P("ov"), P("v"))>>),
                 Imp(IsNotNone(P("ov")), Cmp("!=", P("ov"), IntC(1))),
                 Imp(IsNotNone(P("nm")), Cmp("!=", P("nm"), StrC(a_))),
                 And(<<Cmp("<", P("v"), IntC(2)), Cmp(">", P("v"), IntC(-1))>>),
                 Not(Cmp("==", P("v"), IntC(1)))>>
PosInvPool == <<Cmp(">", Self, IntC(0)), Cmp(">=", Self, IntC(1)), Call("gt_zero", <<Self>>), Not(Cmp("<=", Self, IntC(0)))>>
SmallPosInvPool == <<Cmp("<", Self, IntC(3)), Cmp("!=", Self, IntC(3)), Imp(Cmp(">", Self, IntC(1)), Cmp("<", Self, IntC(3))), Call("in_range", <<IntC(2), Self>>)>>
NameInvPool == <<Cmp("<=", LenOf(Self), IntC(2)), Call("is_abc", <<Self>>), In(Self, Names), Cmp("!=", Self, StrC(<<>>)),
                 Or(<<Cmp("==", Self, StrC(a_)), Cmp(">=", LenOf(Self), IntC(2))>>)>>
ShortNameInvPool == <<Cmp(">=", LenOf(Self), IntC(1)), Cmp("<", Self, StrC(<<98>>)), QAnyR("j", Cmp("<", J, LenOf(Self)), IntC(0), IntC(1)),
                      QAll("c", Cmp("!=", Name("c"), StrC(<<98>>)), Self)>>
Pick(pool, k) == pool[((k - 1) % Len(pool)) + 1]
Pick2(pool, k) == <<Pick(pool, k), Pick(pool, k + 1)>>

\* ---- verification functions -------------------------------------------------------------------
B_ == RChr(98)
RegexPool ==
    <<RCat(<<RChr(97), RStar(RSet(<<98, 99>>))>>),                          \* a[bc]*
      RRep(RSet(<<97, 99>>), 2, 2),                                         \* [a-c]{2}
      RPlus(RAlt(<<RCat(<<RChr(97), B_>>), RChr(99)>>)),                    \* (ab|c)+
      RCat(<<RNotSet(<<97, 97>>), ROpt(B_)>>),                              \* [^a]b?
      RCat(<<RChr(97), RDot, RChr(99)>>),                                   \* a.c
      RCat(<<RChr(97), RChr(46), B_>>),                                     \* a\.b
      RCat(<<RSet(<<97, 97, 45, 45, 99, 99>>), RStar(B_)>>),                \* [a\-c]b*
      RCat(<<RRep(RChr(97), 1, 2), RRep(B_, 0, 1)>>),                       \* a{1,2}b{0,1}
      RAlt(<<RCat(<<RChr(97), RChr(97)>>), RStar(B_), RChr(43)>>),          \* (aa|b*|\+)
      RCat(<<RStar(RAlt(<<RChr(97), RCat(<<B_, RChr(99)>>)>>)), RChr(97)>>) \* (a|bc)*a
    >>
\* in every second model the pattern is composed of two variables by an f-string
PatternFn(k) ==
    LET r == Pick(RegexPool, k)
    IN  IF k % 2 = 0 /\ r.k = "cat" /\ Len(r.a) >= 2
        THEN [kind |-> "pattern", re |-> r, parts |-> << <<"first", r.a[1]>>, <<"rest", RCat(Tail(r.a))>> >>]
        ELSE [kind |-> "pattern", re |-> r, parts |-> <<>>]
Funcs(k) ==
    [is_abc |-> PatternFn(k),
     gt_zero |-> [kind |-> "transp", params |-> <<"x">>, body |-> <<Return(Cmp(">", Name("x"), IntC(0)))>>],
     in_range |-> [kind |-> "transp", params |-> <<"x", "lo">>,
                   body |-> <<Assign("d", Sub(Name("x"), Name("lo"))), Return(Cmp(">=", Name("d"), IntC(0)))>>],
     between |-> [kind |-> "transp", params |-> <<"x", "lo", "hi">>,
                  body |-> <<Assign("above", Cmp(">=", Name("x"), Name("lo"))), Assign("below", Cmp("<=", Add(Name("x"), IntC(0)), Name("hi"))),
                             Return(And(<<Name("above"), Name("below")>>))>>],
     \* arithmetic nested on the right of a subtraction
     gap |-> [kind |-> "transp", params |-> <<"x", "lo", "hi">>,
              body |-> <<Assign("w", Sub(Name("hi"), Sub(Name("lo"), IntC(1)))), Return(Cmp(">=", Sub(Name("x"), Sub(Name("w"), Name("lo"))), IntC(0)))>>],
     all_small |-> [kind |-> "transp", params |-> <<"ns">>,
                    body |-> <<Return(QAll("n", Or(<<Cmp("<", Name("n"), IntC(2)), Cmp("==", Name("n"), IntC(3))>>), Name("ns")))>>]]
Sigs == [is_abc |-> [params |-> <<TStr>>, ret |-> TBool], gt_zero |-> [params |-> <<TInt>>, ret |-> TBool],
         in_range |-> [params |-> <<TInt, TInt>>, ret |-> TBool], between |-> [params |-> <<TInt, TInt, TInt>>, ret |-> TBool],
         gap |-> [params |-> <<TInt, TInt, TInt>>, ret |-> TBool], all_small |-> [params |-> <<TList(TInt)>>, ret |-> TBool]]

\* ---- models -----------------------------------------------------------------------------------
ModelOf(k, trees) ==
    LET onParent == IF k % 2 = 1 THEN SelectSeq(trees, ParentOnly) ELSE <<>>
        onSubject == SelectSeq(trees, LAMBDA t : ~(k % 2 = 1 /\ ParentOnly(t)))
    IN  [name |-> "m" \o ToString(k), root |-> "Subject",
         classes |-> <<[name |-> "Item", base |-> "", abstract |-> FALSE, props |-> ItemProps, invs |-> WithDescs("Item", Pick2(ItemInvPool, k), 0)],
                       [name |-> "Parent", base |-> "", abstract |-> (k % 4 \in {1, 2}), props |-> ParentProps, invs |-> WithDescs("Parent", onParent, 0)],
                       [name |-> "Subject", base |-> "Parent", abstract |-> FALSE, props |-> SubjectProps, invs |-> WithDescs("Subject", onSubject, 100)]>>,
         cprims |-> <<[name |-> "Pos", base |-> "int", invs |-> WithDescs("Pos", <<Pick(PosInvPool, k)>>, 0)],
                      [name |-> "Small_pos", base |-> "Pos", invs |-> WithDescs("Small_pos", <<Pick(SmallPosInvPool, k)>>, 0)],
                      [name |-> "Name", base |-> "str", invs |-> WithDescs("Name", Pick2(NameInvPool, k), 0)],
                      [name |-> "Short_name", base |-> "Name", invs |-> WithDescs("Short_name", <<Pick(ShortNameInvPool, k)>>, 0)]>>,
         enums |-> [Color |-> {"Red", "Green"}],
         vals |-> G0.vals, funcs |-> Funcs(k), sigs |-> Sigs]

\* extra trees of interest to C08 that the pool may not contain (calls of the additional functions)
ExtraTrees == <<Call("between", <<P("i"), IntC(0), IntC(1)>>), Call("all_small", <<P("xs")>>), Call("gap", <<P("i"), IntC(1), LenOf(P("xs"))>>),
                Imp(IsNotNone(P("oxs")), Call("all_small", <<P("oxs")>>)), Not(Call("between", <<LenOf(P("s")), IntC(1), P("i")>>))>>
\* accepted by the pinned code although they raise (known C07 findings): verification must raise exactly when they do
RaisingTrees == <<Or(<<P("b"), Cmp("<", P("s"), IntC(0))>>), Imp(P("b"), Cmp(">", LenOf(P("oxs")), IntC(0))),
                  Imp(Cmp(">", P("i"), IntC(0)), Call("is_abc", <<P("os")>>))>>

ModelTrees(k) == IF k <= NB THEN Batch(k) ELSE IF k = NB + 1 THEN ExtraTrees ELSE <<RaisingTrees[k - NB - 1], Cmp(">", P("i"), IntC(0))>>
NModels == NB + 1 + Len(RaisingTrees)

\* ---- instances ----------------------------------------------------------------------------------
AddNm(v, n) == IF v.t = "inst" THEN InstV("Item", v.id, [v |-> v.f.v, ov |-> v.f.ov, nm |-> n]) ELSE v
DefaultX == [itnm |-> NoneV, itsnm |-> NoneV, p |-> IntV(1), ops |-> NoneV, ps |-> IntList(<<>>), nm |-> StrV(a_)]
Ext(subj, x) ==
    InstV("Subject", "self",
          [i |-> subj.f.i, oi |-> subj.f.oi, s |-> subj.f.s, os |-> subj.f.os, b |-> subj.f.b, xs |-> subj.f.xs, oxs |-> subj.f.oxs,
           it |-> AddNm(subj.f.it, x.itnm), oit |-> AddNm(subj.f.oit, NoneV),
           its |-> ListV([j \in 1..Len(subj.f.its.xs) |-> AddNm(subj.f.its.xs[j], x.itsnm)]),
           e |-> subj.f.e, oe |-> subj.f.oe, p |-> x.p, ops |-> x.ops, ps |-> x.ps, nm |-> x.nm])

\* NInst instances per model in which every property varies at once: property number q takes the values of
\* its domain cyclically with a stride (a prime larger than every domain) of its own, so that each property
\* runs through its whole domain and the combinations differ from instance to instance.
Strides == <<17, 19, 23, 29, 31, 37, 41, 43, 47, 53, 59, 61, 67, 71, 73, 79, 83, 89>>
Cyc(dom, n, q) == dom[(((n - 1) * Strides[q] + q) % Len(dom)) + 1]
NmDom == <<NoneV, StrV(a_), StrV(<<97, 98, 99>>), StrV(<<>>), StrV(<<98>>)>>
JointInst(n) ==
    Ext(SubjectOf(PropOrder, [q \in 1..Len(PropOrder) |-> Cyc(DomFull[PropOrder[q]], n, q)]),
        [itnm |-> Cyc(NmDom, n, 13), itsnm |-> Cyc(NmDom, n, 14), p |-> Cyc(<<IntV(0), IntV(1), IntV(3)>>, n, 15),
         ops |-> Cyc(<<NoneV, IntV(0), IntV(1), IntV(3)>>, n, 16), ps |-> Cyc(IntListsSmall, n, 17), nm |-> Cyc(Tail(NmDom), n, 18)])

abc_ == <<97, 98, 99>>
Subj(ms, vals) == SubjectOf(ms, vals)
StructureInsts ==
    LET base == Subj(<<"its">>, <<ItemListsSmall[3]>>)
        XW(f, val) == [DefaultX EXCEPT ![f] = val]
    IN  [n \in 1..3 |-> Ext(base, XW("p", <<IntV(0), IntV(1), IntV(3)>>[n]))]
        \o [n \in 1..4 |-> Ext(base, XW("ops", <<NoneV, IntV(0), IntV(1), IntV(3)>>[n]))]
        \o [n \in 1..4 |-> Ext(base, XW("ps", IntListsSmall[n]))]
        \o [n \in 1..4 |-> Ext(base, XW("nm", <<StrV(<<>>), StrV(a_), StrV(abc_), StrV(<<98>>)>>[n]))]
        \o [n \in 1..4 |-> Ext(base, XW("itnm", <<NoneV, StrV(a_), StrV(abc_), StrV(<<>>)>>[n]))]
        \o [n \in 1..3 |-> Ext(base, XW("itsnm", <<StrV(a_), StrV(abc_), StrV(<<>>)>>[n]))]
        \o [n \in 1..3 |-> Ext(Subj(<<"it">>, <<ItemsSmall("it")[n]>>), DefaultX)]
        \o [n \in 1..4 |-> Ext(Subj(<<"oit">>, <<(<<NoneV>> \o ItemsSmall("oit"))[n]>>), DefaultX)]
        \o [n \in 1..4 |-> Ext(Subj(<<"its">>, <<ItemListsSmall[n]>>), DefaultX)]
        \o <<Ext(Subj(<<"i", "it", "oit", "its">>, <<IntV(2), ItemsSmall("it")[2], ItemsSmall("oit")[3], ItemListsSmall[4]>>),
                 [itnm |-> StrV(abc_), itsnm |-> StrV(<<>>), p |-> IntV(0), ops |-> IntV(3), ps |-> IntListsSmall[4], nm |-> StrV(abc_)])>>

\* the structure instances (one nested value varied at a time) go with the first models and the special ones
Instances(k) == [n \in 1..NInst |-> JointInst(n)] \o (IF k <= 3 \/ k > NB THEN StructureInsts ELSE <<>>)

\* ---- arguments for comparing the generated functions with the originals --------------------------
Alphabet(r) == LET b == {c \in Boundary(r) : c > 32 /\ c < 127} IN IF Cardinality(b) <= 4 THEN b \cup {122} ELSE b
Strs(alpha, n) == UNION {[1..m -> alpha] : m \in 0..n}
SmallInts == {IntV(n) : n \in -1..3}
FnArgs(k) ==
    [is_abc |-> SetToSeq({<<StrV(s)>> : s \in Strs(Alphabet(Pick(RegexPool, k)), IF Cardinality(Alphabet(Pick(RegexPool, k))) <= 4 THEN StrLen ELSE StrLen - 1)}),
     gt_zero |-> SetToSeq({<<x>> : x \in SmallInts}),
     in_range |-> SetToSeq({<<x, y>> : x \in SmallInts, y \in SmallInts}),
     between |-> SetToSeq({<<x, y, z>> : x \in SmallInts, y \in {IntV(0), IntV(1)}, z \in {IntV(0), IntV(2)}}),
     gap |-> SetToSeq({<<x, y, z>> : x \in SmallInts, y \in {IntV(0), IntV(1), IntV(2)}, z \in {IntV(0), IntV(2)}}),
     all_small |-> [n \in 1..Len(IntLists) |-> <<IntLists[n]>>]]

Cases == [k \in 1..NModels |-> [model |-> ModelOf(k, ModelTrees(k)), insts |-> Instances(k), fnargs |-> FnArgs(k)]]
=============================================================================
