SPECIFICATION Spec
CONSTANTS
  Depth = 1
  MaxMut = 2
  Mode = "base"
  ModelIds = {"param_8_32"}
INVARIANT InstanceTyped
INVARIANT RoundTrip
INVARIANT Monotone
INVARIANT ResultTyped
INVARIANT KindPromise
