SPECIFICATION Spec
CONSTANTS
  Trees <- QuickTrees
  Alphabet <- ABC
  MaxLen = 2
  PopClearsMark = FALSE
INVARIANT TypeOK
INVARIANT ThreadsInProgram
INVARIANT ProgramWellFormed
INVARIANT VerdictIsFullMatch
INVARIANT VerdictIsBigStep
PROPERTY Termination
