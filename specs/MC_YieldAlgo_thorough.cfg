SPECIFICATION Spec
CONSTANTS
  MaxSize = 4
INVARIANT SameEvents
INVARIANT AllTargetsExist
INVARIANT StackBounded
INVARIANT FinalWellFormed
INVARIANT NoopOnlyTrailing
