\* the design AS PINNED: the three named deviations are on; the property holds outside them (thorough scope)
SPECIFICATION Spec
CONSTANTS
  Scenarios <- ScenariosDef
  MaxLen = 6
  MaxC = 2
  MaxAtoms = 2
  GuardSet = {"none", "isnone", "other"}
  Narrow = FALSE
  Shapes = {"one", "chain", "prim", "dia"}
  ForeignGuardMisread = TRUE
  StrictPositiveMin = TRUE
  RaiseOnConflict = TRUE
  SnapshotStacking = FALSE
  NegativeMaxIsError = FALSE
INVARIANT TypeOK
INVARIANT PinnedExact
INVARIANT PinnedUnsatNotOk
INVARIANT PinnedRaiseOnlyWhenNamed
INVARIANT PinnedErrorExplainable
INVARIANT Progress
