----------------------------- MODULE Constraints -----------------------------
(* C15 / C11 / C12 (and C13 / C14): what the invariants of a meta-model say about the value of ONE      *)
(* property `x` -- declaratively.  This module is variable-free (it can be EXTENDed by generator, trace  *)
(* and algorithm modules alike).                                                                         *)
(*                                                                                                       *)
(* A *scenario* is a small family of classes                                                             *)
(*                                                                                                       *)
(*        P1 <- P2            constrained primitives (invariants over `self`)                            *)
(*        C1 <- C2 <- C3      classes; C1 declares  x : T  (and, when needed, y : Optional[str], n : int)*)
(*        Something           root container with  inner : C1                                            *)
(*                                                                                                       *)
(* with T given by `kind`:  str | bytes | list (List[str]) | cprim (P_last) | listcprim (List[P_last]) | *)
(* enum (Color), optionally wrapped in Optional[.] (`opt`).  Every class Ck and every constrained        *)
(* primitive Pj carries a sequence of *atoms* (one @invariant each):                                     *)
(*                                                                                                       *)
(*   [k |-> "len", op, c, side, g, form, ids |-> <<>>]                                                   *)
(*        side "L":  len(X) op c        side "R":  c op len(X)        X = self.x  (or  self  in a Pj)    *)
(*        form "const": the bound is the integer literal c; "nonconst": the bound is self.n;             *)
(*             "conj": the comparison is wrapped as  `cmp and cmp`                                       *)
(*        g (guard)  "none"      : cmp                                                                   *)
(*                   "isnone"    : self.x is None or cmp                                                 *)
(*                   "notnot"    : not (self.x is not None) or cmp                                       *)
(*                   "other"     : self.y is None or cmp           (guard on a DIFFERENT property)       *)
(*                   "othernot"  : not (self.y is not None) or cmp                                       *)
(*                   "isnone3"   : self.x is None or self.y is None or cmp   (a chained disjunction)   *)
(*   [k |-> "pat", ids |-> <<p1, ..>>, g, ...]   is_p1(X) and is_p2(X) ...  (pattern verification calls) *)
(*   [k |-> "set", ids |-> <<s1, ..>>, g, ...]   X in S1 and X in S2 ...    (constant sets)              *)
(*                                                                                                       *)
(* Two value *slots* are constrained: "v" = the value of x itself (its length, the size of the list,     *)
(* its patterns, its literals) and "i" = the items of x when x is a list of constrained primitives.      *)
(*                                                                                                       *)
(* The property (C15): the inferred range / pattern list / literal set of slot s in class Ck admits a    *)
(* value exactly when all RECOGNISED atoms that apply to (Ck, s) hold.  An atom is recognised when it    *)
(* has one of the shapes documented by infer_for_schema (a single comparison of len(.) with an integer   *)
(* literal using < <= == > >=, a pattern call, a membership in a named constant set; unguarded or        *)
(* guarded by the SAME property being None); everything else must contribute nothing.                   *)
EXTENDS Integers, Sequences, FiniteSets

LenOps   == {"<", "<=", "==", ">", ">=", "!="}
Sides    == {"L", "R"}
Guards   == {"none", "isnone", "notnot", "other", "othernot", "isnone3"}
Forms    == {"const", "nonconst", "conj"}
Kinds    == {"str", "bytes", "list", "cprim", "listcprim", "enum"}
Slots    == {"v", "i"}

SameGuards    == {"isnone", "notnot"}      \* guard names x itself
ForeignGuards == {"other", "othernot"}     \* guard names another property
ChainedGuards == {"isnone3"}               \* self.x is None or self.y is None or cmp : THREE disjuncts, not a documented form

LenAtom(op, c, side, g, form) == [k |-> "len", op |-> op, c |-> c, side |-> side, g |-> g, form |-> form, ids |-> <<>>]
PatAtom(ids, g) == [k |-> "pat", op |-> "", c |-> 0, side |-> "L", g |-> g, form |-> "const", ids |-> ids]
SetAtom(ids, g) == [k |-> "set", op |-> "", c |-> 0, side |-> "L", g |-> g, form |-> "const", ids |-> ids]

Range(f) == {f[x] : x \in DOMAIN f}

-------------------------------------------------------------------------------
(* Library of patterns and constant sets the scenarios refer to by id.                                  *)
(* Every pattern is ^[allowed]*$ over a small alphabet, so that membership is declarative here:          *)
(* a string (sequence of code points) matches iff all its characters are allowed.                        *)
(* (harness/schema_scen.py holds the concrete regex texts and cross-checks this table with `re`.)        *)

PatIds == {"ab", "bc", "b", "bmpx", "astral", "ar1", "ar2", "ar3", "ar8", "abc_re"}
CP_a == 97
CP_b == 98
CP_c == 99
CP_eacute == 233
CP_grin == 128512  \* U+1F600
\* Every pattern is ^[...]*$ ; PatRanges(p) = the inclusive code-point ranges inside the brackets.
\* "ar<n>": b plus an astral range whose UTF-16 form spans n high surrogates (U+10000 = D800 DC00; one high
\* surrogate covers 0x400 code points), so that the rewriting for UTF-16 engines meets its 1 / 2 / 3 / many cases.
PatRanges(p) ==
    CASE p = "ab"     -> {<<CP_a, CP_b>>}
      [] p = "bc"     -> {<<CP_b, CP_c>>}
      [] p = "b"      -> {<<CP_b, CP_b>>}
      [] p = "bmpx"   -> {<<CP_b, CP_b>>, <<CP_eacute, CP_eacute>>}
      [] p = "astral" -> {<<CP_b, CP_b>>, <<CP_grin, CP_grin>>}
      [] p = "abc_re" -> {<<CP_a, CP_c>>}     \* written as a multi-statement pattern function that re-assigns a building block
      [] p = "ar1"    -> {<<CP_b, CP_b>>, <<65536, 65551>>}      \* U+10000 - U+1000F : D800 only
      [] p = "ar2"    -> {<<CP_b, CP_b>>, <<65541, 66565>>}      \* U+10005 - U+10405 : D800 - D801
      [] p = "ar3"    -> {<<CP_b, CP_b>>, <<65536, 68607>>}      \* U+10000 - U+10BFF : D800 - D802 (exactly three)
      [] p = "ar8"    -> {<<CP_b, CP_b>>, <<66000, 73727>>}      \* U+101D0 - U+11FFF : D800 - D807
PatAllows(p, cp) == \E r \in PatRanges(p) : r[1] <= cp /\ cp <= r[2]
Matches(p, s) == \A j \in 1..Len(s) : PatAllows(p, s[j])

\* constant sets of strings (ids) and of enumeration literals; values are abstract tokens
SetIds == {"S_ab", "S_bc", "S_c", "E_rg", "E_gb", "E_b"}
SetDef(s) ==
    CASE s = "S_ab" -> {"A", "B"}
      [] s = "S_bc" -> {"B", "C"}
      [] s = "S_c"  -> {"C"}
      [] s = "E_rg" -> {"RED", "GREEN"}
      [] s = "E_gb" -> {"GREEN", "BLUE"}
      [] s = "E_b"  -> {"BLUE"}
StrSetIds  == {"S_ab", "S_bc", "S_c"}
EnumSetIds == {"E_rg", "E_gb", "E_b"}

-------------------------------------------------------------------------------
(* Semantics of one atom on an instance (Python semantics of the invariant's lambda).                   *)

Cmp(a, op, b) ==
    CASE op = "<"  -> a < b
      [] op = "<=" -> a <= b
      [] op = "==" -> a = b
      [] op = ">"  -> a > b
      [] op = ">=" -> a >= b
      [] op = "!=" -> a # b

\* the comparison itself, on a value of length n; nval = the value of self.n (only for form "nonconst")
LenBody(a, n, nval) ==
    LET b == IF a.form = "nonconst" THEN nval ELSE a.c
    IN  IF a.side = "L" THEN Cmp(n, a.op, b) ELSE Cmp(b, a.op, n)

\* truth of the whole invariant for an instance whose x is PRESENT with length n
\* (a guard on x itself is then false, so the body decides; a guard on y decides when y is None)
HoldsLen(a, n, yNone, nval) == (a.g \in ForeignGuards \cup ChainedGuards /\ yNone) \/ LenBody(a, n, nval)

\* a pattern / set atom on a present value: s a string, lit a literal token
HoldsPat(a, s, yNone) == (a.g \in ForeignGuards \cup ChainedGuards /\ yNone) \/ \A p \in Range(a.ids) : Matches(p, s)
HoldsSet(a, lit, yNone) == (a.g \in ForeignGuards \cup ChainedGuards /\ yNone) \/ \A z \in Range(a.ids) : lit \in SetDef(z)

-------------------------------------------------------------------------------
(* Recognised forms.                                                                                     *)

RecognisedGuard(a) == a.g \in {"none"} \cup SameGuards

Recognised(a) ==
    /\ RecognisedGuard(a)
    /\ \/ a.k = "len" /\ a.op \in LenOps \ {"!="} /\ a.form = "const"
       \/ a.k = "pat" /\ a.ids # <<>>
       \/ a.k = "set" /\ a.ids # <<>>

\* names of the unrecognised forms an atom has (for stratification and structural keys)
UnrecognisedForms(a) ==
    (IF a.g \in ForeignGuards THEN {"foreign_guard"} ELSE {})
    \cup (IF a.g \in ChainedGuards THEN {"chained_disjunction"} ELSE {})
    \cup (IF a.k = "len" /\ a.op = "!=" THEN {"ne"} ELSE {})
    \cup (IF a.k = "len" /\ a.form = "nonconst" THEN {"nonconst"} ELSE {})
    \cup (IF a.k = "len" /\ a.form = "conj" THEN {"conj"} ELSE {})

-------------------------------------------------------------------------------
(* Scenarios.  scn = [kind, opt, wmt, shape, cls : Seq(Seq(Atom)), prim : Seq(Seq(Atom))]                *)

Depth(scn) == Len(scn.cls)
FlattenTo(seqs, k) == UNION {Range(seqs[j]) : j \in 1..k}
AllPrimAtoms(scn) == FlattenTo(scn.prim, Len(scn.prim))
\* Shapes of the class hierarchy (scn.shape):
\*   "chain"                 C1 <- C2 <- C3                      (levels 1..Depth)
\*   "dia_ab" / "dia_ba"     C1 <- C2, C1 <- C3, C4(C2, C3) / C4(C3, C2): a diamond, the two orders of the bases
ParentLevels(scn, k) ==
    IF scn.shape = "chain" THEN (IF k > 1 THEN {k - 1} ELSE {})
    ELSE CASE k = 1 -> {} [] k = 2 -> {1} [] k = 3 -> {1} [] k = 4 -> {2, 3}
\* a class and all its ancestors, through ANY parent
AncLevels(scn, k) ==
    IF scn.shape = "chain" THEN 1..k
    ELSE CASE k = 1 -> {1} [] k = 2 -> {1, 2} [] k = 3 -> {1, 3} [] k = 4 -> {1, 2, 3, 4}
ClassAtoms(scn, k) == UNION {Range(scn.cls[j]) : j \in AncLevels(scn, k)}   \* own and inherited invariants of Ck
AllAtoms(scn) == FlattenTo(scn.cls, Depth(scn)) \cup AllPrimAtoms(scn)

\* the atoms that speak about slot s of class Ck
SlotAtoms(scn, k, s) ==
    IF s = "v"
    THEN ClassAtoms(scn, k) \cup (IF scn.kind = "cprim" THEN AllPrimAtoms(scn) ELSE {})
    ELSE IF scn.kind = "listcprim" THEN AllPrimAtoms(scn) ELSE {}

\* Membership in a constant set is a documented form for class invariants only ("We do not match the set of
\* primitives on the constrained primitives at the moment"): on a constrained primitive it is an unrecognised form.
RecAtoms(scn, k, s, kind) ==
    {a \in SlotAtoms(scn, k, s) : a.k = kind /\ Recognised(a) /\ (kind = "set" => a \in ClassAtoms(scn, k))}

\* where an atom comes from, relative to a document of class Ck:  "c<j>" class level j, "p<j>" cprim level j
AtomSources(scn, a) ==
    {<<"c", j>> : j \in {j \in 1..Len(scn.cls) : a \in Range(scn.cls[j])}}
    \cup {<<"p", j>> : j \in {j \in 1..Len(scn.prim) : a \in Range(scn.prim[j])}}

-------------------------------------------------------------------------------
(* Length: the declarative meaning of the recognised atoms.                                              *)

AdmitsLen(scn, k, s, n) == \A a \in RecAtoms(scn, k, s, "len") : LenBody(a, n, 0)
AdmitLens(scn, k, s, maxLen) == {n \in 0..maxLen : AdmitsLen(scn, k, s, n)}

\* constants are in 0..maxLen-2, so 0..maxLen decides satisfiability over all naturals
Unsat(scn, k, s, maxLen) == AdmitLens(scn, k, s, maxLen) = {}
IndividuallySat(a, maxLen) == \E n \in 0..maxLen : LenBody(a, n, 0)
MutuallyUnsat(scn, k, s, maxLen) ==
    /\ Unsat(scn, k, s, maxLen)
    /\ \A a \in RecAtoms(scn, k, s, "len") : IndividuallySat(a, maxLen)
SomeMutuallyUnsat(scn, maxLen) == \E k \in 1..Depth(scn), s \in Slots : MutuallyUnsat(scn, k, s, maxLen)
SomeUnsat(scn, maxLen) == \E k \in 1..Depth(scn), s \in Slots : Unsat(scn, k, s, maxLen)

\* a descendant tightens what it inherits
Tightens(scn, k, s, maxLen) == \E p \in ParentLevels(scn, k) : AdmitLens(scn, k, s, maxLen) # AdmitLens(scn, p, s, maxLen)

\* an inferred range as reported:  [has, hasmin, min, hasmax, max]   (has = a length constraint is present)
RangeSet(r, maxLen) ==
    IF ~r.has THEN 0..maxLen
    ELSE {n \in 0..maxLen : (r.hasmin => r.min <= n) /\ (r.hasmax => n <= r.max)}

\* lower / upper bound that the recognised atoms imply (for translation checks; -1 = none)
ImpliedMin(scn, k, s, maxLen) ==
    LET A == AdmitLens(scn, k, s, maxLen) IN IF A = {} \/ 0 \in A THEN -1 ELSE CHOOSE n \in A : \A m \in A : n <= m
ImpliedMax(scn, k, s, maxLen) ==
    LET A == AdmitLens(scn, k, s, maxLen) IN IF A = {} \/ maxLen \in A THEN -1 ELSE CHOOSE n \in A : \A m \in A : m <= n

-------------------------------------------------------------------------------
(* Patterns and literal sets.                                                                            *)

ExpectedPats(scn, k, s) == UNION {Range(a.ids) : a \in RecAtoms(scn, k, s, "pat")}

HasSetConstraint(scn, k, s) == RecAtoms(scn, k, s, "set") # {}
SetIdsOf(scn, k, s) == UNION {Range(a.ids) : a \in RecAtoms(scn, k, s, "set")}
AllLiterals == UNION {SetDef(z) : z \in SetIds}
ExpectedLits(scn, k, s) == {l \in AllLiterals : \A z \in SetIdsOf(scn, k, s) : l \in SetDef(z)}

-------------------------------------------------------------------------------
(* Instances and documents (C11 - C14).                                                                  *)
(* An instance of Ck is abstracted to: length n of x (or of each item, for slot "i"), whether y is None, *)
(* the value of n.  It satisfies ALL invariants (recognised or not) iff every atom that applies holds.   *)

InstanceOKLen(scn, k, s, n, yNone, nval) == \A a \in {b \in SlotAtoms(scn, k, s) : b.k = "len"} : HoldsLen(a, n, yNone, nval)
InstanceOKStr(scn, k, s, str, yNone) == \A a \in {b \in SlotAtoms(scn, k, s) : b.k = "pat"} : HoldsPat(a, str, yNone)

\* base64 text length of n bytes
B64Len(n) == 4 * ((n + 2) \div 3)

\* A violating length n for (Ck, s): outside AdmitLens but next to an admitted length (min-1 / max+1).
ViolatingLens(scn, k, s, maxLen) ==
    LET A == AdmitLens(scn, k, s, maxLen)
    IN  {n \in 0..maxLen : n \notin A /\ ((n + 1) \in A \/ (n > 0 /\ (n - 1) \in A))}

\* which recognised atoms a length breaks, and where they come from
BrokenBy(scn, k, s, n) == {a \in RecAtoms(scn, k, s, "len") : ~LenBody(a, n, 0)}
BrokenSources(scn, k, s, n) == UNION {AtomSources(scn, a) : a \in BrokenBy(scn, k, s, n)}

\* C12's stated exclusion: a byte-array length whose base64 text is as long as that of an admitted length
\* cannot be told apart by a constraint on the text length.
BytesInexpressible(scn, k, s, n, maxLen) ==
    scn.kind = "bytes" /\ \E m \in AdmitLens(scn, k, s, maxLen) : B64Len(m) = B64Len(n)

===============================================================================
